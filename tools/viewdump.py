"""Dump the 'view': exactly the fields of the mypy build result (and the answers of the docstring parser) that the analyzer reads.

The dump is taken inside the wrapper of mypy.build.build, i.e. before the analyzer has touched (and possibly mutated) any
mypy object.  Everything is encoded as S-expression trees (python lists of str/int/bool/list) for tools/vlib.sx.

Format (atoms are strings; options are () or (x)):
  view   = [package_name, style, [alias_entry...], [module...], docs]
  module = [path, fullname, name, [import...], first_stmt_doc(opt str), [def...]]
  import = ["imp", [[name, opt alias]...]] | ["from", id, [[name, opt alias]...]] | ["all", id]
  def    = ["func", func] | ["deco", func] | ["over", over] | ["class", cls] | ["assign", [lvalue...], opt mtype]
         | ["other", classname, opt name]
  over   = [is_property, opt impl(def), [item(def)...]]
  func   = [name, fullname, is_static, is_class, is_property, opt [arg...], opt ftype, [stmt...]]
  ftype  = ["noret"] | ["ret", mtype, opt uret]           (node.type is None -> func has (); no ret_type attr -> noret)
  arg    = [name, opt mtype(variable.type), is_self, is_cls, opt mtype(type_annotation), kind, pos_only, opt expr(initializer)]
  cls    = [name, fullname, [bexpr...](base_type_exprs), [bexpr...](removed_base_type_exprs), [def...]]
  bexpr  = [opt fullname, inherits_exception, opt base_name, index]
  index  = ["tuple", [opt tvnode...]] | ["name", tvnode] | ["other"]
  tvnode = ["tv", name, variance, [mtype...](values), mtype(upper_bound)] | ["bad"]      (bad: no 'variance' attribute)
  stmt   = ["if", [[stmt...]...], opt [stmt...]] | ["block", [stmt...]] | ["try", [stmt...], [[stmt...]...]] | ["match", [[stmt...]...]]
         | ["loop", [stmt...]] | ["ret", opt expr] | def-like: ["assign", ...] | ["func", func] ... | ["other", classname]
  expr   = ["name", name, fullname, node] | ["member", name, fullname, node] | ["int", v] | ["float", repr] | ["str", v]
         | ["tuple", [expr...]] | ["unary", op, expr] | ["call"] | ["cond", expr, expr] | ["items", classname, [expr...]]
         | ["other", classname, has_name(opt str)]
  node   = ["var", fullname, opt mtype(type), explicit_self_type, is_inferred, is_self] | ["none"] | ["other", classname]
  mtype  = ["I", name, fullname, [mtype...]] | ["Tu", [mtype...]] | ["Un", [mtype...]] | ["TV", name, mtype]
         | ["C", [mtype...], mtype, opt name] | ["Any", type_of_any_name, opt missing_import_name] | ["None"] | ["Lit", lit]
         | ["Ub", name, [mtype...]] | ["Raw", literal_value_is_none] | ["O", classname, opt name, opt [mtype...]]
"""
from __future__ import annotations

import mypy.nodes as N
import mypy.types as T

import vlib
from vlib import opt

MAX_DEPTH = 60


class Unsupported(Exception):
    pass


def type_of_any_name(v: int) -> str:
    for k, x in vars(T.TypeOfAny).items():
        if not k.startswith("_") and x == v:
            return k
    return f"unknown_{v}"


def mt(t, depth=0):
    if depth > MAX_DEPTH:
        raise Unsupported("type nesting too deep")
    d = depth + 1
    if t is None:
        raise Unsupported("None where a type is expected")
    if isinstance(t, T.TupleType):
        return ["Tu", [mt(x, d) for x in t.items]]
    if isinstance(t, T.UnionType):
        return ["Un", [mt(x, d) for x in t.items]]
    if isinstance(t, T.TypeVarType):
        return ["TV", t.name, mt(t.upper_bound, d)]
    if isinstance(t, T.CallableType):
        return ["C", [mt(x, d) for x in t.arg_types], mt(t.ret_type, d), opt(t.name if isinstance(t.name, str) else None)]
    if isinstance(t, T.AnyType):
        return ["Any", type_of_any_name(t.type_of_any), opt(t.missing_import_name)]
    if isinstance(t, T.NoneType):
        return ["None"]
    if isinstance(t, T.LiteralType):
        return ["Lit", vlib.lit_sx(t.value)]
    if isinstance(t, T.UnboundType):
        return ["Ub", t.name, [mt(x, d) for x in t.args]]
    if isinstance(t, T.Instance):
        return ["I", t.type.name, t.type.fullname, [mt(x, d) for x in t.args]]
    if isinstance(t, T.RawExpressionType):
        return ["Raw", t.literal_value is None]
    name = getattr(t, "name", None)
    args = getattr(t, "args", None)
    a = None
    if isinstance(args, list | tuple):
        try:
            a = [mt(x, d) for x in args]
        except Unsupported:
            a = None
    return ["O", type(t).__name__, opt(name if isinstance(name, str) else None), opt(a)]


def node_sx(n):
    if n is None:
        return ["none"]
    if isinstance(n, N.Var):
        return ["var", n.fullname, opt(None if n.type is None else mt(n.type)), bool(n.explicit_self_type), bool(n.is_inferred),
                bool(n.is_self)]
    return ["other", type(n).__name__]


def expr(e, depth=0):
    if depth > MAX_DEPTH:
        raise Unsupported("expression nesting too deep")
    d = depth + 1
    if isinstance(e, N.NameExpr):
        return ["name", e.name, e.fullname or "", node_sx(e.node)]
    if isinstance(e, N.MemberExpr):
        return ["member", e.name, e.fullname or "", node_sx(e.node)]
    if isinstance(e, N.IntExpr):
        return ["int", e.value]
    if isinstance(e, N.FloatExpr):
        return ["float", repr(e.value)]
    if isinstance(e, N.StrExpr):
        return ["str", e.value]
    if isinstance(e, N.TupleExpr):
        return ["tuple", [expr(x, d) for x in e.items]]
    if isinstance(e, N.UnaryExpr):
        return ["unary", e.op, expr(e.expr, d)]
    if isinstance(e, N.CallExpr):
        return ["call"]
    if isinstance(e, N.ConditionalExpr):
        return ["cond", expr(e.if_expr, d), expr(e.else_expr, d)]
    items = getattr(e, "items", None)
    if isinstance(items, list) and all(isinstance(x, N.Expression) for x in items):
        return ["items", type(e).__name__, [expr(x, d) for x in items]]
    nm = getattr(e, "name", None)
    return ["other", type(e).__name__, opt(nm if isinstance(nm, str) else None)]


def inherits_from_exception(info) -> bool:
    seen = set()

    def go(i):
        if id(i) in seen:
            return False
        seen.add(id(i))
        if i.fullname == "builtins.Exception":
            return True
        return any(go(b.type) for b in i.bases)

    return go(info)


def tvnode(n):
    if n is None or not hasattr(n, "variance"):
        return ["bad"]
    try:
        return ["tv", n.name, int(n.variance), [mt(v) for v in n.values], mt(n.upper_bound)]
    except (AttributeError, Unsupported):
        return ["bad"]


def bexpr(e):
    fullname = getattr(e, "fullname", None) if hasattr(e, "fullname") else None
    has_fullname = hasattr(e, "fullname")
    exc = bool(hasattr(e, "node") and isinstance(e.node, N.TypeInfo) and inherits_from_exception(e.node))
    base = getattr(e, "base", None)
    base_name = getattr(base, "name", None)
    index = getattr(e, "index", None)
    if isinstance(index, N.TupleExpr):
        ix = ["tuple", [opt(tvnode(it.node)) if hasattr(it, "node") else [] for it in index.items]]
    elif isinstance(index, N.NameExpr):
        ix = ["name", tvnode(index.node)]
    else:
        ix = ["other"]
    return [opt(fullname if has_fullname and isinstance(fullname, str) else None) if has_fullname else [], exc,
            opt(base_name if isinstance(base_name, str) else None), ix]


def stmts(body, depth):
    return [stmt(s, depth) for s in body]


def stmt(s, depth=0):
    if depth > MAX_DEPTH:
        raise Unsupported("statement nesting too deep")
    d = depth + 1
    if isinstance(s, N.IfStmt):
        return ["if", [stmts(b.body, d) for b in s.body], opt(None if not s.else_body else stmts(s.else_body.body, d))]
    if isinstance(s, N.Block):
        return ["block", stmts(s.body, d)]
    if isinstance(s, N.TryStmt):
        return ["try", stmts(s.body.body, d), [stmts(h.body, d) for h in s.handlers]]
    if isinstance(s, N.MatchStmt):
        return ["match", [stmts(b.body, d) for b in s.bodies]]
    if isinstance(s, N.WhileStmt | N.WithStmt | N.ForStmt):
        return ["loop", stmts(s.body.body, d)]
    if isinstance(s, N.ReturnStmt):
        return ["ret", opt(None if s.expr is None else expr(s.expr))]
    return definition(s, d)


def definition(s, depth=0):
    d = depth + 1
    if isinstance(s, N.FuncDef):
        return ["func", func(s, d)]
    if isinstance(s, N.Decorator):
        return ["deco", func(s.func, d)]
    if isinstance(s, N.OverloadedFuncDef):
        return ["over", [bool(s.is_property), opt(None if s.impl is None else definition(s.impl, d)), [definition(i, d) for i in s.items]]]
    if isinstance(s, N.ClassDef):
        return ["class", cls(s, d)]
    if isinstance(s, N.AssignmentStmt):
        return ["assign", [expr(lv) for lv in s.lvalues], opt(None if s.unanalyzed_type is None else mt(s.unanalyzed_type))]
    if isinstance(s, N.ExpressionStmt) and isinstance(s.expr, N.StrExpr):
        return ["strstmt", s.expr.value]
    nm = getattr(s, "name", None)
    return ["other", type(s).__name__, opt(nm if isinstance(nm, str) else None)]


def arg(a):
    v = a.variable
    return [v.name, opt(None if v.type is None else mt(v.type)), bool(v.is_self), bool(v.is_cls),
            opt(None if a.type_annotation is None else mt(a.type_annotation)), a.kind.name, bool(a.pos_only),
            opt(None if a.initializer is None else expr(a.initializer))]


def func(f, depth=0):
    if f.type is None:
        ft = []
    elif hasattr(f.type, "ret_type"):
        u = getattr(f.unanalyzed_type, "ret_type", None)
        ft = [["ret", mt(f.type.ret_type), opt(None if u is None else mt(u))]]
    else:
        ft = [["noret"]]
    args = getattr(f, "arguments", None)
    return [f.name, f.fullname, bool(f.is_static), bool(f.is_class), bool(f.is_property),
            opt(None if args is None else [arg(a) for a in args]), ft, stmts(f.body.body, depth + 1)]


def cls(c, depth=0):
    return [c.name, c.fullname, [bexpr(e) for e in c.base_type_exprs], [bexpr(e) for e in c.removed_base_type_exprs],
            [definition(s, depth + 1) for s in c.defs.body]]


def imports(tree):
    out = []
    for i in tree.imports:
        if isinstance(i, N.Import):
            out.append(["imp", [[n, opt(a)] for n, a in i.ids]])
        elif isinstance(i, N.ImportFrom):
            out.append(["from", i.id or "", [[n, opt(a)] for n, a in i.names]])
        elif isinstance(i, N.ImportAll):
            out.append(["all", i.id])
        else:
            out.append(["otherimport"])
    return out


def module(tree):
    first = []
    if tree.defs:
        d0 = tree.defs[0]
        if isinstance(d0, N.ExpressionStmt) and isinstance(d0.expr, N.StrExpr):
            first = [d0.expr.value]
    return [tree.path, tree.fullname, tree.name, imports(tree), first, [definition(s) for s in tree.defs]]


# ---------------------------------------------------------------------------------------------------------
# alias pass input: the entries of build_result.types whose key is a NameExpr / MemberExpr / TypeVarExpr, in dict order
def alias_entry(key, tv):
    kind = "name" if isinstance(key, N.NameExpr) else "member" if isinstance(key, N.MemberExpr) else "tvexpr"
    kname = getattr(key, "name", None)
    kfull = getattr(key, "fullname", None)
    node = getattr(key, "node", None) if hasattr(key, "node") else None
    if isinstance(node, N.TypeAlias) and isinstance(node.target, T.Instance):
        nd = ["alias", node.target.type.fullname]
    elif isinstance(node, N.Var):
        nd = ["var", node.fullname]
    else:
        nd = ["other"]
    ty = getattr(tv, "type", None) if hasattr(tv, "type") else None
    tinfo = []
    if ty is not None:
        tinfo = [[ty.name, ty.fullname]]
    if isinstance(tv, T.CallableType):
        if getattr(tv, "bound_args", None) is not None:
            raise Unsupported("this mypy has CallableType.bound_args")
        if tv.is_type_obj():
            r = tv.ret_type
            rt = getattr(r, "type", None) if hasattr(r, "type") else None
            tvk = ["callable", True, hasattr(r, "type"), opt(None if rt is None else rt.fullname)]
        else:
            tvk = ["callable", False, False, []]
    elif isinstance(tv, T.Instance):
        tvk = ["instance", tv.type.fullname]
    else:
        tvk = ["othertype", type(tv).__name__]
    return [kind, opt(kname if isinstance(kname, str) else None), opt(kfull if isinstance(kfull, str) else None), nd, tinfo, tvk]


def aliases(result_types):
    """entries in dict order; an entry identical to an earlier one is dropped (the alias step of a repeated entry adds a
    pair that is already present: Proofs/FrontProofs.v, alias_step_repeat)"""
    out = []
    seen = set()
    for key in result_types:
        if isinstance(key, N.NameExpr | N.MemberExpr | N.TypeVarExpr):
            e = alias_entry(key, result_types[key])
            k = repr(e)
            if k not in seen:
                seen.add(k)
                out.append(e)
    return out


# ---------------------------------------------------------------------------------------------------------
# docstring oracle: the answers of a second docstring parser object to the queries the visitor can make
def _doc(d):
    return [d.description, d.full_docstring, list(d.examples)]


def _exc(e):
    return ["exc", type(e).__name__]


def docs_for(trees, parser):
    """returns [class_docs, func_docs, param_docs, attr_docs, result_docs]; every entry is [key..., answer] with
    answer = ["ok", value] | ["exc", type name]"""
    cd, fd, pd, ad, rd = [], [], [], [], []

    def q(f):
        try:
            return ["ok", f()]
        except Exception as e:  # noqa: BLE001
            return _exc(e)

    def lv_names(lv):
        if hasattr(lv, "name"):
            return [lv.name]
        if hasattr(lv, "items"):
            return [x.name for x in lv.items if hasattr(x, "name")]
        return []

    def visit_func(f, parent_cls):
        fd.append([f.fullname, q(lambda: _doc(parser.get_function_documentation(f)))])
        rd.append([f.fullname, q(lambda: [[vlib.opt(None if r.type is None else vlib.ty_sx(r.type)), r.description, r.name]
                                          for r in parser.get_result_documentation(f.fullname)])])
        for a in (getattr(f, "arguments", None) or []):
            pq = parent_cls.fullname if (parent_cls is not None and f.name == "__init__") else ""
            def ask(a=a, pq=pq):
                p = parser.get_parameter_documentation(function_qname=f.fullname, parameter_name=a.variable.name,
                                                       parent_class_qname=pq.replace(".", "/"))
                return [vlib.opt(None if p.type is None else vlib.ty_sx(p.type)), p.default_value, p.description]
            pd.append([f.fullname, a.variable.name, pq, q(ask)])
        if f.name == "__init__" and parent_cls is not None:
            for s in f.body.body:
                if isinstance(s, N.AssignmentStmt):
                    for lv in s.lvalues:
                        for nm in lv_names(lv):
                            attr_q(parent_cls, nm)

    seen_attr = set()

    def attr_q(c, nm):
        if (c.fullname, nm) in seen_attr:
            return
        seen_attr.add((c.fullname, nm))
        def ask():
            a = parser.get_attribute_documentation(parent_class_qname=c.fullname.replace(".", "/"), attribute_name=nm)
            return [vlib.opt(None if a.type is None else vlib.ty_sx(a.type)), a.description]
        ad.append([c.fullname, nm, q(ask)])

    def visit_def(s, parent_cls):
        if isinstance(s, N.Decorator):
            visit_func(s.func, parent_cls)
        elif isinstance(s, N.FuncDef):
            visit_func(s, parent_cls)
        elif isinstance(s, N.OverloadedFuncDef):
            if s.impl is not None:
                visit_def(s.impl, parent_cls)
            for it in s.items:
                visit_def(it, parent_cls)
        elif isinstance(s, N.ClassDef):
            cd.append([s.fullname, q(lambda: _doc(parser.get_class_documentation(s)))])
            for x in s.defs.body:
                if isinstance(x, N.AssignmentStmt):
                    for lv in x.lvalues:
                        for nm in lv_names(lv):
                            attr_q(s, nm)
                else:
                    visit_def(x, s)

    for t in trees:
        for s in t.defs:
            visit_def(s, None)
    return [cd, fd, pd, ad, rd]


def dump_build(build_result, src_prefix: str):
    """phase 1, inside the mypy.build.build wrapper: alias entries and module trees (full for files below src_prefix)"""
    trees, mods = [], []
    for key, st in build_result.graph.items():
        t = st.tree
        if t is None:
            mods.append(["notree", key])
        elif str(t.path).startswith(src_prefix):
            trees.append(t)
            mods.append(["mod", module(t)])
        else:
            mods.append(["ext", t.path, t.fullname])
    return aliases(build_result.types), mods, trees


def nearest_init_root(src):
    """the root get_api settles on (replica of _get_nearest_init_dirs; harness-side, listed in the trusted base)"""
    inits = list(src.glob("./**/__init__.py"))
    if not inits:
        return src
    m = min(len(i.parts) for i in inits)
    c = [i.parent for i in inits if len(i.parts) == m]
    return c[0] if len(c) == 1 else src
