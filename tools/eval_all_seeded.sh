#!/bin/bash
# run every seeded change against the check of its property and write seeded/RESULTS.md
cd /verif
out=seeded/RESULTS.md
echo "| seeded change | property | exit | violation lines | with failing input | summary |" > $out
echo "|---|---|---|---|---|---|" >> $out
for d in seeded/C*/; do
  id=$(basename $d)
  prop=$(python3 -c "import json;print(json.load(open('$d/meta.json'))['property'])")
  (cd /repo && git apply /verif/$d/patch.diff) || { echo "| $id | $prop | patch does not apply | | | |" >> $out; continue; }
  log=$(./check $prop --tier quick 2>&1 | grep -v "^KNOWN\|^INFO")
  rc=$(echo "$log" | tail -1 | sed 's/.*exit=//')
  nv=$(echo "$log" | grep -c '^VIOLATION')
  nf=$(echo "$log" | grep '^VIOLATION' | grep -vc 'no-failing-input-found')
  sum=$(echo "$log" | tail -1 | sed 's/ wall=.*//')
  echo "| $id | $prop | $rc | $nv | $nf | $sum |" >> $out
  git -C /repo checkout -- .
  python3 - "$d" "$rc" "$nf" "$sum" <<'PY'
import json, sys
d, rc, nf, summ = sys.argv[1:5]
p = d + "/meta.json"
m = json.load(open(p))
m["detected_by"] = ("check of its property exits 1; " + ("a failing input is reported (oracle on the implementation's output)" if int(nf) > 0
                    else "reported through the broken model/implementation correspondence (no-failing-input-found)") if rc == "1"
                    else "NOT detected by the quick check") + " :: " + summ
json.dump(m, open(p, "w"), indent=1)
PY
done
cat $out
