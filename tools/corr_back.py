"""Correspondence of the back-end model with the real generator on API objects produced by the real analyzer."""
from __future__ import annotations

import difflib

import apienc
import vlib


def back_case(api, nc: bool, fs0=None) -> str:
    return vlib.sx(["back", nc, apienc.api_sx(api), [[p, c] for p, c in (fs0 or {}).items()]])


def compare_back(model_answer, impl: dict) -> list[str]:
    """impl: {'exc':..., 'stub_data': [[dir,name,text,pkg]], 'outside': [...], 'stubs': {path: text}}; returns differences"""
    diffs = []
    if model_answer[0] == "err":
        if not impl.get("exc"):
            diffs.append(f"model raises {model_answer[1]}, implementation completes")
        elif impl["exc"]["type"] != model_answer[1]:
            diffs.append(f"model raises {model_answer[1]}, implementation raises {impl['exc']['type']}")
        return diffs
    if model_answer[0] != "ok":
        return [f"model: {model_answer}"]
    if impl.get("exc"):
        return [f"implementation raises {impl['exc']}, model completes"]
    mdata = [[d, n, t, p == "1"] for d, n, t, p in model_answer[1]]
    if model_answer[4] == "1":
        return []  # tie: inside the recorded finding region, compared elsewhere
    idata = impl["stub_data"]
    if [x[:2] + x[3:] for x in mdata] != [x[:2] + x[3:] for x in idata]:
        diffs.append(f"stub data entries differ: model {[x[:2] for x in mdata]} impl {[x[:2] for x in idata]}")
    else:
        for a, b in zip(idata, mdata, strict=True):
            if a[2] != b[2]:
                d = list(difflib.unified_diff(a[2].split("\n"), b[2].split("\n"), "impl", "model", lineterm="", n=1))[:14]
                diffs.append(f"text of {a[0]}/{a[1]} differs: " + " | ".join(d))
                break
    if sorted(model_answer[2]) != sorted(impl.get("outside", [])):
        diffs.append(f"foreign classes differ: model {sorted(model_answer[2])} impl {sorted(impl.get('outside', []))}")
    mfiles = {p: c for p, c in model_answer[5]}
    ifiles = {p: c for p, c in impl["stubs"].items() if p.endswith(".sdsstub")}
    if mfiles != ifiles:
        diffs.append(f"files differ: {sorted(set(mfiles) ^ set(ifiles))[:6]}")
    return diffs
