#!/usr/bin/env python3
"""Entry point: check <Cnn> [--tier quick|thorough] [--replay <path>]"""
from __future__ import annotations

import argparse
import hashlib
import importlib
import json
import os
import shutil
import sys
import time
import traceback
from pathlib import Path

HERE = Path(__file__).resolve().parent
sys.path.insert(0, str(HERE))

import build as B  # noqa: E402
import vlib  # noqa: E402

VERIF = HERE.parent

TRUSTED_BASE = [
    "Coq 8.16.1 kernel (coqc), including vm_compute for the finite-table theorems; native_compute is not used",
    "axioms: none declared; Print Assumptions output per theorem is in coverage.assumptions_per_theorem",
    "tools/extract_tables.py (tie A: tables regenerated from /repo/src with Python's ast module)",
    "extraction: ExtrOcamlBasic + ExtrOcamlString (bool/option/unit/list/prod/sumbool/sumor to OCaml natives, andb/orb inlined, "
    "ascii -> char, string -> char list; nat/Z/positive stay extracted datatypes); OCaml 4.13.1",
    "correspondence harness (tools/vlib.py, tools/props/*.py, tools/frontcmp.py, tools/doctypes.py): generators, S-expression codec, comparers",
    "tools/viewdump.py: which attribute of which mypy object lands in which field of the view (dumped inside the mypy.build.build wrapper, "
    "before the analyzer runs); it precomputes 'this base class derives from Exception' and the type_of_any name, drops repeated entries of "
    "build_result.types (justified by the theorem alias_later_duplicate_irrelevant) and replicates _get_nearest_init_dirs to build a second "
    "docstring parser whose answers are the oracle table of the view",
    "modelled, not verified: mypy, griffe (parsers, parse_annotation, expression trees), pathlib, json, logging, CPython str/dict/set/sorted/"
    "Counter, float repr; Python sets are lists in the model (use sites are order-insensitive or flagged: o_amb, g_tie)",
    "hand-written specifications in coq/Spec (keywords, Safe-DS scanner, reference readings of the property text)",
]


def load_known() -> list[dict]:
    p = VERIF / "known_findings.json"
    if not p.exists():
        return []
    return json.loads(p.read_text()).get("findings", [])


def main() -> int:
    ap = argparse.ArgumentParser()
    ap.add_argument("prop")
    ap.add_argument("--tier", default=None)
    ap.add_argument("--replay", default=None)
    args = ap.parse_args()
    prop = args.prop.upper()
    tier = vlib.tier_from_env(args.tier)
    seed = vlib.seed_from_env()
    timer = vlib.Timer()

    ev_path = VERIF / "evidence" / f"{prop}.json"

    # watchdog: a check that does not come to an end reports that instead of hanging (the implementation may loop)
    import threading
    limit = int(os.environ.get("VERIF_WATCHDOG_S", 1800 if tier == "quick" else 3 * 3600))

    def _expired():
        rp = VERIF / "replays" / prop / "unfinished.json"
        try:
            vlib.write_json(rp, {"property": prop, "seed": seed, "tier": tier,
                                 "note": f"the check did not finish within {limit} s: some run of the implementation or of the model does not "
                                         "terminate within the harness limits; the property is not shown to hold"})
            vlib.write_json(ev_path, {"property_id": prop, "tier": tier, "seed": seed, "level": "proof",
                                      "coverage": {"discharged": 0, "obligations_unchecked": 0, "checker_cmd": "watchdog",
                                                   "trusted_base": TRUSTED_BASE, "notes": ["the check was stopped by its watchdog"]},
                                      "assumptions": [], "wall_s": timer.s(), "violations": 1})
        finally:
            print(f"VIOLATION property={prop} replay={rp} no-failing-input-found", flush=True)
            os._exit(1)

    wd = threading.Timer(limit, _expired)
    wd.daemon = True
    wd.start()
    status = B.build()
    thm = B.property_theorems(prop)

    mod = importlib.import_module(f"props.{prop.lower()}")
    ctx = {"tier": tier, "seed": seed, "status": status, "theorems": thm, "replay": args.replay, "verif": VERIF}
    broken: list[str] = []
    if status["translator"]:
        broken.append(f"translator: {status['translator']}")
    if status["forbidden"]:
        broken.append("forbidden constructs in the development: " + "; ".join(status["forbidden"]))
    if not thm["ok"]:
        failing = [f for f in status["failed_files"]]
        broken.append(f"theorems of Properties/{prop}.v do not check (failing files: {failing or [thm['file']]})")
    if not status["driver_ok"]:
        broken.append("the extracted model does not build")

    result = {"evaluations": 0, "distinct_nontrivial": 0, "rule": "", "samples": [], "disagreements": [],
              "violations": [], "stats": {}, "notes": []}
    try:
        if status["driver_ok"]:
            r = mod.run(ctx)
            result.update(r)
    except Exception:  # noqa: BLE001
        broken.append("harness error: " + traceback.format_exc()[-1500:])

    # cross-check of the extraction: a sample of the cases of this run is evaluated again inside Coq (vm_compute)
    xcheck = {"cases": 0, "agree": 0}
    if status["driver_ok"] and vlib.SAMPLE:
        try:
            got = vlib.coq_eval([c for c, _ in vlib.SAMPLE], prop)
            if got is None or len(got) != len(vlib.SAMPLE):
                broken.append("in-Coq evaluation of the sampled cases failed (coqc error or unreadable output)")
            else:
                xcheck["cases"] = len(got)
                xcheck["agree"] = sum(1 for (c, o), g in zip(vlib.SAMPLE, got) if o == g)
                if xcheck["agree"] != xcheck["cases"]:
                    k = next(i for i, ((c, o), g) in enumerate(zip(vlib.SAMPLE, got)) if o != g)
                    broken.append(f"the extracted program and vm_compute disagree on a sampled case: {vlib.SAMPLE[k][0][:200]}")
        except Exception:  # noqa: BLE001
            broken.append("harness error in the extraction cross-check: " + traceback.format_exc()[-600:])

    chk = None
    if tier == "thorough" and thm["ok"]:
        chk = B.coqchk(prop)
        if not chk["ok"]:
            broken.append(f"coqchk does not accept Properties/{prop}.vo without axioms or unchecked definitions: {chk}")

    known = [k for k in load_known() if k.get("property") == prop and k.get("status", "known") == "known"]
    known_by_id = {k["id"]: k for k in known}

    new_violations = []
    known_hits: dict[str, int] = {}
    for v in result["violations"]:
        fid = v.get("finding")
        if fid and fid in known_by_id:
            known_hits[fid] = known_hits.get(fid, 0) + 1
        else:
            new_violations.append(v)

    exit_code = 0
    replay_root = VERIF / "replays" / prop
    if replay_root.exists():
        shutil.rmtree(replay_root, ignore_errors=True)   # replays of earlier runs do not belong to this one
    lines = []
    for fid, n in sorted(known_hits.items()):
        lines.append(f"KNOWN-FINDING: property={prop} {fid}: {known_by_id[fid]['what']} ({n} inputs)")
    if new_violations:
        exit_code = 1
        replay_root.mkdir(parents=True, exist_ok=True)
        for i, v in enumerate(new_violations[:5]):
            h = hashlib.sha256(json.dumps(v, sort_keys=True, default=str).encode()).hexdigest()[:12]
            rp = replay_root / f"violation_{h}.json"
            vlib.write_json(rp, {"property": prop, "seed": seed, "tier": tier, **v,
                                 "how_to_replay": f"./check {prop} --replay {rp}"})
            lines.append(f"VIOLATION property={prop} replay={rp}")
    elif broken or result["disagreements"]:
        exit_code = 1
        replay_root.mkdir(parents=True, exist_ok=True)
        rp = replay_root / "unproved.json"
        vlib.write_json(rp, {"property": prop, "seed": seed, "tier": tier, "broken": broken,
                             "theorem_log": thm["log"][-2000:], "make_errors": status["errors"][-3000:],
                             "disagreements": result["disagreements"][:20],
                             "note": "the property is no longer shown to hold: a theorem, the table translator or the "
                                     "model/implementation correspondence named here does not check; the search found no "
                                     "input on which the implementation violates the property"})
        lines.append(f"VIOLATION property={prop} replay={rp} no-failing-input-found")

    obligations = len(thm["theorems"])
    discharged = obligations if thm["ok"] else 0
    evidence = {
        "property_id": prop,
        "tier": tier,
        "seed": seed,
        "level": "proof",
        "coverage": {
            "obligations": max(obligations, 1) if obligations else 1,
            "discharged": discharged if discharged else (0 if obligations else 0),
            "checker_cmd": "make -k -j16 (coq_makefile from coq/_CoqProject, full .vo) ; coqc -R . SV Properties/%s.v" % prop,
            "trusted_base": TRUSTED_BASE,
            "theorems": thm["theorems"],
            "assumptions_per_theorem": thm["assumptions"],
            "evaluations": result["evaluations"],
            "distinct_nontrivial": result["distinct_nontrivial"],
            "rule": result["rule"],
            "samples": result["samples"][:8] or ["<none>"],
            "disagreements": len(result["disagreements"]),
            "known_findings_hit": known_hits,
            "extraction_cross_check_in_coq": xcheck,
            "coqchk_context_summary": (chk or {}).get("summary", "run in the thorough tier only"),
            "stats": result["stats"],
            "notes": result["notes"],
            "broken": broken,
        },
        "assumptions": result.get("assumptions", []),
        "wall_s": timer.s(),
        "violations": len(new_violations) + (1 if (exit_code == 1 and not new_violations) else 0),
    }
    if discharged == 0:
        # schema wants >= 1 for a proof claim; an unproved run is reported as such
        evidence["coverage"]["discharged"] = 0
        evidence["coverage"].pop("obligations")
        evidence["coverage"]["obligations_unchecked"] = obligations
    vlib.write_json(ev_path, evidence)
    for ln in lines:
        print(ln)
    print(f"{prop} tier={tier} seed={seed} theorems={discharged}/{obligations} evaluations={result['evaluations']} "
          f"disagreements={len(result['disagreements'])} violations={len(new_violations)} known={sum(known_hits.values())} "
          f"wall={timer.s()}s exit={exit_code}")
    return exit_code


if __name__ == "__main__":
    sys.exit(main())
