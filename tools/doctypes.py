"""L0 correspondence of Model/DocTypes.v with DocstringParser._griffe_annotation_to_api_type.

Every annotation found in the parsed docstrings of generated packages (parameters, attributes, returns; the three structured
styles), plus annotation strings parsed on purpose, is dumped as a `gexpr` (with what griffe's parse_annotation makes of every
string in it), translated by the model and by the implementation, and compared.  The implementation runs under a time limit:
a translation that does not return is a C01 violation (non-termination)."""
from __future__ import annotations

import random
import signal

import gen_pkg
import implrun
import vlib

EXTRA_TYPES = ["int | 0 | None", "int | str | None", "int | ... | str", "str | bool | int | None", "list[int] | None", "1 | int | 2 | None",
               "int or str or None", "list[int]", "dict[str, int]", "tuple[int, str]", "Optional[int]", "int, optional",
               "list of int", "Callable[[int, str], bool]", "Callable", "dict", "Mapping[str, list[int]]", "set[str]",
               "Sequence[float]", "Iterator[int]", "typing.Any", "None", "int, default 3", "str, default 'a'", "SomeClass",
               "pkg.mod.SomeClass", "list[SomeClass | None]", "tuple", "list", "set", "float | None", "(int, str)", "[int, str]",
               "Optional[list[int]]", "int | (str | float)", "a | b | c | d | e"]


class _Timeout(BaseException):
    """not an Exception: griffe's parse_annotation swallows Exceptions raised while it runs"""


def _alarm(*_):
    raise _Timeout()


def dump(a, docstring, numpy: bool, depth: int = 0):
    from griffe import (ExprAttribute, ExprBinOp, ExprBoolOp, ExprList, ExprName, ExprSubscript, ExprTuple)
    from griffe.docstrings.utils import parse_annotation
    if depth > 12:
        return ["other"]
    d = depth + 1
    if isinstance(a, str):
        new = a.split(", default")[0] if numpy else a
        r = parse_annotation(new, docstring)
        if isinstance(r, str):
            if r in (new, a):
                return ["str", a, ["str", r, ["other"]]]
            return ["str", a, dump(r, docstring, numpy, d)]
        return ["str", a, dump(r, docstring, numpy, d)]
    if isinstance(a, ExprName | ExprAttribute):
        return ["name", a.canonical_name, a.canonical_path]
    if isinstance(a, ExprSubscript):
        return ["sub", a.canonical_name, a.canonical_path, dump(a.slice, docstring, numpy, d)]
    if isinstance(a, ExprList):
        return ["list", [dump(x, docstring, numpy, d) for x in a.elements]]
    if isinstance(a, ExprBoolOp):
        return ["boolop", [dump(x, docstring, numpy, d) for x in a.values]]
    if isinstance(a, ExprTuple):
        return ["tuple", [[vlib.opt(None if isinstance(x, str) else x.canonical_path), dump(x, docstring, numpy, d)] for x in a.elements]]
    if isinstance(a, ExprBinOp):
        return ["binop", dump(a.left, docstring, numpy, d), dump(a.right, docstring, numpy, d)]
    return ["other"]


def annotations_of(obj, seen=None):
    """(docstring, annotation) pairs of every parsed docstring below a griffe object"""
    from griffe.enumerations import DocstringSectionKind as K
    seen = seen if seen is not None else set()
    if id(obj) in seen:
        return
    seen.add(id(obj))
    ds = getattr(obj, "docstring", None)
    if ds is not None:
        try:
            sections = ds.parsed
        except Exception:  # noqa: BLE001
            sections = []
        for sec in sections:
            if sec.kind in (K.parameters, K.attributes, K.returns):
                for item in sec.value:
                    ann = getattr(item, "annotation", None)
                    if ann is not None:
                        yield ds, ann
                    if sec.kind == K.returns and getattr(item, "name", None):
                        yield ds, item.name        # the google style hands a type over as the name
    for m in getattr(obj, "members", {}).values():
        if getattr(m, "is_alias", False):
            continue
        yield from annotations_of(m, seen)


def run_l0(seed: int, tier: str):
    """returns (disagreements, violations, number of cases, stats)"""
    from griffe.dataclasses import Docstring
    from griffe.enumerations import Parser
    import safeds_stubgen.api_analyzer  # noqa: F401  (import order: the package resolves its circular import this way round)
    from safeds_stubgen.docstring_parsing._docstring_parser import DocstringParser
    import logging
    logging.getLogger("griffe").setLevel(logging.CRITICAL)
    rng = random.Random(seed + 1414)
    npk = 3 if tier == "quick" else 12
    base = implrun.scratch_dir("doctypes")
    cases, meta = [], []
    kinds: dict[str, int] = {}
    for i in range(npk):
        style = ["numpydoc", "google", "rest"][i % 3]
        numpy = style == "numpydoc"
        p = gen_pkg.gen_package(rng, i, style=style, nmods=2, doc_types="rich", reexports=False)
        root = base / f"t{i}"
        implrun.write_tree(root, gen_pkg.package_files(p))
        parser = DocstringParser({"numpydoc": Parser.numpy, "google": Parser.google, "rest": Parser.sphinx}[style], root / p.name)
        pairs = list(annotations_of(parser.griffe_build))
        extra_doc = Docstring("x", parent=parser.griffe_build)
        pairs += [(extra_doc, t) for t in EXTRA_TYPES]
        for ds, ann in pairs:
            try:
                g = dump(ann, ds, numpy)
            except Exception as e:  # noqa: BLE001
                meta.append((style, repr(ann)[:120], None, f"dump failed: {type(e).__name__}"))
                cases.append(None)
                continue
            signal.signal(signal.SIGALRM, _alarm)
            signal.setitimer(signal.ITIMER_REAL, 10, 0.5)      # repeated: a swallowed interruption is raised again
            try:
                t = parser._griffe_annotation_to_api_type(ann, ds)
                got = ["ok", vlib.parse_sx(vlib.sx(vlib.opt(None if t is None else vlib.ty_sx(t))))]
            except _Timeout:
                got = ["timeout"]
            except Exception as e:  # noqa: BLE001
                got = ["exc", type(e).__name__]
            finally:
                signal.setitimer(signal.ITIMER_REAL, 0)
            kinds[g[0]] = kinds.get(g[0], 0) + 1
            cases.append(vlib.sx(["doc_type", numpy, g]))
            meta.append((style, repr(ann)[:120], got, None))
    implrun.cleanup()
    idx = [k for k, c in enumerate(cases) if c is not None]
    answers = vlib.run_model([cases[k] for k in idx])
    by = dict(zip(idx, answers, strict=True))
    dis, vio = [], []
    for k, (style, text, got, err) in enumerate(meta):
        if err:
            dis.append({"case": [style, text], "what": err})
            continue
        m = by[k]
        if got[0] == "timeout":
            vio.append({"what": f"the translation of the docstring type {text} ({style}) does not return within 10 s", "finding": None,
                        "annotation": text, "style": style})
            continue
        if got[0] == "exc":
            dis.append({"case": [style, text], "impl": got, "model": m})
            continue
        if got[1] != m:
            dis.append({"case": [style, text], "impl": got[1], "model": m})
    return dis, vio, len(idx), {"docstring_type_expressions_by_kind": kinds}


# ---------------------------------------------------------------------------------------------------------
# section extraction: Model/DocSections.v against DocstringParser.get_*_documentation
def dump_gdoc(ds, numpy: bool):
    """griffe Docstring -> [value, [section...]] ; None -> ()"""
    from griffe.enumerations import DocstringSectionKind as K
    if ds is None:
        return []
    secs = []
    for sec in ds.parsed:
        if sec.kind == K.text:
            secs.append(["text", sec.value])
        elif sec.kind == K.examples:
            secs.append(["examples", [ex[1] for ex in sec.value]])
        elif sec.kind in (K.parameters, K.attributes, K.returns):
            tag = {K.parameters: "params", K.attributes: "attrs", K.returns: "returns"}[sec.kind]
            items = []
            for it in sec.value:
                ann = getattr(it, "annotation", None)
                name = getattr(it, "name", None) or ""
                default = getattr(it, "default", None)
                items.append([name, vlib.opt(None if ann is None else dump(ann, ds, numpy)), it.description,
                              vlib.opt(str(default) if default else None),
                              vlib.opt(dump(name, ds, numpy) if (tag == "returns" and name) else None)])
            secs.append([tag, items])
        else:
            secs.append(["other"])
    return [[ds.value, secs]]


def _walk(obj, seen):
    if id(obj) in seen:
        return
    seen.add(id(obj))
    yield obj
    for m in getattr(obj, "members", {}).values():
        if getattr(m, "is_alias", False):
            continue
        yield from _walk(m, seen)


def run_sections_l0(seed: int, tier: str):
    from types import SimpleNamespace
    from griffe.enumerations import Parser
    import logging
    import safeds_stubgen.api_analyzer  # noqa: F401
    from safeds_stubgen.docstring_parsing._docstring_parser import DocstringParser
    logging.getLogger("griffe").setLevel(logging.CRITICAL)
    rng = random.Random(seed + 1313)
    npk = 3 if tier == "quick" else 12
    base = implrun.scratch_dir("docsections")
    cases, expect, tags = [], [], []

    def tsx(t):
        return vlib.opt(None if t is None else vlib.ty_sx(t))

    for i in range(npk):
        style = ["numpydoc", "google", "rest"][i % 3]
        numpy = style == "numpydoc"
        p = gen_pkg.gen_package(rng, i, style=style, nmods=2, doc_types="rich" if i % 2 else True, reexports=False,
                                result_name_grid=(i % 3 == 0))
        root = base / f"t{i}"
        implrun.write_tree(root, gen_pkg.package_files(p))
        parser = DocstringParser({"numpydoc": Parser.numpy, "google": Parser.google, "rest": Parser.sphinx}[style], root / p.name)
        for obj in _walk(parser.griffe_build, set()):
            q = obj.path
            try:
                if obj.is_class:
                    gd = dump_gdoc(obj.docstring, numpy)
                    d = parser.get_class_documentation(SimpleNamespace(fullname=q))
                    cases.append(vlib.sx(["doc_sections", style, "general", [], gd, "", False, False]))
                    expect.append([d.description, d.full_docstring, list(d.examples)])
                    tags.append((style, "class", q))
                    ctor = obj.members.get("__init__")
                    cgd = dump_gdoc(getattr(ctor, "docstring", None) if ctor is not None and not getattr(ctor, "is_alias", False) else None, numpy)
                    names = {m.name for m in obj.members.values() if getattr(m, "is_attribute", False)} | {"missing_attr", "*starred"}
                    for sec in (obj.docstring.parsed if obj.docstring else []):
                        if getattr(sec.kind, "name", "") == "attributes":
                            names |= {it.name for it in sec.value}
                    for an in sorted(names):
                        a = parser.get_attribute_documentation(q.replace(".", "/"), an)
                        cases.append(vlib.sx(["doc_sections", style, "attr", gd, cgd, an, False, False]))
                        expect.append([tsx(a.type), a.description])
                        tags.append((style, "attr", f"{q}.{an}"))
                elif obj.is_function:
                    gd = dump_gdoc(obj.docstring, numpy)
                    d = parser.get_function_documentation(SimpleNamespace(fullname=q))
                    cases.append(vlib.sx(["doc_sections", style, "general", [], gd, "", False, False]))
                    expect.append([d.description, d.full_docstring, list(d.examples)])
                    tags.append((style, "function", q))
                    rs = parser.get_result_documentation(q)
                    cases.append(vlib.sx(["doc_sections", style, "results", [], gd, "", False, False]))
                    expect.append([[tsx(r.type), r.description, r.name] for r in rs])
                    tags.append((style, "results", q))
                    parent = obj.parent
                    is_init = obj.name == "__init__"
                    on_class = bool(is_init and parent is not None and parent.is_class)
                    pgd = dump_gdoc(parent.docstring if on_class else None, numpy)
                    pnames = {prm.name for prm in obj.parameters} | {"missing_param", "*args", "**kwargs"}
                    for pn in sorted(pnames):
                        pr = parser.get_parameter_documentation(function_qname=q, parameter_name=pn,
                                                                parent_class_qname=parent.path.replace(".", "/") if on_class else "")
                        cases.append(vlib.sx(["doc_sections", style, "param", pgd, gd, pn, on_class, is_init]))
                        expect.append([tsx(pr.type), pr.default_value, pr.description])
                        tags.append((style, "param", f"{q}({pn})"))
            except Exception as e:  # noqa: BLE001
                tags.append((style, "harness", f"{q}: {type(e).__name__}: {e}"))
                cases.append(None)
                expect.append(None)
    implrun.cleanup()
    idx = [k for k, c in enumerate(cases) if c is not None]
    answers = vlib.run_model([cases[k] for k in idx])
    by = dict(zip(idx, answers, strict=True))
    dis = []
    kinds: dict[str, int] = {}
    for k, (tg, ex) in enumerate(zip(tags, expect, strict=True)):
        if cases[k] is None:
            dis.append({"case": list(tg), "what": "the harness could not query the implementation"})
            continue
        kinds[tg[1]] = kinds.get(tg[1], 0) + 1
        want = vlib.parse_sx(vlib.sx(ex))
        if by[k] != want:
            dis.append({"case": list(tg), "impl": want, "model": by[k]})
    return dis, len(idx), {"docstring_section_queries_by_kind": kinds}
