"""L0 correspondence of Model/DocTypes.v with DocstringParser._griffe_annotation_to_api_type.

Every annotation found in the parsed docstrings of generated packages (parameters, attributes, returns; the three structured
styles), plus annotation strings parsed on purpose, is dumped as a `gexpr` (with what griffe's parse_annotation makes of every
string in it), translated by the model and by the implementation, and compared.  The implementation runs under a time limit:
a translation that does not return is a C01 violation (non-termination)."""
from __future__ import annotations

import random
import signal

import gen_pkg
import implrun
import vlib

EXTRA_TYPES = ["int | 0 | None", "int | str | None", "int | ... | str", "str | bool | int | None", "list[int] | None", "1 | int | 2 | None",
               "int or str or None", "list[int]", "dict[str, int]", "tuple[int, str]", "Optional[int]", "int, optional",
               "list of int", "Callable[[int, str], bool]", "Callable", "dict", "Mapping[str, list[int]]", "set[str]",
               "Sequence[float]", "Iterator[int]", "typing.Any", "None", "int, default 3", "str, default 'a'", "SomeClass",
               "pkg.mod.SomeClass", "list[SomeClass | None]", "tuple", "list", "set", "float | None", "(int, str)", "[int, str]",
               "Optional[list[int]]", "int | (str | float)", "a | b | c | d | e"]


class _Timeout(BaseException):
    """not an Exception: griffe's parse_annotation swallows Exceptions raised while it runs"""


def _alarm(*_):
    raise _Timeout()


def dump(a, docstring, numpy: bool, depth: int = 0):
    from griffe import (ExprAttribute, ExprBinOp, ExprBoolOp, ExprList, ExprName, ExprSubscript, ExprTuple)
    from griffe.docstrings.utils import parse_annotation
    if depth > 12:
        return ["other"]
    d = depth + 1
    if isinstance(a, str):
        new = a.split(", default")[0] if numpy else a
        r = parse_annotation(new, docstring)
        if isinstance(r, str):
            if r in (new, a):
                return ["str", a, ["str", r, ["other"]]]
            return ["str", a, dump(r, docstring, numpy, d)]
        return ["str", a, dump(r, docstring, numpy, d)]
    if isinstance(a, ExprName | ExprAttribute):
        return ["name", a.canonical_name, a.canonical_path]
    if isinstance(a, ExprSubscript):
        return ["sub", a.canonical_name, a.canonical_path, dump(a.slice, docstring, numpy, d)]
    if isinstance(a, ExprList):
        return ["list", [dump(x, docstring, numpy, d) for x in a.elements]]
    if isinstance(a, ExprBoolOp):
        return ["boolop", [dump(x, docstring, numpy, d) for x in a.values]]
    if isinstance(a, ExprTuple):
        return ["tuple", [[vlib.opt(None if isinstance(x, str) else x.canonical_path), dump(x, docstring, numpy, d)] for x in a.elements]]
    if isinstance(a, ExprBinOp):
        return ["binop", dump(a.left, docstring, numpy, d), dump(a.right, docstring, numpy, d)]
    return ["other"]


def annotations_of(obj, seen=None):
    """(docstring, annotation) pairs of every parsed docstring below a griffe object"""
    from griffe.enumerations import DocstringSectionKind as K
    seen = seen if seen is not None else set()
    if id(obj) in seen:
        return
    seen.add(id(obj))
    ds = getattr(obj, "docstring", None)
    if ds is not None:
        try:
            sections = ds.parsed
        except Exception:  # noqa: BLE001
            sections = []
        for sec in sections:
            if sec.kind in (K.parameters, K.attributes, K.returns):
                for item in sec.value:
                    ann = getattr(item, "annotation", None)
                    if ann is not None:
                        yield ds, ann
                    if sec.kind == K.returns and getattr(item, "name", None):
                        yield ds, item.name        # the google style hands a type over as the name
    for m in getattr(obj, "members", {}).values():
        if getattr(m, "is_alias", False):
            continue
        yield from annotations_of(m, seen)


def run_l0(seed: int, tier: str):
    """returns (disagreements, violations, number of cases, stats)"""
    from griffe.dataclasses import Docstring
    from griffe.enumerations import Parser
    import safeds_stubgen.api_analyzer  # noqa: F401  (import order: the package resolves its circular import this way round)
    from safeds_stubgen.docstring_parsing._docstring_parser import DocstringParser
    import logging
    logging.getLogger("griffe").setLevel(logging.CRITICAL)
    rng = random.Random(seed + 1414)
    npk = 3 if tier == "quick" else 12
    base = implrun.scratch_dir("doctypes")
    cases, meta = [], []
    kinds: dict[str, int] = {}
    for i in range(npk):
        style = ["numpydoc", "google", "rest"][i % 3]
        numpy = style == "numpydoc"
        p = gen_pkg.gen_package(rng, i, style=style, nmods=2, doc_types="rich", reexports=False)
        root = base / f"t{i}"
        implrun.write_tree(root, gen_pkg.package_files(p))
        parser = DocstringParser({"numpydoc": Parser.numpy, "google": Parser.google, "rest": Parser.sphinx}[style], root / p.name)
        pairs = list(annotations_of(parser.griffe_build))
        extra_doc = Docstring("x", parent=parser.griffe_build)
        pairs += [(extra_doc, t) for t in EXTRA_TYPES]
        for ds, ann in pairs:
            try:
                g = dump(ann, ds, numpy)
            except Exception as e:  # noqa: BLE001
                meta.append((style, repr(ann)[:120], None, f"dump failed: {type(e).__name__}"))
                cases.append(None)
                continue
            signal.signal(signal.SIGALRM, _alarm)
            signal.setitimer(signal.ITIMER_REAL, 10, 0.5)      # repeated: a swallowed interruption is raised again
            try:
                t = parser._griffe_annotation_to_api_type(ann, ds)
                got = ["ok", vlib.parse_sx(vlib.sx(vlib.opt(None if t is None else vlib.ty_sx(t))))]
            except _Timeout:
                got = ["timeout"]
            except Exception as e:  # noqa: BLE001
                got = ["exc", type(e).__name__]
            finally:
                signal.setitimer(signal.ITIMER_REAL, 0)
            kinds[g[0]] = kinds.get(g[0], 0) + 1
            cases.append(vlib.sx(["doc_type", numpy, g]))
            meta.append((style, repr(ann)[:120], got, None))
    implrun.cleanup()
    idx = [k for k, c in enumerate(cases) if c is not None]
    answers = vlib.run_model([cases[k] for k in idx])
    by = dict(zip(idx, answers, strict=True))
    dis, vio = [], []
    for k, (style, text, got, err) in enumerate(meta):
        if err:
            dis.append({"case": [style, text], "what": err})
            continue
        m = by[k]
        if got[0] == "timeout":
            vio.append({"what": f"the translation of the docstring type {text} ({style}) does not return within 10 s", "finding": None,
                        "annotation": text, "style": style})
            continue
        if got[0] == "exc":
            dis.append({"case": [style, text], "impl": got, "model": m})
            continue
        if got[1] != m:
            dis.append({"case": [style, text], "impl": got[1], "model": m})
    return dis, vio, len(idx), {"docstring_type_expressions_by_kind": kinds}
