"""L1: the back-end model against the real generator on API objects built directly (gen_api)."""
from __future__ import annotations

import random
import shutil
from pathlib import Path

import apienc
import gen_api
import implrun
import vlib
from safeds_stubgen.stubs_generator import StubsStringGenerator, create_stub_files, generate_stub_data


def traced_create(gen, data, out: Path) -> list:
    """create_stub_files with every Path.open recorded: [out-relative path, mode, text written]"""
    writes = []
    orig_open = Path.open

    class _Rec:
        def __init__(self, f, rec):
            self._f, self._rec = f, rec
        def write(self, t):
            self._rec[2] += t
            return self._f.write(t)
        def __enter__(self):
            self._f.__enter__()
            return self
        def __exit__(self, *a):
            return self._f.__exit__(*a)
        def __getattr__(self, n):
            return getattr(self._f, n)

    def open_wrapper(self, mode="r", *a, **k):
        f = orig_open(self, mode, *a, **k)
        if any(c in mode for c in "wa") and str(self).endswith(".sdsstub"):
            import os
            rel = os.path.relpath(os.path.normpath(str(self)).replace("//", "/"), str(out))
            rec = [rel, mode, ""]
            writes.append(rec)
            return _Rec(f, rec)
        return f

    Path.open = open_wrapper  # type: ignore[method-assign]
    try:
        create_stub_files(stubs_generator=gen, stubs_data=data, out_path=out)
    finally:
        Path.open = orig_open  # type: ignore[method-assign]
    return writes


def impl_generate(api, nc: bool, out: Path, gens: int = 1) -> dict:
    res: dict = {"exc": None, "stub_data": [], "outside": [], "stubs": {}, "gens": []}
    try:
        before = api.to_dict()
        for _ in range(gens):
            gen = StubsStringGenerator(api=api, convert_identifiers=nc)
            data = generate_stub_data(stubs_generator=gen, out_path=out)
            res["gens"].append([[str(Path(d).relative_to(out)), n, t, bool(p)] for d, n, t, p in data])
        res["stub_data"] = res["gens"][-1]
        res["outside"] = sorted(gen.classes_outside_package)
        res["writes"] = traced_create(gen, data, out)
        after = api.to_dict()
        if after != before:
            changed = []
            for key in before:
                if before[key] != after[key] and isinstance(before[key], list):
                    for x, y in zip(before[key], after[key]):
                        if x != y:
                            changed.append({"list": key, "id": x.get("id"), "fields": sorted(k for k in x if x.get(k) != y.get(k))})
            res["api_changed"] = changed[:5]
        for p in sorted(out.rglob("*")):
            if p.is_file():
                res["stubs"][str(p.relative_to(out))] = p.read_text(encoding="utf-8")
    except Exception as e:  # noqa: BLE001
        import traceback
        res["exc"] = {"type": type(e).__name__, "msg": str(e)[:200], "frame": implrun._innermost_own_frame(e.__traceback__)}
    return res


def run_l1(n: int, seed: int) -> list[dict]:
    import logging
    if not logging.getLogger().handlers:
        logging.getLogger().addHandler(logging.NullHandler())   # keeps logging.info() from installing a stderr handler
    base = implrun.scratch_dir("l1")
    items = []
    lines = []
    n_shapes = 2 * len(gen_api.SHAPES)
    for i in range(n + n_shapes):
        nc = bool(i % 2)
        if i < n_shapes:
            api = gen_api.SHAPES[i // 2]()
            api_seed = "shape:" + gen_api.SHAPES[i // 2].__name__
            api_idx = -1
        else:
            api_seed = seed * 100003 + (i - n_shapes) // 2
            api_idx = (i - n_shapes) // 2
            api = gen_api.gen_api(random.Random(api_seed), api_idx)
        enc = apienc.api_sx(api)
        module_names = [m.name for m in api.modules.values()] + [q.alias for m in api.modules.values() for q in m.qualified_imports if q.alias]
        line = vlib.sx(["back", nc, enc, []])
        out = base / f"o{i}"
        out.mkdir(parents=True)
        impl = impl_generate(api, nc, out)
        shutil.rmtree(out, ignore_errors=True)
        items.append({"idx": i, "nc": nc, "api_seed": api_seed, "api_idx": api_idx, "impl": impl, "module_names": module_names})
        lines.append(line)
    models = vlib.run_model(lines)
    for it, m in zip(items, models, strict=True):
        it["model"] = m
    implrun.cleanup()
    return items
