"""Correspondence of the analyzer model (coq/Model/Front.v) with the real analyzer: same view in, API object out.

compare(answer, model) -> {"status": "agree"|"differ"|"ambiguous"|"noview", "diff": ..., "impl": tree, "model": tree}
projection(prop, api_tree, extra) -> the part of the API object the property speaks about
"""
from __future__ import annotations

import re

import vlib

LOG_PATTERNS = [
    ("result", re.compile(r"^Different type hint and docstring types for the result of '(.*)'\.$")),
    ("param", re.compile(r"^Different type hint and docstring types for '(.*)'\.$")),
    ("call", re.compile(r"^Could not parse parameter type for function (.*): Safe-DS does not support call expressions as types\.$")),
    ("unary", re.compile(r"^Received the parameter .* with an unexpected operator .* for function (.*)\. This parameter could not be parsed\.$", re.S)),
]


def impl_log(records) -> list[list[str]]:
    out = []
    for level, msg in records or []:
        if level != "WARNING":
            continue
        for kind, pat in LOG_PATTERNS:
            m = pat.match(msg)
            if m:
                out.append([kind, *m.groups()])
                break
    return out


def first_diff(a, b, path=""):
    if isinstance(a, list) and isinstance(b, list):
        if len(a) != len(b):
            return f"{path}: {len(a)} items vs {len(b)}: impl {str(a)[:240]} || model {str(b)[:240]}"
        for i, (x, y) in enumerate(zip(a, b)):
            d = first_diff(x, y, f"{path}/{i}")
            if d:
                return d
        return None
    if a != b:
        return f"{path}: impl {str(a)[:200]!r} model {str(b)[:200]!r}"
    return None


ERR_OF_EXC = {"ValueError:No files found to analyse.": "NoFilesFound"}


def compare(answer: dict, model) -> dict:
    """answer: what implrun.run_job returned (with api_tree, flat_keys, log); model: parsed answer of the front command"""
    if model is None:
        return {"status": "noview", "diff": answer.get("view_err") or "no view was dumped"}
    if model[0] == "agree":      # compared when the corpus was built (corpus.build keeps only the verdict)
        return {"status": "ambiguous" if model[1] == "1" else "agree", "diff": None}
    exc = answer.get("exc")
    if model[0] == "bad-view":
        return {"status": "differ", "diff": "the model cannot read the dumped view"}
    if model[0] == "err":
        if not exc:
            return {"status": "differ", "diff": f"model raises {model[1]}, the analyzer completes"}
        want = ERR_OF_EXC.get(f"{exc['type']}:{exc['msg']}", exc["type"])
        if exc.get("frame", "").startswith("_stub_string_generator") or exc.get("frame", "").startswith("_generate_stubs"):
            return {"status": "differ", "diff": f"model raises {model[1]} in the analyzer, implementation fails later: {exc}"}
        if want != model[1]:
            return {"status": "differ", "diff": f"model raises {model[1]}, implementation {exc}"}
        return {"status": "agree", "error": model[1]}
    if answer.get("api_tree") is None:
        return {"status": "differ", "diff": f"model completes, implementation: {exc}"}
    if model[4] == "1":
        return {"status": "ambiguous", "diff": None}
    d = first_diff(answer["api_tree"], model[1], "api")
    if d is None:
        d = first_diff(answer.get("flat_keys"), model[2], "flat_keys")
    if d is None:
        d = first_diff(impl_log(answer.get("log")), model[3], "log")
    if d is None and len(model) > 5 and answer.get("api") is not None:
        # the JSON value: API.to_dict() of the implementation against Model/Json.v (distribution and version are metadata of the
        # installed package, not of the analysed one)
        impl_json = dict(answer["api"])
        impl_json["distribution"] = ""
        impl_json["version"] = ""
        d = first_diff(vlib.canon_jv_tree(vlib.jv_tree(impl_json)), vlib.canon_jv_tree(model[5]), "json")
    return {"status": "agree" if d is None else "differ", "diff": d}


# ---------------------------------------------------------------------------------------------------------
# projections of an API tree (the format of tools/apienc.py)
def _walk(api):
    """yield (kind, item) for modules, classes (nested too), functions, attributes, enums"""
    def cls(c):
        yield "class", c
        if c[5]:
            yield "function", c[5][0]
        for a in c[9]:
            yield "attribute", a
        for m in c[10]:
            yield "function", m
        for x in c[11]:
            yield from cls(x)
    for m in api[1]:
        yield "module", m
        for c in m[5]:
            yield from cls(c)
        for f in m[6]:
            yield "function", f
        for e in m[7]:
            yield "enum", e


def projection(prop: str, api, flat=None, log=None):
    if api is None:
        return None
    out = []
    for kind, it in _walk(api):
        if prop in ("C03", "C12"):
            if kind == "module":
                out.append((kind, it[0], it[1], tuple(c[0] for c in it[5]), tuple(f[0] for f in it[6]), tuple(e[0] for e in it[7])))
            elif kind == "class":
                out.append((kind, it[0], it[1], tuple(it[2]), bool(it[5]), tuple(a[0] for a in it[9]), tuple(f[0] for f in it[10]),
                            tuple(c[0] for c in it[11])))
            elif kind == "function":
                out.append((kind, it[0], it[1], it[4], it[5], it[6], tuple(p[0] for p in it[11]), tuple(r[0] for r in it[9]),
                            tuple(repr(p[3]) for p in it[11])))
            elif kind == "attribute":
                out.append((kind, it[0], it[1], it[3]))
            elif kind == "enum":
                out.append((kind, it[0], it[1], tuple(tuple(i) for i in it[3])))
        elif prop == "C04":
            if kind == "class":
                out.append((kind, it[0], it[3]))
            elif kind == "function":
                out.append((kind, it[0], it[3]))
            elif kind == "attribute":
                out.append((kind, it[0], it[2]))
        elif prop in ("C05", "C14"):
            if kind == "function":
                out.append((kind, it[0], tuple((p[0], repr(p[8]), repr(p[3]) if prop == "C14" else None, p[2] if prop == "C14" else None) for p in it[11]),
                            tuple((r[0], repr(r[2])) for r in it[9]), repr(it[8]) if prop == "C05" else None))
            elif kind == "attribute":
                out.append((kind, it[0], repr(it[4])))
            elif kind == "class" and prop == "C05":
                out.append((kind, it[0], repr(it[12])))
        elif prop == "C06":
            if kind == "function":
                out.append((kind, it[0], it[4], it[5], tuple((p[0], p[1], p[2], repr(p[3]), p[4]) for p in it[11])))
        elif prop == "C07":
            if kind == "function":
                out.append((kind, it[0], tuple((r[0], r[1], repr(r[2])) for r in it[9])))
        elif prop == "C13":
            if kind == "module":
                out.append((kind, it[0], it[2]))
            elif kind == "class":
                out.append((kind, it[0], repr(it[4]), it[6]))
            elif kind == "function":
                out.append((kind, it[0], repr(it[2]), tuple((p[0], p[7]) for p in it[11]), tuple((r[1], r[2]) for r in it[7])))
            elif kind == "attribute":
                out.append((kind, it[0], it[6]))
            elif kind == "enum":
                out.append((kind, it[0], repr(it[2])))
        elif prop == "C17":
            if kind == "class":
                out.append((kind, it[0], tuple(it[2]), it[3], tuple((f[0], f[3]) for f in it[10])))
        elif prop == "C11":
            if kind == "module":
                out.append((kind, it[0], repr(it[3]), repr(it[4])))
            elif kind == "class":
                out.append((kind, it[0], tuple(it[2]), repr(it[8])))
            elif kind == "function":
                out.append((kind, it[0], repr(it[10])))
        elif prop == "C15":
            if kind == "module":
                out.append((kind, it[0]))
        elif prop == "C20":
            if kind == "function":
                out.append((kind, it[0], it[5], tuple((p[0], p[2], repr(p[3]), p[4], p[8] == []) for p in it[11]),
                            tuple(r[2] == [] for r in it[9])))
            elif kind == "class":
                out.append((kind, it[0], tuple(it[2])))
            elif kind == "attribute":
                out.append((kind, it[0], it[4] == []))
        else:
            out.append((kind, repr(it)))
    if prop in ("C11",):
        out.append(("reexport_map", repr(api[3])))
    if prop in ("C12", "C03") and flat is not None:
        out.append(("flat", repr(flat)))
    if prop == "C14" and log is not None:
        out.append(("log", repr(sorted(l for l in log if l[0] in ("param", "result")))))
    if prop in ("C01", "C08", "C18") and log is not None:
        out.append(("log", repr(log)))
    return out


FRONT_PROPS = ("C01", "C03", "C04", "C05", "C06", "C07", "C08", "C11", "C12", "C13", "C14", "C15", "C17", "C18", "C20")


def disagreement(prop: str, answer: dict, model) -> dict | None:
    """None when model and implementation agree on the property's projection of the analyzer's result"""
    if prop not in FRONT_PROPS:
        return None
    c = compare(answer, model)
    if c["status"] in ("agree", "ambiguous"):
        return None
    if c["status"] == "noview":
        return {"what": "analyzer correspondence could not run: " + str(c["diff"])}
    if model is not None and model[0] == "ok" and answer.get("api_tree") is not None:
        pi = projection(prop, answer["api_tree"], answer.get("flat_keys"), impl_log(answer.get("log")))
        pm = projection(prop, model[1], model[2], model[3])
        if pi == pm:
            if str(c["diff"]).startswith("json") and prop in ("C12", "C03", "C08", "C01"):
                return {"what": "the serialisation model (API.to_dict) and the implementation's JSON value differ: " + str(c["diff"])}
            return None
        si, sm = set(map(repr, pi)), set(map(repr, pm))
        return {"what": f"analyzer model and implementation differ on the {prop} projection of the API object",
                "detail": {"only_impl": sorted(si - sm)[:3], "only_model": sorted(sm - si)[:3], "first": c["diff"]}}
    return {"what": "analyzer model and implementation differ: " + str(c["diff"])}
