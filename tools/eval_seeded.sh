#!/bin/bash
# usage: eval_seeded.sh <seeded id> [props...] : apply the patch to /repo, run the checks, undo the patch
id=$1; shift
props=${@:-$(python3 -c "import json;print(json.load(open('/verif/seeded/$id/meta.json'))['property'])")}
cd /repo && git apply /verif/seeded/$id/patch.diff || { echo "$id: patch does not apply"; exit 2; }
for p in $props; do
  out=$(cd /verif && ./check $p --tier quick 2>&1 | tail -4)
  echo "[$id] $p: $(echo "$out" | grep -c '^VIOLATION') violation lines; $(echo "$out" | tail -1)"
  echo "$out" | grep '^VIOLATION' | head -2
done
git -C /repo checkout -- . 
