"""Encode real API objects (safeds_stubgen.api_analyzer._api) as S-expression trees for the model."""
from __future__ import annotations

import vlib
from vlib import opt, ty_sx
from safeds_stubgen.api_analyzer._api import UnknownValue


def doc_sx(d):
    return [d.description, d.full_docstring, list(d.examples)]


def dval_sx(v):
    if v is None:
        return ["none"]
    if isinstance(v, UnknownValue):
        return ["u"]
    if isinstance(v, bool):
        return ["b", v]
    if isinstance(v, int):
        return ["i", v]
    if isinstance(v, float):
        return ["f", repr(v)]
    if isinstance(v, str):
        return ["s", v]
    raise TypeError(f"default {v!r}")


def oty(t):
    return [] if t is None else [ty_sx(t)]


def param_sx(p):
    return [p.id, p.name, bool(p.is_optional), dval_sx(p.default_value), p.assigned_by.name, oty(p.docstring.type),
            p.docstring.default_value, p.docstring.description, oty(p.type)]


def result_sx(r):
    return [r.id, r.name, oty(r.type)]


def rdoc_sx(r):
    return [oty(r.type), r.description, r.name]


def qimport_sx(q):
    return [q.qualified_name, opt(q.alias)]


def rmod_sx(m):
    return [m.id, [qimport_sx(q) for q in m.qualified_imports], [w.module_name for w in m.wildcard_imports]]


def func_sx(f):
    return [f.id, f.name, doc_sx(f.docstring), bool(f.is_public), bool(f.is_static), bool(f.is_class_method), bool(f.is_property),
            [rdoc_sx(r) for r in f.result_docstrings], [[tv.name, oty(tv.upper_bound)] for tv in f.type_var_types],
            [result_sx(r) for r in f.results], [rmod_sx(m) for m in f.reexported_by], [param_sx(p) for p in f.parameters]]


def attr_sx(a):
    return [a.id, a.name, bool(a.is_public), bool(a.is_static), oty(a.type), oty(a.docstring.type), a.docstring.description]


def cls_sx(c):
    return [c.id, c.name, list(c.superclasses), bool(c.is_public), doc_sx(c.docstring),
            [] if c.constructor is None else [func_sx(c.constructor)], c.constructor_fulldocstring, bool(c.inherits_from_exception),
            [rmod_sx(m) for m in c.reexported_by], [attr_sx(a) for a in c.attributes], [func_sx(m) for m in c.methods],
            [cls_sx(x) for x in c.classes], [[tp.name, oty(tp.type), tp.variance.name] for tp in c.type_parameters]]


def enum_sx(e):
    return [e.id, e.name, doc_sx(e.docstring), [[i.id, i.name] for i in e.instances]]


def module_sx(m):
    return [m.id, m.name, m.docstring, [qimport_sx(q) for q in m.qualified_imports], [w.module_name for w in m.wildcard_imports],
            [cls_sx(c) for c in m.classes], [func_sx(f) for f in m.global_functions], [enum_sx(e) for e in m.enums]]


def api_sx(api, sort_sets=True):
    rm = []
    for k, mods in api.reexport_map.items():
        ms = list(mods)
        if sort_sets:
            ms.sort(key=lambda m: m.id)
        rm.append([k, [rmod_sx(m) for m in ms]])
    return [api.package, [module_sx(m) for m in api.modules.values()], [[i, cls_sx(c)] for i, c in api.classes.items()], rm]
