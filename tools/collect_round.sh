#!/bin/bash
# usage: collect_round.sh <dir> <Cnn> <A|B> <suffix> <round> : take <dir>/<Cnn>_out/<A|B>.* into seeded/<Cnn>_<suffix>/ and confirm it in the scratch worktree <dir>/<Cnn> (moved to the current HEAD of /repo first)
root=$1; id=$2; ab=$3; suf=$4; round=$5; wt=$root/$id; src=$root/${id}_out; dst=/verif/seeded/${id}_$suf
[ -f $src/$ab.patch.diff ] || { echo "$id $ab: no patch"; exit 1; }
mkdir -p $dst/demo
cp $src/$ab.patch.diff $dst/patch.diff; cp $src/$ab.demo.py $dst/demo/demo.py; cp $src/$ab.meta.json $dst/agent_meta.json
cd $wt && git checkout -q -- . && git clean -fdxq && git checkout -q --detach $(git -C /repo rev-parse HEAD)
export PYTHONSAFEPATH=1 MYPY_CACHE_DIR=$wt/.mypy_cache_x STUBGEN_SRC=$wt/src PYTHONPATH=$wt/src PYTHONHASHSEED=0
timeout 900 /venv/bin/python $dst/demo/demo.py > $dst/demo_without_patch.log 2>&1; rc_without=$?
git apply $dst/patch.diff || { echo "$dst: patch does not apply"; exit 1; }
timeout 900 /venv/bin/python $dst/demo/demo.py > $dst/demo_with_patch.log 2>&1; rc_with=$?
/venv/bin/python -m pytest -q -p no:cacheprovider --timeout=900 -q tests --junitxml=$dst/junit_with_patch.xml > /dev/null 2>&1
git checkout -q -- . ; git clean -fdxq
python3 - $dst $rc_with $rc_without $id $suf $round <<'PY'
import sys, json, xml.etree.ElementTree as ET
dst, rc_with, rc_without, pid, suf = sys.argv[1], int(sys.argv[2]), int(sys.argv[3]), sys.argv[4], sys.argv[5]
ok = set()
for tc in ET.parse(dst + "/junit_with_patch.xml").iter("testcase"):
    if not list(tc):
        ok.add(tc.get("classname") + "::" + tc.get("name"))
base = set(json.load(open("/root/.vp/BASELINE.json"))["stable_pass"])
am = json.load(open(dst + "/agent_meta.json"))
meta = {"id": f"{pid}_{suf}", "property": pid, "summary": am.get("summary"), "needs_to_manifest": am.get("needs_to_manifest"),
        "origin": "independent sub-agent (round " + sys.argv[6] + ") given only the property text and a scratch worktree",
        "confirmed": {"demo_exit_with_patch": rc_with, "demo_exit_without_patch": rc_without,
                      "baseline_tests_still_passing": f"{len(base & ok)}/{len(base)}", "all_tests_passing_with_patch": len(ok)},
        "what_was_run": "tools/collect_round.sh: demo/demo.py without and with the patch in the scratch worktree; full pytest run with the patch compared with BASELINE.json stable_pass"}
json.dump(meta, open(dst + "/meta.json", "w"), indent=1)
print(dst, "demo with patch rc", rc_with, "without", rc_without, "baseline kept", len(base & ok), "/", len(base), "passing", len(ok))
PY
rm -f $dst/junit_with_patch.xml $dst/agent_meta.json
