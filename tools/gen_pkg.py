"""Generator of Python packages (abstract description -> source tree + ground truth).

The *domain* stream stays inside the region where the tool is known to work (see DESIGN section 7): unique name
numbers (no name is a suffix of another), literal returns in un-annotated bodies, supported assignment targets,
re-exported declarations that reference builtins only, no engineered ties.
"""
from __future__ import annotations

import random
from dataclasses import dataclass, field

BECOME_KEYWORDS = ["from_", "in_", "class_", "or_", "_from", "not_", "import_", "yield_", "and_", "as_", "val_", "_fun_"]
SDS_KEYWORDS_PY_LEGAL = ["annotation", "attr", "const", "enum", "fun", "internal", "literal", "out", "package", "pipeline",
                         "private", "schema", "static", "segment", "sub", "this", "union", "unknown", "val", "where", "false",
                         "true", "null"]


# ---------------------------------------------------------------------------------------------------------
# annotations
@dataclass
class Ann:
    kind: str
    args: list = field(default_factory=list)
    name: str = ""          # class / typevar name
    lits: list = field(default_factory=list)
    module: str = ""        # defining module (dotted) for refs

    def src(self) -> str:
        k = self.kind
        if k in ("int", "str", "bool", "float", "None", "Any"):
            return k
        if k in ("ref", "typevar"):
            return self.name
        if k == "list":
            return f"list[{', '.join(a.src() for a in self.args)}]"
        if k == "set":
            return f"set[{', '.join(a.src() for a in self.args)}]"
        if k == "dict":
            return f"dict[{self.args[0].src()}, {self.args[1].src()}]"
        if k == "tuple":
            return f"tuple[{', '.join(a.src() for a in self.args)}]"
        if k == "optional":
            return f"Optional[{self.args[0].src()}]"
        if k == "union":
            return f"Union[{', '.join(a.src() for a in self.args)}]"
        if k == "bar":
            return " | ".join(a.src() for a in self.args)
        if k == "literal":
            return f"Literal[{', '.join(repr(x) for x in self.lits)}]"
        if k == "callable":
            return f"Callable[[{', '.join(a.src() for a in self.args[:-1])}], {self.args[-1].src()}]"
        if k == "sequence":
            return f"Sequence[{self.args[0].src()}]"
        if k == "collection":
            return f"Collection[{self.args[0].src()}]"
        if k == "mapping":
            return f"Mapping[{self.args[0].src()}, {self.args[1].src()}]"
        if k == "generic":
            return f"{self.name}[{', '.join(a.src() for a in self.args)}]"
        if k == "final":
            return f"Final[{self.args[0].src()}]"
        raise ValueError(k)

    # reference translation (the documented mapping) as a tree: ("Int",) / ("List", [t]) / ("union", {..}) ...
    def ref(self):
        k = self.kind
        if k == "int":
            return ("named", "Int")
        if k == "str":
            return ("named", "String")
        if k == "bool":
            return ("named", "Boolean")
        if k == "float":
            return ("named", "Float")
        if k == "None":
            return ("named", "Nothing?")
        if k == "Any":
            return ("named", "Any")
        if k in ("ref", "typevar"):
            return ("named", self.name)
        if k in ("list", "sequence", "collection"):
            return ("app", "List", [a.ref() for a in self.args])
        if k == "set":
            return ("app", "Set", [a.ref() for a in self.args])
        if k in ("dict", "mapping"):
            return ("app", "Map", [a.ref() for a in self.args])
        if k == "tuple":
            return ("app", "Tuple", [a.ref() for a in self.args])
        if k == "generic":
            return ("app", self.name, [a.ref() for a in self.args])
        if k == "optional":
            return ("union", [self.args[0].ref(), ("named", "Nothing?")])
        if k in ("union", "bar"):
            return ("union", [a.ref() for a in self.args])
        if k == "literal":
            return ("literal", list(self.lits))
        if k == "callable":
            return ("callable", [a.ref() for a in self.args[:-1]], self.args[-1].ref())
        if k == "final":
            return self.args[0].ref()
        raise ValueError(k)

    def walk(self):
        yield self
        for a in self.args:
            yield from a.walk()


@dataclass
class Param:
    name: str
    kind: str               # posonly | pos | varpos | kwonly | varkw
    ann: Ann | None = None
    default: str | None = None   # python source of the default
    default_value: object = None  # python value when the default is a literal; marker otherwise
    default_is_literal: bool = False
    doc: str = ""
    doc_type: str | None = None


@dataclass
class Func:
    name: str
    params: list[Param]
    ret: Ann | None = None
    ret_none: bool = False         # "-> None"
    body: str = "..."              # python source of the body (already indented one level less)
    deco: str = "plain"           # plain | static | classm | prop
    doc: str = ""
    inferred: list | None = None   # for un-annotated bodies: list of tuples of literal values returned
    result_docs: list = field(default_factory=list)   # [(name or '', type or None, text)]
    example: str = ""
    setter: bool = False           # a property that also has a setter (mypy: an overloaded definition without implementation)
    deleter: bool = False          # a property with a deleter (and no setter unless setter is set)


@dataclass
class Attr:
    name: str
    ann: Ann | None
    value: str | None
    doc: str = ""
    instance: bool = False   # assigned in __init__ as self.name
    chained: bool = False    # written `name = name = value`: one attribute


@dataclass
class Cls:
    name: str
    bases: list[str] = field(default_factory=list)      # python source of the bases
    base_refs: list = field(default_factory=list)       # [(name, module, is_private)]
    attrs: list[Attr] = field(default_factory=list)
    init: Func | None = None
    methods: list[Func] = field(default_factory=list)
    inner: list = field(default_factory=list)
    doc: str = ""
    tparams: list[str] = field(default_factory=list)


@dataclass
class Enum_:
    name: str
    members: list[str]
    doc: str = ""
    body_extra: str = ""      # raw lines appended to the enum body (methods, properties, nested classes: no declarations)


@dataclass
class Module:
    path: str                 # e.g. pkg/sub/mod_a.py (relative to the tree root)
    dotted: str               # pkg.sub.mod_a
    doc: str = ""
    imports: list[str] = field(default_factory=list)
    funcs: list[Func] = field(default_factory=list)
    classes: list[Cls] = field(default_factory=list)
    enums: list[Enum_] = field(default_factory=list)
    typevars: list[str] = field(default_factory=list)
    typevar_decls: dict | None = None
    constants: list = field(default_factory=list)     # [(name, value source, trailing string or None)]
    order: list | None = None   # explicit order of top-level declarations (list of ('f'|'c'|'e', index))


@dataclass
class Init:
    path: str                 # pkg/__init__.py
    dotted: str               # pkg
    lines: list[str] = field(default_factory=list)       # import lines
    reexports: list = field(default_factory=list)        # [(kind 'name'|'alias'|'star'|'module'|'stay' (public through the re-export, declared where it is), module dotted, name, alias)]
    doc: str = ""


@dataclass
class Package:
    name: str
    modules: list[Module]
    inits: list[Init]
    style: str = "plaintext"


# ---------------------------------------------------------------------------------------------------------
# docstring rendering
def render_doc(style: str, desc: str, params: list[Param] | None = None, results: list | None = None, attrs: list | None = None,
               example: str = "", indent: str = "    ") -> str:
    ps = [p for p in (params or []) if p.doc or p.doc_type]
    if style == "plaintext":
        ps, results, attrs, example = [], None, None, ""
    if not (desc or ps or results or example or attrs):
        return ""
    lines = desc.split("\n") if desc else []
    if style == "numpydoc":
        if ps:
            lines += ["", "Parameters", "----------"]
            for p in ps:
                lines.append(f"{p.name} : {p.doc_type}" if p.doc_type else p.name)
                if p.doc:
                    lines.append(f"    {p.doc}")
        if attrs:
            lines += ["", "Attributes", "----------"]
            for a in attrs:
                lines.append(a.name)
                lines.append(f"    {a.doc}")
        if results:
            lines += ["", "Returns", "-------"]
            for n, t, d in results:
                head = f"{n} : {t}" if n and t else (t or n or "result")
                lines.append(head)
                if d:
                    lines.append(f"    {d}")
        if example:
            lines += ["", "Examples", "--------"] + example.split("\n")
    elif style == "google":
        if ps:
            lines += ["", "Args:"]
            for p in ps:
                t = f" ({p.doc_type})" if p.doc_type else ""
                lines.append(f"    {p.name}{t}: {p.doc or 'x'}")
        if attrs:
            lines += ["", "Attributes:"]
            for a in attrs:
                lines.append(f"    {a.name}: {a.doc}")
        if results:
            n, t, d = results[0]
            lines += ["", "Returns:", f"    {t + ': ' if t else ''}{d or 'x'}"]
        if example:
            lines += ["", "Examples:"] + ["    " + e for e in example.split("\n")]
    elif style == "rest":
        if ps:
            lines.append("")
            for p in ps:
                lines.append(f":param {p.name}: {p.doc or 'x'}")
                if p.doc_type:
                    lines.append(f":type {p.name}: {p.doc_type}")
        if results:
            n, t, d = results[0]
            lines.append("")
            lines.append(f":returns: {d or 'x'}")
            if t:
                lines.append(f":rtype: {t}")
    body = ("\n" + indent).join(lines)
    return f'{indent}"""{body}\n{indent}"""\n'


# ---------------------------------------------------------------------------------------------------------
# source rendering
def param_src(p: Param) -> str:
    s = p.name
    if p.kind == "varpos":
        s = "*" + s
    elif p.kind == "varkw":
        s = "**" + s
    if p.ann is not None:
        s += f": {p.ann.src()}"
    if p.default is not None:
        s += (" = " if p.ann is not None else "=") + p.default
    return s


def signature_src(params: list[Param], receiver: str | None) -> str:
    parts = [receiver] if receiver else []
    seen_posonly = False
    seen_star = False
    for i, p in enumerate(params):
        if p.kind == "posonly":
            seen_posonly = True
        else:
            if seen_posonly:
                parts.append("/")
                seen_posonly = False
            if p.kind == "kwonly" and not seen_star:
                parts.append("*")
                seen_star = True
            if p.kind == "varpos":
                seen_star = True
        parts.append(param_src(p))
    if seen_posonly:
        parts.append("/")
    return ", ".join(parts)


def func_src(f: Func, style: str, indent: str, in_class: bool) -> str:
    out = ""
    receiver = None
    if in_class:
        if f.deco == "static":
            out += f"{indent}@staticmethod\n"
        elif f.deco == "classm":
            out += f"{indent}@classmethod\n"
            receiver = "cls"
        elif f.deco == "prop":
            out += f"{indent}@property\n"
            receiver = "self"
        else:
            receiver = "self"
    ret = ""
    if f.ret_none:
        ret = " -> None"
    elif f.ret is not None:
        ret = f" -> {f.ret.src()}"
    out += f"{indent}def {f.name}({signature_src(f.params, receiver)}){ret}:\n"
    out += render_doc(style, f.doc, f.params, f.result_docs, None, f.example, indent + "    ")
    for line in f.body.split("\n"):
        out += f"{indent}    {line}\n"
    if in_class and f.deco == "prop" and f.setter:
        out += f"\n{indent}@{f.name}.setter\n{indent}def {f.name}(self, value{': ' + f.ret.src() if f.ret is not None else ''}) -> None:\n"
        out += f"{indent}    pass\n"
    if in_class and f.deco == "prop" and f.deleter:
        out += f"\n{indent}@{f.name}.deleter\n{indent}def {f.name}(self) -> None:\n{indent}    pass\n"
    return out


def cls_src(c: Cls, style: str, indent: str) -> str:
    bases = f"({', '.join(c.bases)})" if c.bases else ""
    out = f"{indent}class {c.name}{bases}:\n"
    doc_attrs = [a for a in c.attrs if a.doc] if style in ("numpydoc", "google") else None
    init_params = c.init.params if c.init else None
    out += render_doc(style, c.doc, init_params if style != "plaintext" else None, None, doc_attrs, "", indent + "    ")
    body = ""
    for a in c.attrs:
        if not a.instance:
            ann = f": {a.ann.src()}" if a.ann is not None else ""
            chain = f" = {a.name}" if a.chained and a.ann is None and a.value is not None else ""
            body += f"{indent}    {a.name}{ann}{chain}" + (f" = {a.value}" if a.value is not None else "") + "\n"
    for ic in c.inner:
        body += "\n" + (enum_src(ic, style, indent + "    ") if isinstance(ic, Enum_) else cls_src(ic, style, indent + "    "))
    if c.init is not None:
        body += "\n" + func_src(c.init, "plaintext", indent + "    ", True)
    for m in c.methods:
        body += "\n" + func_src(m, style, indent + "    ", True)
    if not body and not c.doc:
        body = f"{indent}    pass\n"
    return out + body


def enum_src(e: Enum_, style: str, indent: str) -> str:
    out = f"{indent}class {e.name}(Enum):\n"
    if e.doc:
        out += f'{indent}    """{e.doc}"""\n'
    if len(e.members) == 3 and sum(map(ord, e.name)) % 2 == 0:
        # one statement with a tuple target (no random draw: the members and their order are the same)
        out += f"{indent}    {', '.join(e.members)} = 1, 2, 3\n"
    elif len(e.members) == 2 and sum(map(ord, e.name)) % 2 == 0:
        # one chained statement with two targets (the second member is an alias of the first for Python; the tool lists both)
        out += f"{indent}    {e.members[0]} = {e.members[1]} = 1\n"
    else:
        for i, m in enumerate(e.members):
            out += f"{indent}    {m} = {i + 1}\n"
    if not e.members and not e.doc and not e.body_extra:
        out += f"{indent}    pass\n"
    for line in e.body_extra.splitlines():
        out += f"{indent}    {line}\n" if line else "\n"
    return out


ENUM_BODY_EXTRA = ('''
def describe_{k}(self) -> str:
    return self.name.lower()

@property
def code_{k}(self) -> int:
    return 1

class Inner_{k}:
    level_{k}: int = 1
''')


HEADER = ("from __future__ import annotations\n"
          "import sys\n"
          "from typing import TYPE_CHECKING\n"
          "from typing import Any, Callable, Collection, Final, Generic, Literal, Mapping, Optional, Sequence, TypeVar, Union\n"
          "from enum import Enum, Flag\n")


def module_src(m: Module, style: str) -> str:
    out = ""
    if m.doc:
        out += f'"""{m.doc}"""\n'
    out += HEADER
    for imp in m.imports:
        out += imp + "\n"
    for tv in m.typevars:
        out += (m.typevar_decls or {}).get(tv, f'{tv} = TypeVar("{tv}")') + "\n"
    for cname, cval, cdoc in m.constants:
        out += f"{cname}: int = {cval}\n"
        if cdoc:
            out += f'"""{cdoc}"""\n'
    order = m.order or ([("e", i) for i in range(len(m.enums))] + [("c", i) for i in range(len(m.classes))]
                        + [("f", i) for i in range(len(m.funcs))])
    for k, i in order:
        out += "\n\n"
        if k == "f":
            out += func_src(m.funcs[i], style, "", False)
        elif k == "c":
            out += cls_src(m.classes[i], style, "")
        else:
            out += enum_src(m.enums[i], style, "")
    return out


def package_files(p: Package) -> dict[str, str]:
    files = {}
    for i in p.inits:
        text = (f'"""{i.doc}"""\n' if i.doc else "") + "\n".join(i.lines) + ("\n" if i.lines else "")
        files[i.path] = text
    for m in p.modules:
        files[m.path] = module_src(m, p.style) + getattr(m, "extra_source", "")
    return files


# ---------------------------------------------------------------------------------------------------------
# random generation
class Names:
    def __init__(self, rng: random.Random, tag: str):
        self.rng = rng
        self.n = 0
        self.tag = tag

    def num(self) -> str:
        self.n += 1
        return f"{self.n:03d}"

    def fresh(self, shape: str, private: bool = False) -> str:
        k = self.num()
        base = {"func": ["calc_value_", "run", "get_x_y_", "doIt", "f"],
                "cls": ["Widget", "DataHolder", "HTTPServer", "C", "Round__Shape", "Io__"],
                "attr": ["count_", "max_val_", "a", "someAttr"],
                "param": ["p", "arg_", "some_param_", "x", "p", "x", "_"],      # "_" gives names like _061q4: kept by the naming conversion
                "enum": ["Color", "mode_kind_"],
                "member": ["RED_", "low_val_", "M"],
                "mod": ["mod_", "helpers_", "m"],
                "tv": ["T"]}[shape]
        n = self.rng.choice(base) + k + self.tag
        return ("_" + n) if private else n


BASE_ANN = ["int", "str", "bool", "float"]
RICH_DOC_TYPES = ["int | 0 | None", "int | str | None", "int | ... | str", "str | bool | int | None", "list[int] | None",
                  "1 | int | 2 | None", "int or str or None", "list[int]", "dict[str, int]", "tuple[int, str]", "Optional[int]"]
PARAMSPEC_SOURCE = '''

from typing import ParamSpec, TypeVarTuple, Unpack


PS_{k} = ParamSpec("PS_{k}")
TS_{k} = TypeVarTuple("TS_{k}")


def logged_{k}(fn: Callable[PS_{k}, int]) -> Callable[PS_{k}, int]:
    return fn


def pack_{k}(*args: Unpack[TS_{k}]) -> tuple[Unpack[TS_{k}]]:
    return args
'''


def gen_ann(rng: random.Random, depth: int, refs: list[Ann], allow_none_top=True, tvs: list[str] | None = None) -> Ann:
    if depth <= 0 or rng.random() < 0.35:
        r = rng.random()
        if r < 0.55:
            return Ann(rng.choice(BASE_ANN))
        if r < 0.65 and refs:
            return rng.choice(refs)
        if r < 0.72:
            return Ann("Any")
        if r < 0.82:
            return Ann("literal", lits=rng.sample(["a", "b c", 1, 2, -3, True, False, 'q"t', "b\\s"], rng.randrange(1, 4)))
        if r < 0.87 and tvs:
            return Ann("typevar", name=rng.choice(tvs))
        return Ann(rng.choice(BASE_ANN))
    k = rng.choice(["list", "list", "set", "dict", "tuple", "optional", "union", "bar", "callable", "sequence", "collection",
                    "mapping", "optional"])
    sub = lambda: gen_ann(rng, depth - 1, refs, tvs=tvs)  # noqa: E731
    if k in ("list", "set", "sequence", "collection"):
        return Ann(k, [sub()])
    if k in ("dict", "mapping"):
        return Ann(k, [sub(), sub()])
    if k == "tuple":
        return Ann(k, [sub() for _ in range(rng.randrange(1, 4))])
    if k == "optional":
        a = sub()
        while a.kind in ("optional", "None"):
            a = sub()
        return Ann(k, [a])
    if k in ("union", "bar"):
        n = rng.randrange(2, 4)
        args = [sub() for _ in range(n)]
        if rng.random() < 0.25:
            # two members that are written differently but mean the same: X[A | B] and X[B | A]
            a, b = Ann(rng.choice(BASE_ANN)), Ann(rng.choice(["None", "str", "float"]))
            if a.kind != b.kind:
                outer1, outer2 = rng.choice([("list", "list"), ("list", "sequence"), ("set", "set"), ("collection", "list")])
                args = [Ann(outer1, [Ann("union", [a, b])]), Ann(outer2, [Ann("union", [b, a])])] + args[:1]
        if rng.random() < 0.3:
            args.append(Ann("None"))
        # `X | Y` on a string forward reference or Callable needs care: keep members simple for the bar form
        if k == "bar":
            args = [a if a.kind not in ("callable",) else Ann("int") for a in args]
        return Ann(k, args)
    if k == "callable":
        return Ann(k, [sub() for _ in range(rng.randrange(0, 3))] + [sub() if rng.random() < 0.8 else Ann("None")])
    raise AssertionError


LIT_DEFAULTS = [("1", 1), ("0", 0), ("-7", -7), ("1.5", 1.5), ("-2.25", -2.25), ("'txt'", "txt"), ('"a b"', "a b"), ("True", True),
                ("False", False), ("None", None), ("12345678901234567890", 12345678901234567890), ("''", ""),
                ("'say \"hi\"'", 'say "hi"'), ("'C:\\\\dir\\\\'", "C:\\dir\\"), ("'two\\nlines'", "two\nlines"), ("'tab\\there'", "tab\there"),
                ("'*/ end'", "*/ end")]


def ann_for_default(v) -> Ann:
    if isinstance(v, bool):
        return Ann("bool")
    if isinstance(v, int):
        return Ann("int")
    if isinstance(v, float):
        return Ann("float")
    if isinstance(v, str):
        return Ann("str")
    return Ann("optional", [Ann("int")])


def gen_params(rng: random.Random, names: Names, refs, tvs, maxn=5, typed_prob=0.85, keywords=False) -> list[Param]:
    n = rng.randrange(0, maxn + 1)
    kinds = []
    # legal order: posonly* pos* (varpos | ) kwonly* varkw?
    n_posonly = rng.randrange(0, 2) if n >= 2 else 0
    for _ in range(n_posonly):
        kinds.append("posonly")
    n_pos = rng.randrange(0, max(1, n - n_posonly) + 1)
    kinds += ["pos"] * n_pos
    rest = n - len(kinds)
    if rest > 0 and rng.random() < 0.3:
        kinds.append("varpos")
        rest -= 1
    while rest > 0 and rng.random() < 0.7:
        kinds.append("kwonly")
        rest -= 1
    if rng.random() < 0.2:
        kinds.append("varkw")
    ps = []
    default_seen = False
    for k in kinds:
        nm = rng.choice(SDS_KEYWORDS_PY_LEGAL + BECOME_KEYWORDS) if (keywords and rng.random() < 0.35) else names.fresh("param")
        if any(q.name == nm for q in ps):
            nm = names.fresh("param")
        p = Param(nm, k)
        typed = rng.random() < typed_prob
        want_default = k in ("posonly", "pos", "kwonly") and (default_seen and k != "kwonly" or rng.random() < 0.35)
        if want_default:
            if rng.random() < 0.85:
                src, val = rng.choice(LIT_DEFAULTS)
                p.default, p.default_value, p.default_is_literal = src, val, True
                if typed:
                    p.ann = ann_for_default(val)
            else:
                p.default, p.default_value, p.default_is_literal = "len", "<non-literal>", False
                if typed:
                    p.ann = Ann("Any")
            if k != "kwonly":
                default_seen = True
        elif typed:
            p.ann = gen_ann(rng, 2, refs, tvs=tvs)
        if k == "varpos" and typed:
            p.ann = Ann(rng.choice(BASE_ANN))
        if k == "varkw" and typed:
            p.ann = Ann(rng.choice(BASE_ANN))
        ps.append(p)
    return ps


RET_LITS = [("1", 1), ("'s'", "s"), ("2.5", 2.5), ("True", True), ("None", None), ("-4", -4)]


def gen_inferred_body(rng: random.Random, depth: int = 2):
    """un-annotated body made of literal returns nested in control flow; returns (source, list of returned tuples).
    Call / attribute returns are skipped by the tool's inference (they contribute nothing) and are generated to make sure
    they stay harmless; branches that mypy considers unreachable (TYPE_CHECKING, sys.platform) still count."""
    returned = []

    def lit():
        return rng.choice(RET_LITS)

    def ret_stmt():
        r = rng.random()
        if r < 0.25:
            n = rng.randrange(2, 4)
            items = [lit() for _ in range(n)]
            returned.append(tuple(v for _, v in items))
            return "return " + ", ".join(s for s, _ in items)
        if r < 0.37:
            (s1, v1), (s2, v2) = lit(), lit()
            returned.append((v1,))
            returned.append((v2,))
            return f"return {s1} if a else {s2}"
        if r < 0.45:
            s1, v1 = lit()
            returned.append((v1,))
            other = rng.choice(["len('x')", "str(a).upper()", "a.real"])
            return f"return {other} if a else {s1}" if rng.random() < 0.5 else f"return {s1} if a else {other}"
        if r < 0.5:
            return rng.choice(["return len('x')", "return str(a).upper()", "return a.real"])
        s, v = lit()
        returned.append((v,))
        return f"return {s}"

    def block(d, ind):
        k = rng.choice(["ret", "if", "ifelse", "try", "while", "for", "with", "match", "tc", "platform", "ifloop"]) if d > 0 else "ret"
        if k == "ifloop":
            # every branch ends in a return, but the loop may run zero times: the return after the statement is reachable
            head = rng.choice(["for _i in range(a):", "while a:", "with open('x') as _f:"])
            return ([ind + "if a:", ind + "    " + head] + block(0, ind + "        ") + [ind + "else:"] + block(0, ind + "    ")
                    + block(0, ind))
        if k == "ret":
            return [ind + ret_stmt()]
        if k == "if":
            return [ind + "if a:"] + block(d - 1, ind + "    ") + block(0, ind)
        if k == "ifelse":
            return [ind + "if a:"] + block(d - 1, ind + "    ") + [ind + "else:"] + block(d - 1, ind + "    ")
        if k == "tc":
            return [ind + "if TYPE_CHECKING:"] + block(d - 1, ind + "    ") + [ind + "else:"] + block(d - 1, ind + "    ")
        if k == "platform":
            return [ind + "if sys.platform == 'win32':"] + block(d - 1, ind + "    ") + block(0, ind)
        if k == "try":
            return [ind + "try:"] + block(d - 1, ind + "    ") + [ind + "except ValueError:"] + block(d - 1, ind + "    ")
        if k == "while":
            return [ind + "while a:"] + block(d - 1, ind + "    ") + block(0, ind)
        if k == "for":
            return [ind + "for _i in range(2):"] + block(d - 1, ind + "    ") + block(0, ind)
        if k == "with":
            return [ind + "with open('x') as _f:"] + block(d - 1, ind + "    ")
        return [ind + "match a:", ind + "    case 1:"] + block(d - 1, ind + "        ") + [ind + "    case _:"] + block(d - 1, ind + "        ")

    lines = block(depth, "")
    if rng.random() < 0.3:
        # two tuple returns of different length over the same element types, the shorter one first
        (s1, v1), (s2, v2) = lit(), lit()
        returned.append((v1, v2))
        returned.append((v1, v2, v2))
        lines = [f"if a == 7:", f"    return {s1}, {s2}", f"if a == 8:", f"    return {s1}, {s2}, {s2}"] + lines
    return "\n".join(lines), returned


def gen_func(rng, names: Names, refs, tvs, *, private=False, deco="plain", docs=True, keywords=False, infer_prob=0.2,
             doc_types=False) -> Func:
    f = Func(names.fresh("func", private), gen_params(rng, names, refs, tvs, keywords=keywords), deco=deco)
    r = rng.random()
    if deco == "prop":
        f.params = []
        f.ret = gen_ann(rng, 1, refs)
        f.body = "..."
        f.setter = rng.random() < 0.4
        f.deleter = rng.random() < (0.2 if f.setter else 0.3)
    elif r < infer_prob:
        rest = [p for p in f.params if p.name != "a"]
        f.params = [Param("a", "posonly" if any(p.kind == "posonly" for p in rest) else "pos", Ann("int"))] + rest
        f.body, f.inferred = gen_inferred_body(rng, rng.randrange(1, 3))
    elif r < infer_prob + 0.15:
        f.ret_none = True
        f.body = "return None"
    elif r < infer_prob + 0.22:
        f.body = "pass"       # neither annotation nor inferable return
        f.inferred = []
    else:
        if doc_types and rng.random() < 0.45:
            f.ret = Ann("tuple", [Ann(rng.choice(BASE_ANN)) for _ in range(rng.randrange(2, 4))])
        # a type variable in the result only if a parameter mentions it (mypy rejects the other case)
        has_tv = any(a.kind == "typevar" for p in f.params if p.ann for a in p.ann.walk())
        if not (doc_types and f.ret is not None and f.ret.kind == "tuple"):
            f.ret = gen_ann(rng, 2, refs, tvs=tvs if has_tv else None)
    if docs and rng.random() < 0.6:
        f.doc = f"Doc of {f.name}. Line one."
        if rng.random() < 0.15:
            f.doc += f" Reads src/*/{f.name}.txt and **/ too."      # comment terminators inside the text
        if rng.random() < 0.4:
            f.doc += f"\n\nSecond paragraph of {f.name}."
    if doc_types:
        for p in f.params:
            if p.kind in ("varpos", "varkw"):
                continue
            r = rng.random()
            if r < 0.5:
                p.doc = f"About {p.name}."
            if r < 0.35:
                # same as the hint, different from the hint, or a docstring type without any hint
                if doc_types == "rich" and rng.random() < 0.5:
                    # unions of three and more alternatives, with plain values among them, optional markers, containers
                    p.doc_type = rng.choice(RICH_DOC_TYPES)
                elif p.ann is not None and p.ann.kind in BASE_ANN and rng.random() < 0.5:
                    p.doc_type = p.ann.kind
                else:
                    p.doc_type = rng.choice(BASE_ANN)
        if deco != "prop" and f.ret is not None and f.ret.kind == "tuple" and len(f.ret.args) >= 2 and rng.random() < 0.7:
            # several named results (numpydoc lists them; the other styles only use the first): some entries carry a type that
            # differs from or equals the hint, some only prose
            for k, a in enumerate(f.ret.args):
                r = rng.random()
                t = (a.kind if a.kind in BASE_ANN and r < 0.2 else rng.choice(BASE_ANN)) if r < 0.55 else "a short piece of text"
                # now and then an entry without a name (numpydoc: only the type line)
                rname = "" if (t in BASE_ANN and rng.random() < 0.3) else f"res_{k}_{f.name}"
                f.result_docs.append((rname, t, f"Result {k} of {f.name}."))
        elif deco != "prop" and rng.random() < 0.4 and (f.ret is not None and f.ret.kind != "tuple" or (f.ret is None and not f.ret_none and f.inferred is None)):
            t = f.ret.kind if (f.ret is not None and f.ret.kind in BASE_ANN and rng.random() < 0.5) else rng.choice(BASE_ANN)
            f.result_docs = [("", t, f"Result of {f.name}.")]
    return f


def gen_class(rng, names: Names, refs, tvs, *, private=False, depth=1, docs=True, keywords=False, doc_types=False) -> Cls:
    c = Cls(names.fresh("cls", private))
    for _ in range(rng.randrange(0, 4)):
        an = names.fresh("attr", rng.random() < 0.25)
        if keywords and rng.random() < 0.3:
            kw = rng.choice(SDS_KEYWORDS_PY_LEGAL)
            if all(a.name != kw for a in c.attrs):
                an = kw
        r_ = rng.random()
        if r_ < 0.3:
            a_ = gen_ann(rng, 2, refs, tvs=None)
            if rng.random() < 0.5:
                a_ = Ann(rng.choice(["set", "list", "dict", "tuple"]), [gen_ann(rng, 1, refs), gen_ann(rng, 1, refs)][: rng.choice([1, 2])])
                if a_.kind == "dict" and len(a_.args) == 1:
                    a_.args.append(Ann("int"))
                if a_.kind in ("set", "list"):
                    a_.args = a_.args[:1]
            c.attrs.append(Attr(an, a_, None))     # `name: <annotation>` without a value
        elif r_ < 0.8:
            src, val = rng.choice([d for d in LIT_DEFAULTS if d[1] is not None])
            c.attrs.append(Attr(an, ann_for_default(val), src))
        else:
            c.attrs.append(Attr(an, None, "1", chained=len(c.attrs) % 2 == 1))   # untyped: mypy infers int
    if rng.random() < 0.6:
        ps = gen_params(rng, names, refs, tvs, maxn=3, keywords=keywords)
        body = []
        pending = []
        for p in ps:
            if p.kind in ("pos", "posonly", "kwonly") and rng.random() < 0.7:
                an = names.fresh("attr", rng.random() < 0.2)
                c.attrs.append(Attr(an, p.ann, p.name, instance=True))
                pending.append((an, p.name))
        # some assignments by tuple unpacking: `self.a, self.b = x, y`
        while pending:
            if len(pending) >= 2 and rng.random() < 0.4:
                (a1, v1), (a2, v2) = pending.pop(0), pending.pop(0)
                body.append(f"self.{a1}, self.{a2} = {v1}, {v2}")
            else:
                a1, v1 = pending.pop(0)
                body.append(f"self.{a1} = {v1}")
        init = Func("__init__", ps, ret_none=True, body="\n".join(body) or "pass")
        c.init = init
        if docs:
            # constructor parameters are documented in the class docstring (every second one; no random draw)
            for k_, p_ in enumerate(ps):
                if k_ % 2 == 0 and not p_.doc:
                    p_.doc = f"Init value {p_.name} of {c.name}."
    for _ in range(rng.randrange(0, 4)):
        deco = rng.choice(["plain", "plain", "plain", "static", "classm", "prop"])
        c.methods.append(gen_func(rng, names, refs, tvs, private=rng.random() < 0.2, deco=deco, docs=docs, keywords=keywords,
                                  doc_types=doc_types))
    if depth > 0 and rng.random() < 0.3:
        c.inner.append(gen_class(rng, names, refs, tvs, private=rng.random() < 0.25, depth=depth - 1, docs=docs, doc_types=doc_types))
    if docs and rng.random() < 0.6:
        c.doc = f"Doc of class {c.name}." + (" Matches */ and /* as well." if rng.random() < 0.15 else "")
    if c.init is not None and any(p.doc for p in c.init.params) and not c.name.startswith("_") and len(c.methods) % 2 == 0:
        # a method whose name merely ends in __init__, with a parameter that the class docstring documents as well (other text)
        p0 = next(p for p in c.init.params if p.doc)
        c.methods.append(Func("re__init__", [Param(p0.name, "pos", Ann("int"), doc=f"Value for the re-initialisation of {c.name}.")],
                              ret=Ann("int"), doc=f"Doc of re__init__. Belongs to {c.name}."))
    return c


def gen_package(rng: random.Random, idx: int, *, style="plaintext", nmods=3, reexports=True, subpackage=True, keywords=False,
                docs=True, cross_refs=True, private_bases=True, doc_types=False, generics=True, reuse=True, private_root=False,
                result_name_grid=False) -> Package:
    tag = f"q{idx}"
    names = Names(rng, tag)
    root = f"_pkg{tag}" if private_root else f"pkg{tag}"
    mods: list[Module] = []
    inits = [Init(f"{root}/__init__.py", root)]
    dirs = [(root, root)]
    if subpackage:
        sub = f"sub{names.num()}{tag}"
        dirs.append((f"{root}/{sub}", f"{root}.{sub}"))
        inits.append(Init(f"{root}/{sub}/__init__.py", f"{root}.{sub}"))
    all_public_classes: list[Ann] = []
    shared_tv = rng.random() < 0.5
    for mi in range(nmods):
        d, dd = dirs[mi % len(dirs)]
        private_mod = rng.random() < 0.3
        mname = names.fresh("mod", private_mod)
        m = Module(f"{d}/{mname}.py", f"{dd}.{mname}")
        if docs and rng.random() < 0.5:
            m.doc = f"Module doc of {mname}." + (" Covers */ and lib/*/x." if rng.random() < 0.15 else "")
        if rng.random() < 0.4:
            m.constants.append((f"CONST_{names.num()}{tag}".upper(), "1", f"Doc of a constant in {mname}." if rng.random() < 0.7 else None))
        # type variables: the same name in every module of the package on half of the packages
        tv = f"T{tag}" if shared_tv else names.fresh("tv")
        m.typevars = [tv]
        refs_here: list[Ann] = []
        if cross_refs and all_public_classes and rng.random() < 0.6:
            # refer to public classes of earlier public modules (imported by their defining module path)
            for r in rng.sample(all_public_classes, min(len(all_public_classes), rng.randrange(1, 3))):
                m.imports.append(f"from {r.module} import {r.name}")
                refs_here.append(r)
        imported_here = list(refs_here)
        # classes first so that functions can refer to them
        for _ in range(rng.randrange(1, 4)):
            c = gen_class(rng, names, refs_here if cross_refs else [], [tv], private=rng.random() < 0.2, docs=docs, keywords=keywords,
                          doc_types=doc_types)
            m.classes.append(c)
            if not c.name.startswith("_"):
                refs_here.append(Ann("ref", name=c.name, module=m.dotted))
        if generics and shared_tv and rng.random() < 0.5:
            # a generic class over the package-wide type variable name
            gc0 = Cls(names.fresh("cls"), bases=[f"Generic[{tv}]"], tparams=[tv],
                      methods=[Func(names.fresh("func"), [Param(names.fresh("param"), "pos", Ann("typevar", name=tv))], ret=Ann("int"))])
            m.classes.append(gc0)
        if generics and rng.random() < 0.5:
            gtv = f"G{names.num()}{tag}" + ("Self" if names.n % 2 == 0 else "")     # a name that merely ends in Self
            decl = rng.choice([f'{gtv} = TypeVar("{gtv}")', f'{gtv} = TypeVar("{gtv}", bound=int)',
                               f'{gtv} = TypeVar("{gtv}", bound=tuple[int, str])', f'{gtv} = TypeVar("{gtv}", set[int], list[int])',
                               f'{gtv} = TypeVar("{gtv}", covariant=True)'])
            m.typevars.append(gtv)
            m.typevar_decls = {**(m.typevar_decls or {}), gtv: decl}
            gc = Cls(names.fresh("cls"), bases=[f"Generic[{gtv}]"], tparams=[gtv])
            kind = rng.randrange(5)
            if kind == 4:
                # an attribute typed by the class's own type variable, and a method that does not use it
                gc.attrs.append(Attr(names.fresh("attr"), Ann("typevar", name=gtv), None))
                gc.methods.append(Func(names.fresh("func"), [Param(names.fresh("param"), "pos", Ann("int"))], ret=Ann("int")))
            if kind == 0:
                gc.attrs.append(Attr(names.fresh("attr"), Ann("int"), "1"))
            elif kind == 1:
                gc.methods.append(Func(names.fresh("func"), [Param(names.fresh("param"), "pos", Ann("typevar", name=gtv))],
                                       ret=Ann("typevar", name=gtv)))
            elif kind == 2:
                gc.methods.append(Func(names.fresh("func"), [], ret=Ann("int"), deco="prop"))
            if docs and rng.random() < 0.5:
                gc.doc = f"Doc of class {gc.name}."
            m.classes.insert(rng.randrange(0, len(m.classes) + 1), gc)
        # a non-generic class with a method that uses the module's (possibly package-wide) type variable
        if generics and m.classes and rng.random() < 0.5:
            host = rng.choice([c for c in m.classes if not c.tparams] or [m.classes[0]])
            if not host.tparams:
                host.methods.append(Func(names.fresh("func"), [Param(names.fresh("param"), "pos", Ann("typevar", name=tv))],
                                         ret=Ann("typevar", name=tv)))
        # subclassing inside the module: public and private bases
        if private_bases and mi == 0 and not any(c.name.startswith("_") and not c.tparams for c in m.classes):
            host = gen_class(rng, names, refs_here if cross_refs else [], [tv], private=False, docs=docs, depth=0)
            forced = gen_class(rng, names, refs_here if cross_refs else [], [tv], private=True, docs=docs, depth=0)
            if not any(not f.name.startswith("_") for f in forced.methods):
                forced.methods.append(Func(names.fresh("func"), [], ret=Ann("int")))
            sub1 = gen_class(rng, names, refs_here if cross_refs else [], [tv], private=False, docs=docs, depth=0)
            sub1.bases = [forced.name]
            sub1.base_refs = [(forced.name, m.dotted, True)]
            m.classes[0:0] = [host, forced, sub1]
            if not host.name.startswith("_"):
                refs_here.append(Ann("ref", name=host.name, module=m.dotted))
                refs_here.append(Ann("ref", name=sub1.name, module=m.dotted))
        if private_bases and len(m.classes) >= 2 and (mi == 0 or rng.random() < 0.7):
            base = next((c for c in m.classes if not c.tparams and (mi != 0 or c.name.startswith("_"))), m.classes[0])
            for sub in [c for c in m.classes if c is not base and not c.tparams and m.classes.index(c) > m.classes.index(base)]:
                if rng.random() < 0.5 and not sub.bases:
                    sub.bases = [base.name]
                    sub.base_refs = [(base.name, m.dotted, base.name.startswith("_"))]
        if reuse:
            for sub in m.classes:
                if not sub.base_refs:
                    continue
                base = next((c for c in m.classes if c.name == sub.base_refs[0][0]), None)
                if base is None:
                    continue
                # a private grand-base below the private base
                if base.name.startswith("_") and not base.bases and rng.random() < 0.5:
                    gb = gen_class(rng, names, [], [tv], private=True, docs=docs, depth=0)
                    if not any(not f.name.startswith("_") for f in gb.methods):
                        gb.methods.append(Func(names.fresh("func"), [], ret=Ann("int")))
                    m.classes.insert(m.classes.index(base), gb)
                    base.bases = [gb.name]
                    base.base_refs = [(gb.name, m.dotted, True)]
                    # the public subclass overrides a method of the grand-base
                    pub = [f for f in gb.methods if not f.name.startswith("_") and f.deco == "plain"]
                    if pub and all(f.name != pub[0].name for f in sub.methods):
                        sub.methods.append(Func(pub[0].name, [], ret=Ann("str")))
                # the subclass overrides a method of its direct base
                pubm = [f for f in base.methods if not f.name.startswith("_") and f.deco == "plain"]
                if pubm and rng.random() < 0.5 and all(f.name != pubm[0].name for f in sub.methods):
                    sub.methods.append(Func(pubm[0].name, [], ret=Ann("str")))
            # a nested class with an attribute named like an attribute of its enclosing class
            for c in m.classes:
                for ic in c.inner:
                    if isinstance(ic, Cls) and c.attrs and rng.random() < 0.6:
                        a0 = next((a for a in c.attrs if not a.instance), None)
                        if a0 is not None and all(x.name != a0.name for x in ic.attrs):
                            ic.attrs.insert(0, Attr(a0.name, Ann("int"), "1"))
        # a nested class that reuses the name of a module-level private base, declared in an earlier class
        privs = [c for c in m.classes if c.name.startswith("_") and any(b[0] == c.name for s_ in m.classes for b in s_.base_refs)]
        if privs and rng.random() < 0.6:
            pb = privs[0]
            hosts = [c for c in m.classes if m.classes.index(c) < m.classes.index(pb) and not c.name.startswith("_") and not c.tparams]
            if hosts:
                twin = Cls(pb.name, methods=[Func(names.fresh("func"), [], ret=Ann("int"))])
                hosts[0].inner.append(twin)
        for _ in range(rng.randrange(0, 2)):
            m.enums.append(Enum_(names.fresh("enum"), [names.fresh("member") for _ in range(rng.randrange(0, 4))],
                                 doc="Enum doc." if docs and rng.random() < 0.5 else ""))
            if len(m.enums[-1].members) == 3:   # no random draw: keeps the rest of the stream as it was
                k = m.enums[-1].name.lower()
                m.enums[-1].body_extra = ENUM_BODY_EXTRA.replace("{k}", k)
        for _ in range(rng.randrange(1, 5)):
            m.funcs.append(gen_func(rng, names, refs_here if cross_refs else [], [tv], private=rng.random() < 0.2, docs=docs,
                                    keywords=keywords, doc_types=doc_types))
        mods.append(m)
        if not private_mod:
            all_public_classes += [r for r in refs_here if r not in imported_here]
    # re-exports: only declarations that reference builtins (A32 is a recorded finding region)
    if reexports:
        for m in mods:
            pkg_dotted = m.dotted.rsplit(".", 1)[0]
            init = next(i for i in inits if i.dotted == pkg_dotted)
            modname = m.dotted.rsplit(".", 1)[1]
            simple_funcs = [f for f in m.funcs if not f.name.startswith("_") and all(
                a.kind not in ("ref", "generic") for p in f.params if p.ann for a in p.ann.walk()) and (
                f.ret is None or all(a.kind not in ("ref", "generic") for a in f.ret.walk()))]
            if simple_funcs and rng.random() < 0.5:
                f = rng.choice(simple_funcs)
                if rng.random() < 0.3:
                    alias = names.fresh("func")
                    init.lines.append(f"from .{modname} import {f.name} as {alias}")
                    init.reexports.append(("alias", m.dotted, f.name, alias))
                else:
                    init.lines.append(f"from .{modname} import {f.name}")
                    init.reexports.append(("name", m.dotted, f.name, None))
    # a private function re-exported under a public alias, in a module that also has a class with a private method of the
    # same name (the method stays private, the function becomes public through the alias)
    if reexports and rng.random() < 0.3:
        cands = [m for m in mods if m.classes and not any(seg.startswith("_") for seg in m.dotted.split(".")[1:-1])]
        if cands:
            m = rng.choice(cands)
            pkg_dotted = m.dotted.rsplit(".", 1)[0]
            init = next(i for i in inits if i.dotted == pkg_dotted)
            modname = m.dotted.rsplit(".", 1)[1]
            pname = "_" + names.fresh("func")
            alias = names.fresh("func")
            m.funcs.append(Func(pname, [], ret=Ann("int")))
            m.classes[-1].methods.append(Func(pname, [], ret=Ann("int")))
            init.lines.append(f"from .{modname} import {pname} as {alias}")
            init.reexports.append(("alias", m.dotted, pname, alias))
    # a simple class re-exported by two packages of different depth (the deeper one has the shorter path string) and
    # referenced from another module
    if reexports and subpackage and rng.random() < 0.5 and len(mods) >= 2:
        long_name = f"public_interface_layer_{names.num()}{tag}"
        deep_dir, deep_dotted = f"{dirs[1][0]}/d{names.num()}", f"{dirs[1][1]}.d{names.n:03d}"
        deep_dir = f"{dirs[1][0]}/d{names.n:03d}"
        shared = Cls(names.fresh("cls"), methods=[Func(names.fresh("func"), [], ret=Ann("int")),
                                                  Func(f"make_{names.n:03d}{tag}", [], ret=Ann("int"), deco="static")])
        hname = "_" + names.fresh("mod").lstrip("_")
        deep_home = rng.random() < 0.7     # a home below the re-exporting package: the class moves there; otherwise it stays
        hd, hdd = dirs[1] if deep_home else dirs[0]
        home = Module(f"{hd}/{hname}.py", f"{hdd}.{hname}")
        mods.append(home)
        user = next((m for m in mods if m is not home and not m.path.split("/")[-1].startswith("_")), None)
        if home is not None and user is not None:
            home.classes.append(shared)
            li = Init(f"{root}/{long_name}/__init__.py", f"{root}.{long_name}", lines=[f"from {home.dotted} import {shared.name}"],
                      reexports=[("name" if deep_home else "stay", home.dotted, shared.name, None)])
            di = Init(f"{deep_dir}/__init__.py", deep_dotted, lines=[f"from {home.dotted} import {shared.name}"],
                      reexports=[])      # the shallower package is the one that declares it
            inits += [li, di]
            for d_, dd_ in ((f"{root}/{long_name}", f"{root}.{long_name}"), (deep_dir, deep_dotted)):
                filler = Module(f"{d_}/{names.fresh('mod').lstrip('_')}.py", "")
                filler.dotted = dd_ + "." + filler.path.rsplit("/", 1)[1][:-3]
                filler.funcs.append(Func(names.fresh("func"), [], ret=Ann("int")))
                mods.append(filler)
            user.imports.append(f"from {home.dotted} import {shared.name}")
            user.funcs.append(Func(names.fresh("func"), [Param(names.fresh("param"), "pos", Ann("ref", name=shared.name, module=home.dotted))],
                                   ret=Ann("int")))
    # a sub-package module with the same (private) file name as a re-exported module of the parent package
    if reuse and len(dirs) > 1:
        for init in inits:
            if init.dotted != root:
                continue
            for kind, moddotted, fname, alias in list(init.reexports):
                mname = moddotted.rsplit(".", 1)[1]
                subd, subdd = dirs[1]
                if mname.startswith("_") and moddotted.rsplit(".", 1)[0] == root and not any(m.path == f"{subd}/{mname}.py" for m in mods):
                    twin = Module(f"{subd}/{mname}.py", f"{subdd}.{mname}")
                    twin.funcs.append(Func(fname, [], ret=Ann("int")))      # same declaration name as the re-exported one
                    twin.funcs.append(Func(names.fresh("func"), [], ret=Ann("int")))
                    twin.classes.append(Cls(names.fresh("cls"), methods=[Func(names.fresh("func"), [], ret=Ann("int"))]))
                    mods.append(twin)
                    break
    # suffix stress: a private declaration whose name is a suffix of a re-exported name lives in another module of the
    # same package; the unchanged tool tells them apart by the qualified name
    for init in inits:
        for kind, moddotted, fname, alias in list(init.reexports):
            if kind == "stay":
                continue
            parts = fname.rsplit("_", 1)
            if len(parts) == 2 and parts[1] and rng.random() < 0.8:
                others = [m for m in mods if m.dotted != moddotted and m.dotted.rsplit(".", 1)[0] == init.dotted]
                if others:
                    om = rng.choice(others)
                    pname = "_" + parts[1]
                    if rng.random() < 0.5 or not om.classes:
                        om.funcs.append(Func(pname, [], ret=Ann("int")))
                    else:
                        om.classes[0].methods.append(Func(pname, [], ret=Ann("int")))
    # a class that derives from enum.Flag (an enum for mypy, a class for the tool, which tests the direct bases Enum / IntEnum)
    # and has a method; a plain class named like an enum of another module
    pub_here = [m for m in mods if m.dotted and not any(seg.startswith("_") for seg in m.dotted.split(".")[1:])]
    if idx % 3 == 1 and pub_here:
        k_ = f"{names.num()}{tag}"
        pub_here[0].classes.append(Cls(f"Perm{k_}", bases=["Flag"], base_refs=[("Flag", "enum", False)],
                                       attrs=[Attr(f"READ_{k_}", None, "1"), Attr(f"WRITE_{k_}", None, "2")],
                                       methods=[Func(f"describe_{k_}", [], ret=Ann("str"))]))
    if idx % 4 == 2:
        with_enum = [m for m in mods if m.enums]
        others = [m for m in pub_here if with_enum and m is not with_enum[0] and all(c.name != with_enum[0].enums[0].name for c in m.classes)]
        if with_enum and others:
            k_ = f"{names.num()}{tag}"
            others[0].classes.append(Cls(with_enum[0].enums[0].name, attrs=[Attr(f"level_{k_}", Ann("int"), "1")],
                                         methods=[Func(f"reach_{k_}", [], ret=Ann("int"))]))
    if result_name_grid:
        # every pattern of named / unnamed entries in the Returns section of functions that return tuples of two and three
        gm = Module(f"{root}/result_names_{names.num()}{tag}.py", f"{root}.result_names_{names.n:03d}{tag}")
        for n_res in (2, 3):
            kinds = ["int", "str", "float"][:n_res]
            for mask in range(2 ** n_res):
                f = Func(f"rn{n_res}m{mask}x{names.num()}{tag}", [], ret=Ann("tuple", args=[Ann(k) for k in kinds]))
                f.doc = f"Doc of {f.name}."
                f.result_docs = [((f"res{i}_{f.name}" if mask >> i & 1 else ""), kinds[i], f"Result {i} of {f.name}.") for i in range(n_res)]
                gm.funcs.append(f)
        mods.append(gm)
    # one class name defined (and instantiated) in two modules, and a third module that derives from one of them through a
    # module alias: the name is in the alias table with two candidates, neither of them in the deriving module
    pubmods = [m for m in mods if m.dotted and not any(seg.startswith("_") for seg in m.dotted.split(".")[1:])]
    if reuse and len(pubmods) >= 2 and rng.random() < 0.4:
        ma, mb = rng.sample(pubmods, 2)
        bname = f"SharedBase{names.num()}{tag}"
        for mm in (ma, mb):
            mm.classes.append(Cls(bname, methods=[Func(names.fresh("func"), [], ret=Ann("int"))]))
            mm.funcs.append(Func(names.fresh("func"), [], ret=Ann("int"), body=f"made = {bname}()\nreturn 1 if made else 0"))
        udir = ma.path.rsplit("/", 1)[0]
        uname = names.fresh("mod").lstrip("_")
        mb_short = mb.dotted.rsplit(".", 1)[1]
        if mb.path.rsplit("/", 1)[0] != udir and not any(m_.path == f"{udir}/{mb_short}.py" for m_ in mods):
            uname = mb_short     # the deriving module is named like the module of the OTHER candidate (in another directory)
        user = Module(f"{udir}/{uname}.py", f"{ma.dotted.rsplit('.', 1)[0]}.{uname}")
        alias = f"sh{names.num()}"
        user.imports.append(f"import {ma.dotted} as {alias}")
        sub = Cls(names.fresh("cls"), bases=[f"{alias}.{bname}"], base_refs=[(bname, ma.dotted, False)],
                  methods=[Func(names.fresh("func"), [], ret=Ann("int"))])
        user.classes.append(sub)
        mods.append(user)
        # a second user imports, before the base itself, a class whose name ends with the base's name
        ma.classes.append(Cls("Abstract" + bname, methods=[Func(names.fresh("func"), [], ret=Ann("int"))]))
        uname2 = names.fresh("mod").lstrip("_")
        user2 = Module(f"{udir}/{uname2}.py", f"{ma.dotted.rsplit('.', 1)[0]}.{uname2}")
        user2.imports.append(f"from {ma.dotted} import Abstract{bname}, {bname}")
        user2.classes.append(Cls(names.fresh("cls"), bases=[bname], base_refs=[(bname, ma.dotted, False)],
                                 methods=[Func(names.fresh("func"), [], ret=Ann("int"))]))
        mods.append(user2)
    return Package(root, mods, inits, style)
