"""Shared harness code: S-expression codec, model driver invocation, evidence writing, verdicts."""
from __future__ import annotations

import json
import os
import random
import subprocess
import sys
import time
from pathlib import Path

VERIF = Path(__file__).resolve().parent.parent
COQ = VERIF / "coq"
DRIVER = COQ / "Extract" / "ml" / "model_driver"
REPO = Path(os.environ.get("VERIF_REPO", "/repo"))   # the registered checks never set VERIF_REPO: they read /repo itself

# the implementation is always imported from the current working tree of /repo
if str(REPO / "src") not in sys.path:
    sys.path.insert(0, str(REPO / "src"))


# ---------------------------------------------------------------------------------------------------------
# S-expressions with hex atoms
def sx(obj) -> str:
    if isinstance(obj, bool):
        return "#31" if obj else "#30"
    if isinstance(obj, int):
        return "#" + str(obj).encode().hex()
    if isinstance(obj, str):
        return "#" + obj.encode("utf-8", "surrogatepass").hex()
    if isinstance(obj, bytes):
        return "#" + obj.hex()
    if obj is None:
        return "()"
    if isinstance(obj, list | tuple):
        return "(" + " ".join(sx(o) for o in obj) + ")"
    raise TypeError(f"cannot encode {type(obj)}")


def opt(x):
    """option encoding: () for None, (v) otherwise"""
    return [] if x is None else [x]


def parse_sx(text: str):
    pos = 0
    n = len(text)
    stack: list[list] = [[]]
    while pos < n:
        c = text[pos]
        if c == "(":
            stack.append([])
            pos += 1
        elif c == ")":
            top = stack.pop()
            stack[-1].append(top)
            pos += 1
        elif c == "#":
            j = pos + 1
            while j < n and text[j] in "0123456789abcdef":
                j += 1
            stack[-1].append(bytes.fromhex(text[pos + 1 : j]).decode("utf-8", "surrogatepass"))
            pos = j
        else:
            pos += 1
    assert len(stack) == 1 and len(stack[0]) == 1, text[:200]
    return stack[0][0]


# a sample of (case line, raw answer of the extracted program) kept for the in-Coq cross-check of the extraction
SAMPLE: list[tuple[str, str]] = []
SAMPLE_MAX = 40
SAMPLE_LINE_MAX = 6000


def coq_eval(lines: list[str], tag: str = "x") -> list[str] | None:
    """evaluate run_line on the given lines inside Coq (vm_compute), return the answers, None if coqc fails"""
    import re
    work = VERIF / ".work"
    work.mkdir(exist_ok=True)
    f = work / f"cases_{tag}_{os.getpid()}.v"
    body = ";\n  ".join('"' + ln + '"' for ln in lines)
    f.write_text("From Coq Require Import List String.\nFrom SV Require Import Lib.Str Driver.Driver.\nImport ListNotations.\nOpen Scope string_scope.\n"
                 f"Definition inputs : list string := [\n  {body}].\n"
                 "Eval vm_compute in (map (fun s => string_of_list_ascii (run_line (list_ascii_of_string s))) inputs).\n")
    try:
        r = subprocess.run(["timeout", "300", "coqc", "-R", str(COQ), "SV", str(f)], capture_output=True, text=True, cwd=str(work))
    finally:
        for ext in (".v", ".vo", ".vok", ".vos", ".glob"):
            try:
                f.with_suffix(ext).unlink()
            except OSError:
                pass
        try:
            (work / ("." + f.stem + ".aux")).unlink()
        except OSError:
            pass
    if r.returncode != 0:
        return None
    return re.findall(r'"([^"]*)"', r.stdout)


def run_model(cases: list[str], shards: int = 8) -> list:
    """Run the extracted model on the given case lines, return the parsed answers (same order)."""
    if not cases:
        return []
    if not DRIVER.exists():
        raise RuntimeError("model driver not built; run ./setup.sh")
    total = sum(len(c) for c in cases)
    shards = max(1, min(len(cases), max(min(shards, len(cases) // 200 + 1), min(14, total // 400_000))))
    chunks = [cases[i::shards] for i in range(shards)]
    procs = []
    for ch in chunks:
        p = subprocess.Popen([str(DRIVER)], stdin=subprocess.PIPE, stdout=subprocess.PIPE, text=True)
        procs.append((p, ch))
    outs = []
    # feed sequentially with communicate in threads to avoid deadlocks
    import threading

    results: list[list[str] | None] = [None] * len(procs)

    def work(i, p, ch):
        out, _ = p.communicate("\n".join(ch) + "\n")
        results[i] = out.split("\n")

    ths = [threading.Thread(target=work, args=(i, p, ch)) for i, (p, ch) in enumerate(procs)]
    for t in ths:
        t.start()
    for t in ths:
        t.join()
    for i, (p, ch) in enumerate(procs):
        if p.returncode != 0:
            raise RuntimeError(f"model driver failed with code {p.returncode}")
        lines = results[i]
        assert lines is not None
        if len(lines) < len(ch):
            raise RuntimeError("model driver produced too few answers")
    merged = [None] * len(cases)
    for s in range(shards):
        lines = results[s]
        for k, idx in enumerate(range(s, len(cases), shards)):
            merged[idx] = lines[k]  # type: ignore[index]
    if len(SAMPLE) < SAMPLE_MAX:
        step = max(1, len(cases) // 8)
        for i in range(0, len(cases), step):
            if len(SAMPLE) < SAMPLE_MAX and len(cases[i]) <= SAMPLE_LINE_MAX and len(merged[i] or "") <= SAMPLE_LINE_MAX:
                SAMPLE.append((cases[i], merged[i]))
    return [parse_sx(x) for x in merged]  # type: ignore[arg-type]


def run_model_raw(cases: list[str]) -> list[str]:
    out = subprocess.run([str(DRIVER)], input="\n".join(cases) + "\n", capture_output=True, text=True, check=True).stdout
    return out.split("\n")[: len(cases)]


# ---------------------------------------------------------------------------------------------------------
# encoders for implementation values
def lit_sx(v):
    if isinstance(v, bool):
        return ["b", v]
    if isinstance(v, int):
        return ["i", v]
    if isinstance(v, float):
        return ["f", repr(v)]
    if isinstance(v, str):
        return ["s", v]
    if v is None:
        return ["n"]
    raise TypeError(f"literal {v!r}")


def ty_sx(t):
    """AbstractType object -> S-expression tree (python lists)"""
    import safeds_stubgen.api_analyzer._types as T

    if isinstance(t, T.UnknownType):
        return ["U"]
    if isinstance(t, T.NamedType):
        return ["N", t.name, t.qname]
    if isinstance(t, T.NamedSequenceType):
        return ["NS", t.name, t.qname, [ty_sx(x) for x in t.types]]
    if isinstance(t, T.EnumType):
        return ["E", sorted(t.values)]
    if isinstance(t, T.BoundaryType):
        return ["B", t.base_type, lit_sx(t.min), lit_sx(t.max), t.min_inclusive, t.max_inclusive]
    if isinstance(t, T.UnionType):
        return ["Un", [ty_sx(x) for x in t.types]]
    if isinstance(t, T.ListType):
        return ["Li", [ty_sx(x) for x in t.types]]
    if isinstance(t, T.SetType):
        return ["S", [ty_sx(x) for x in t.types]]
    if isinstance(t, T.TupleType):
        return ["T", [ty_sx(x) for x in t.types]]
    if isinstance(t, T.LiteralType):
        return ["Lit", [lit_sx(x) for x in t.literals]]
    if isinstance(t, T.FinalType):
        return ["F", [ty_sx(t.type_)]]
    if isinstance(t, T.DictType):
        return ["D", [ty_sx(t.key_type)], [ty_sx(t.value_type)]]
    if isinstance(t, T.CallableType):
        return ["C", [ty_sx(x) for x in t.parameter_types], [ty_sx(t.return_type)]]
    if isinstance(t, T.TypeVarType):
        return ["TV", t.name, [] if t.upper_bound is None else [ty_sx(t.upper_bound)]]
    raise TypeError(f"type {t!r}")


def jv_tree(v):
    """python value -> the tree the model prints for a jv (after parse_sx)"""
    if v is None:
        return ["none"]
    if isinstance(v, bool):
        return ["b", "1" if v else "0"]
    if isinstance(v, int):
        return ["i", str(v)]
    if isinstance(v, float):
        return ["f", repr(v)]
    if isinstance(v, str):
        return ["s", v]
    if isinstance(v, list | tuple):
        return ["l", *[jv_tree(x) for x in v]]
    if isinstance(v, set | frozenset):
        return ["set", *sorted((jv_tree(x) for x in v), key=repr)]
    if isinstance(v, dict):
        return ["d", *[[k, jv_tree(x)] for k, x in v.items()]]
    raise TypeError(f"jv {v!r}")


def canon_jv_tree(t):
    """sort the members of sets so that set order does not matter"""
    if isinstance(t, list) and t and t[0] == "set":
        return ["set", *sorted((canon_jv_tree(x) for x in t[1:]), key=repr)]
    if isinstance(t, list):
        return [canon_jv_tree(x) for x in t]
    return t


# ---------------------------------------------------------------------------------------------------------
class Rng(random.Random):
    pass


def seed_from_env(default: int = 20260929) -> int:
    try:
        return int(os.environ.get("VERIF_SEED", default))
    except ValueError:
        return default


def tier_from_env(arg: str | None = None) -> str:
    t = os.environ.get("VERIF_TIER") or arg or "quick"
    return t if t in ("quick", "thorough") else "quick"


class Timer:
    def __init__(self):
        self.t0 = time.time()

    def s(self) -> float:
        return round(time.time() - self.t0, 3)


def write_json(path: Path, data) -> None:
    path.parent.mkdir(parents=True, exist_ok=True)
    tmp = path.with_suffix(path.suffix + ".tmp")
    tmp.write_text(json.dumps(data, indent=1, default=str))
    tmp.replace(path)
