"""Generator of API objects (L1): real safeds_stubgen API values built directly, without the analyzer.

Shapes are those the analyzer can produce (ids prefix-consistent, re-export map keyed by import names, types of the 12
reachable kinds), with names chosen to stress the generator's string heuristics: same simple names in different places,
shared last path components, keywords and names that become keywords after conversion, snake_case and CamelCase."""
from __future__ import annotations

import random

import vlib  # noqa: F401
import safeds_stubgen.api_analyzer._types as T
from safeds_stubgen.api_analyzer._api import (API, Attribute, Class, Enum, EnumInstance, Function, Module, Parameter,
                                              ParameterAssignment, QualifiedImport, Result, TypeParameter, UnknownValue,
                                              VarianceKind, WildcardImport)
from safeds_stubgen.docstring_parsing import (AttributeDocstring, ClassDocstring, FunctionDocstring, ParameterDocstring,
                                              ResultDocstring)

KW = ["annotation", "attr", "const", "enum", "fun", "internal", "literal", "out", "package", "pipeline", "private", "schema",
      "static", "segment", "sub", "this", "union", "unknown", "val", "where", "false", "true", "null"]
BECOME_KW = ["from_", "in_", "class_", "or_", "_from", "not_", "import_", "yield_", "and_", "as_", "val_"]
FOREIGN = ["logging.handlers.SocketHandler", "wsgiref.handlers.SimpleHandler", "collections.OrderedDict", "abc.ABC",
           "numpy.ndarray", "pathlib.Path", "os.PathLike", "xml.dom.Node", "my_lib.some_mod.snake_class",
           # several classes of one library module, lower- and upper-case, and a sub-module whose class sorts in between
           "extlib.Axis", "extlib.frame", "extlib.grid.Mesh", "extlib.series", "datetime.date", "datetime.time", "datetime.timedelta",
           "numpy.dtype", "numpy.ma.MaskedArray", "logging.handlers.RotatingFileHandler", "wsgiref.handlers.BaseHandler"]
# groups that are used together, so that one API object refers to several classes of the same library module
FOREIGN_GROUPS = [["extlib.Axis", "extlib.frame", "extlib.grid.Mesh", "extlib.series"],
                  ["datetime.date", "datetime.time", "datetime.timedelta"],
                  ["numpy.dtype", "numpy.ma.MaskedArray", "numpy.ndarray"],
                  ["logging.handlers.RotatingFileHandler", "wsgiref.handlers.BaseHandler", "logging.handlers.SocketHandler"]]


class G:
    def __init__(self, rng: random.Random, tag: str):
        self.rng = rng
        self.tag = tag
        self.n = 0
        self.classes: list[Class] = []       # all classes (for references)
        self.foreign_pool = list(FOREIGN)
        self.group = None
        if rng.random() < 0.5:
            self.group = rng.choice(FOREIGN_GROUPS)
            self.foreign_pool = self.group * 4 + FOREIGN[:4]

    def num(self):
        self.n += 1
        return f"{self.n:03d}{self.tag}"

    def name(self, kind: str, private=False) -> str:
        r = self.rng.random()
        if kind == "param" and r < 0.25:
            return self.rng.choice(KW + BECOME_KW)
        if kind in ("attr", "method", "member") and r < 0.1:
            return self.rng.choice(KW + BECOME_KW)
        base = {"func": ["calc_value_", "run", "get_x_y_", "doIt"], "cls": ["Widget", "DataHolder", "HTTPServer", "C"],
                "attr": ["count_", "max_val_", "a", "someAttr"], "param": ["p", "arg_", "some_param_", "_", "__"], "method": ["do_", "m", "getX"],
                "enum": ["Color", "ModeKind"], "member": ["RED_", "low_val_", "M"], "mod": ["mod_", "helpers_", "m"], "tv": ["T", "T_co"]}[kind]
        n = self.rng.choice(base) + self.num()
        return "_" + n if private else n

    # ---- types ----
    def named(self) -> T.AbstractType:
        r = self.rng.random()
        if r < 0.45:
            b = self.rng.choice(["int", "str", "bool", "float", "None"])
            return T.NamedType(b, "builtins." + b)
        if r < 0.5:
            return T.NamedType("Any", "typing.Any")
        if r < 0.8 and self.classes:
            c = self.rng.choice(self.classes)
            return T.NamedType(c.name, c.id.replace("/", "."))
        q = self.rng.choice(self.foreign_pool)
        return T.NamedType(q.split(".")[-1], q)

    def ty(self, depth: int) -> T.AbstractType:
        rng = self.rng
        if depth <= 0 or rng.random() < 0.3:
            r = rng.random()
            if r < 0.75:
                return self.named()
            if r < 0.9:
                return T.LiteralType([rng.choice(["a", "b c", 1, -2, True, False, 1.5, 'q"t', "b\\s", "l1\nl2", "t\tb", "*/"]) for _ in range(rng.randrange(1, 4))])
            return T.TypeVarType(rng.choice(["T", "T_co", "in_"]))
        k = rng.randrange(9)
        sub = lambda: self.ty(depth - 1)  # noqa: E731
        subs = lambda a, b: [sub() for _ in range(rng.randrange(a, b))]  # noqa: E731
        if k == 0:
            return T.ListType(subs(0, 3))
        if k == 1:
            return T.SetType(subs(0, 3))
        if k == 2:
            return T.TupleType(subs(0, 4))
        if k == 3:
            members = subs(1, 4)
            if rng.random() < 0.4:
                members.append(T.NamedType("None", "builtins.None"))
            if rng.random() < 0.3 and members:
                # a member written differently but meaning the same
                m = members[0]
                if isinstance(m, T.ListType):
                    members.append(T.ListType(list(reversed(m.types))) if len(m.types) != 1 else T.ListType(list(m.types)))
                else:
                    members.append(m)
            rng.shuffle(members)
            return T.UnionType(members)
        if k == 4:
            return T.DictType(sub(), sub())
        if k == 5:
            return T.CallableType(subs(0, 3), sub())
        if k == 6:
            return T.FinalType(sub())
        if k == 7:
            c = self.rng.choice(self.classes) if self.classes and rng.random() < 0.6 else None
            if c is not None:
                return T.NamedSequenceType(c.name, c.id.replace("/", "."), subs(1, 3))
            return T.NamedSequenceType("Mapping2", "my_lib.Mapping2", subs(0, 3))
        return T.UnionType([T.LiteralType(["x"]), T.LiteralType([2]), sub()])

    # ---- pieces ----
    def pdoc(self) -> ParameterDocstring:
        rng = self.rng
        return ParameterDocstring(type=None, default_value="", description=rng.choice(["", "", "About it.", "Line one.\nLine two.\n\nLast.", "Glob a/*/b and **/ too.", "*/"]))

    def params(self, fid: str, receiver: str | None) -> list[Parameter]:
        rng = self.rng
        ps = []
        if receiver:
            ps.append(Parameter(f"{fid}/{receiver}", receiver, False, None, ParameterAssignment.IMPLICIT, ParameterDocstring(), None))
        used = set()
        for _ in range(rng.randrange(0, 5)):
            n = self.name("param")
            if n in used:
                continue
            used.add(n)
            kind = rng.choice([ParameterAssignment.POSITION_ONLY, ParameterAssignment.POSITION_OR_NAME, ParameterAssignment.POSITION_OR_NAME,
                               ParameterAssignment.POSITIONAL_VARARG, ParameterAssignment.NAME_ONLY, ParameterAssignment.NAMED_VARARG])
            ty = self.ty(2) if rng.random() < 0.8 else None
            if kind == ParameterAssignment.POSITIONAL_VARARG and ty is not None and rng.random() < 0.7:
                ty = T.TupleType([self.ty(1)])
            dv = None
            opt = False
            if kind in (ParameterAssignment.POSITION_ONLY, ParameterAssignment.POSITION_OR_NAME, ParameterAssignment.NAME_ONLY) and rng.random() < 0.4:
                dv = rng.choice([1, -7, 1.5, '"txt"', True, False, None, UnknownValue(), 12345678901234567890, '""',
                                 '"say "hi""', '"C:\\dir\\"', '"two\nlines"', '"tab\there"', '"*/"', '"\r"', '"\\"', '"""'])     # always "..."-wrapped, as the analyzer builds them
                opt = True
            ps.append(Parameter(f"{fid}/{n}", n, opt, dv, kind, self.pdoc(), ty))
        return ps

    def func(self, owner_id: str, *, method=False, name=None, reexported_by=None) -> Function:
        rng = self.rng
        n = name or self.name("method" if method else "func", private=rng.random() < 0.15)
        fid = f"{owner_id}/{n}"
        static = method and rng.random() < 0.2
        classm = method and not static and rng.random() < 0.15
        prop = method and not static and not classm and rng.random() < 0.15
        ps = self.params(fid, None if (not method or static) else ("cls" if classm else "self"))
        results = []
        r = rng.random()
        if r < 0.15:
            results = [Result(f"{fid}/result_1", "result_1", T.NamedType("None", "builtins.None"))]
        elif r < 0.75:
            k = 1 if rng.random() < 0.8 else rng.randrange(2, 4)
            for i in range(k):
                rn = f"result_{i + 1}" if rng.random() < 0.8 else self.name("param")
                results.append(Result(f"{fid}/{rn}", rn, self.ty(2)))
        tvs = []
        if rng.random() < 0.4:
            tvs = [T.TypeVarType(rng.choice(["T", "T_co", "in_"]), self.ty(1) if rng.random() < 0.3 else None)]
        rdocs = []
        if rng.random() < 0.3:
            rdocs = [ResultDocstring(type=None, description=rng.choice(["", "The result.", "All of x/*/y.\n*/"]), name=rng.choice(["", "named_res"]))
                     for _ in range(rng.randrange(1, 3))]
        doc = FunctionDocstring(description=rng.choice(["", "", f"Doc of {n}.", f"Doc of {n}.\n\nMore.", f"Doc of {n} with */ inside.\n/* and */"]), full_docstring="",
                                examples=rng.choice([[], [], [">>> a = 1\n>>> b >>> 2\n... c\nout"],
                                                     [">>> glob.glob('src/*/test_*.py')\n... # */ and /* too\n['src/a/test_b.py']"]]))
        return Function(id=fid, name=n, docstring=doc, is_public=rng.random() < 0.85, is_static=static, is_class_method=classm,
                        is_property=prop, result_docstrings=rdocs, type_var_types=tvs, results=results,
                        reexported_by=reexported_by or [], parameters=ps)

    def cls(self, owner_id: str, depth: int, *, name=None, private=False, supers=None, reexported_by=None) -> Class:
        rng = self.rng
        n = name or self.name("cls", private=private)
        cid = f"{owner_id}/{n}"
        c = Class(id=cid, name=n, superclasses=list(supers or []), is_public=(not n.startswith("_")) and rng.random() < 0.95,
                  docstring=ClassDocstring(description=rng.choice(["", f"Doc of class {n}.", f"Doc of class {n}: ***/ **/"])), reexported_by=reexported_by or [])
        self.classes.append(c)
        used = set()
        for _ in range(rng.randrange(0, 4)):
            an = self.name("attr", private=rng.random() < 0.2)
            if an in used:
                continue
            used.add(an)
            c.attributes.append(Attribute(f"{cid}/{an}", an, (not an.startswith("_")) and c.is_public, rng.random() < 0.6,
                                          self.ty(2) if rng.random() < 0.8 else None,
                                          AttributeDocstring(type=None, description=rng.choice(["", "An attribute."]))))
        if rng.random() < 0.5:
            k = Function(id=f"{cid}/__init__", name="__init__", docstring=FunctionDocstring(), is_public=c.is_public, is_static=False,
                         is_class_method=False, is_property=False, result_docstrings=[], parameters=self.params(f"{cid}/__init__", "self"))
            if rng.random() < 0.2:
                k.type_var_types = [T.TypeVarType("T")]
            c.constructor = k
        for _ in range(rng.randrange(0, 4)):
            m = self.func(cid, method=True)
            if m.name not in used:
                used.add(m.name)
                m.is_public = m.is_public and c.is_public and not m.name.startswith("_")
                c.methods.append(m)
        if rng.random() < 0.4:
            tps = []
            for tn in rng.sample(["T", "T_co", "in_"], rng.randrange(1, 3)):
                tps.append(TypeParameter(tn, self.ty(1) if rng.random() < 0.4 else None,
                                         rng.choice([VarianceKind.INVARIANT, VarianceKind.COVARIANT, VarianceKind.CONTRAVARIANT])))
            c.type_parameters = tps
        if depth > 0 and rng.random() < 0.35:
            c.classes.append(self.cls(cid, depth - 1, private=rng.random() < 0.2))
        return c


def gen_api(rng: random.Random, idx: int) -> API:
    tag = f"x{idx}"
    g = G(rng, tag)
    root = f"pkg{tag}"
    api = API("", root, "")
    pkgs = [root]
    if rng.random() < 0.7:
        pkgs.append(f"{root}/{rng.choice(['core', 'subpkg', 'io_' + g.num(), '_impl'])}")
        if rng.random() < 0.5:
            pkgs.append(f"{pkgs[-1]}/{rng.choice(['deep', 'io', 'v1'])}")
        if rng.random() < 0.5:
            # a sibling package with a long name: fewer segments but more characters than the deep one
            pkgs.append(f"{root}/{rng.choice(['public_interface_layer', 'inventory_management_api'])}")
    inits = {p: Module(id_=p, name="__init__") for p in pkgs}
    modules: list[Module] = []
    all_private: list[Class] = []
    used_seg_names: set[str] = set()
    nmods = rng.randrange(1, 5)
    for mi in range(nmods):
        pk = rng.choice(pkgs)
        mname = g.name("mod", private=rng.random() < 0.3)
        if rng.random() < 0.1:
            mname = "__" + mname.lstrip("_")
        m = Module(id_=f"{pk}/{mname}", name=mname, docstring=rng.choice(["", f"Module doc of {mname}.", "Tricky\n\n\nspacing"]))
        modules.append(m)
        # classes: a possible private base chain, a nested class that reuses the private base's name
        n_cls = rng.randrange(0, 4)
        priv_bases: list[Class] = []
        for ci in range(n_cls):
            supers = []
            private = rng.random() < 0.3
            if priv_bases and rng.random() < 0.6:
                b = rng.choice(priv_bases)
                supers.append(b.id.replace("/", "."))
            if g.classes and rng.random() < 0.3:
                b = rng.choice(g.classes)
                if not b.name.startswith("_") and b.id.replace("/", ".") not in supers:
                    supers.append(b.id.replace("/", "."))
            if rng.random() < 0.15:
                supers.append(rng.choice(FOREIGN))
            # private classes of other modules as bases (also two of them that share their simple name)
            others = [b for b in all_private if not b.id.startswith(m.id + "/")]
            if others and rng.random() < 0.35:
                b = rng.choice(others)
                if b.id.replace("/", ".") not in supers:
                    supers.append(b.id.replace("/", "."))
            twin = None
            if private and others and rng.random() < 0.4:
                twin = rng.choice(others).name       # a private class named like a private class of another module
                if any(x.name == twin for x in m.classes):
                    twin = None
            c = g.cls(m.id, 1, name=twin, private=private, supers=supers)
            m.classes.append(c)
            if c.name.startswith("_"):
                priv_bases.append(c)
                all_private.append(c)
        if priv_bases and m.classes and rng.random() < 0.5:
            host = m.classes[0]
            if not host.name.startswith("_") or True:
                nested = g.cls(host.id, 0, name=rng.choice(priv_bases).name)
                host.classes.append(nested)
        for _ in range(rng.randrange(0, 4)):
            # now and then a function is named like a package on its own path (it may be re-exported into that package)
            seg_name = rng.choice(pk.split("/")) if rng.random() < 0.12 else None
            if seg_name and (seg_name in used_seg_names or any(f.name == seg_name for f in m.global_functions)):
                seg_name = None      # one declaration per package-segment name: two of them re-exported into one package would
                                     # share a stub path (a defect of the tool that is outside this stream, DESIGN 8.3)
            if seg_name:
                used_seg_names.add(seg_name)
            m.global_functions.append(g.func(m.id, name=seg_name))
        for _ in range(rng.randrange(0, 2)):
            e = Enum(f"{m.id}/{g.name('enum')}", "", ClassDocstring(description=rng.choice(["", "Enum doc."])))
            e.name = e.id.split("/")[-1]
            for _k in range(rng.randrange(0, 4)):
                mn = g.name("member")
                e.instances.append(EnumInstance(f"{e.id}/{mn}", mn))
            m.enums.append(e)
    if g.group and modules:
        # one function that refers to every class of the chosen library group
        m0 = modules[0]
        fid = f"{m0.id}/uses_library_{tag}"
        ps = [Parameter(f"{fid}/p{k}", f"p{k}", False, None, ParameterAssignment.POSITION_OR_NAME, ParameterDocstring(),
                        T.NamedType(q.split(".")[-1], q)) for k, q in enumerate(g.group)]
        m0.global_functions.append(Function(id=fid, name=f"uses_library_{tag}", docstring=FunctionDocstring(), is_public=True, is_static=False,
                                            is_class_method=False, is_property=False, result_docstrings=[], results=[], parameters=ps))
    # re-exports: name, alias, star, module; registered the way the analyzer does it
    for m in modules:
        pk = "/".join(m.id.split("/")[:-1])
        chain = [p for p in pkgs if pk == p or pk.startswith(p + "/")]
        for target in m.classes + m.global_functions:
            crossing = [(x, y) for x in pkgs for y in pkgs if x.count("/") < y.count("/") and len(x) > len(y)]
            if crossing and rng.random() < 0.4:
                pair = list(rng.choice(crossing))
            elif rng.random() < 0.15:
                pair = rng.sample(pkgs, min(2, len(pkgs)))
            else:
                pair = []
            if pair:
                # re-exported by two packages at once (absolute imports from anywhere in the package)
                for pk2 in pair:
                    init = inits[pk2]
                    init.qualified_imports.append(QualifiedImport(f"{m.id.replace('/', '.')}.{target.name}", None))
                    if init not in target.reexported_by:
                        target.reexported_by.append(init)
            if rng.random() < 0.3 and chain:
                init = inits[rng.choice(chain)]
                alias = g.name("func") if rng.random() < 0.3 else None
                dotted = rng.choice([f"{m.id.replace('/', '.')}.{target.name}", f".{m.name}.{target.name}", f"{m.name}.{target.name}"])
                init.qualified_imports.append(QualifiedImport(dotted, alias))
                target.reexported_by.append(init)
        if rng.random() < 0.15 and chain:
            init = inits[rng.choice(chain)]
            init.wildcard_imports.append(WildcardImport(rng.choice([m.id.replace("/", "."), f".{m.name}", m.name])))
            for target in m.classes + m.global_functions:
                if not target.name.startswith("_") and init not in target.reexported_by:
                    target.reexported_by.append(init)
        if rng.random() < 0.15 and chain:
            init = inits[rng.choice(chain)]
            init.qualified_imports.append(QualifiedImport(rng.choice([m.id.replace("/", "."), m.name]),
                                                          g.name("mod") if rng.random() < 0.3 else None))
    for t in [x for m in modules for x in m.classes + m.global_functions]:
        t.reexported_by.sort(key=lambda x: x.id)
    # register everything the way the visitor does
    for p in pkgs:
        init = inits[p]
        api.add_module(init)
        for qi in init.qualified_imports:
            api.reexport_map[qi.qualified_name].add(init)
        for wi in init.wildcard_imports:
            api.reexport_map[f"{wi.module_name}.*"].add(init)
    def reg_cls(c: Class):
        for ic in c.classes:
            reg_cls(ic)
        api.add_class(c)
        for a in c.attributes:
            api.add_attribute(a)
        for f in c.methods + ([c.constructor] if c.constructor else []):
            api.add_function(f)
    for m in modules:
        for c in m.classes:
            reg_cls(c)
        for f in m.global_functions:
            api.add_function(f)
        for e in m.enums:
            api.add_enum(e)
        api.add_module(m)
    return api


# ---------------------------------------------------------------------------------------------------------------------------
# hand-made shapes (deterministic; run in front of the random stream in both naming settings)
def _fn(owner: str, name: str, *, params=None, results=None, public=True, prop=False, method=False) -> Function:
    fid = f"{owner}/{name}"
    ps = []
    if method:
        ps.append(Parameter(f"{fid}/self", "self", False, None, ParameterAssignment.IMPLICIT, ParameterDocstring(), None))
    for pn, pt in (params or []):
        ps.append(Parameter(f"{fid}/{pn}", pn, False, None, ParameterAssignment.POSITION_OR_NAME, ParameterDocstring(), pt))
    rs = [Result(f"{fid}/result_{i + 1}", f"result_{i + 1}", t) for i, t in enumerate(results or [])]
    return Function(id=fid, name=name, docstring=FunctionDocstring(description=f"Doc of {name}."), is_public=public, is_static=False,
                    is_class_method=False, is_property=prop, result_docstrings=[], results=rs, parameters=ps)


def _cl(owner: str, name: str, *, supers=None, attrs=None, methods=None, public=None) -> Class:
    cid = f"{owner}/{name}"
    pub = (not name.startswith("_")) if public is None else public
    c = Class(id=cid, name=name, superclasses=list(supers or []), is_public=pub, docstring=ClassDocstring(description=f"Doc of class {name}."))
    for an, at in (attrs or []):
        c.attributes.append(Attribute(f"{cid}/{an}", an, pub and not an.startswith("_"), False, at, AttributeDocstring()))
    for m in (methods or []):
        c.methods.append(m(cid))
    return c


def _register(root: str, inits: list[Module], modules: list[Module]) -> API:
    api = API("", root, "")
    for init in inits:
        api.add_module(init)
        for qi in init.qualified_imports:
            api.reexport_map[qi.qualified_name].add(init)
        for wi in init.wildcard_imports:
            api.reexport_map[f"{wi.module_name}.*"].add(init)

    def reg_cls(c: Class):
        for ic in c.classes:
            reg_cls(ic)
        api.add_class(c)
        for a in c.attributes:
            api.add_attribute(a)
        for f in c.methods + ([c.constructor] if c.constructor else []):
            api.add_function(f)
    for m in modules:
        for c in m.classes:
            reg_cls(c)
        for f in m.global_functions:
            api.add_function(f)
        for e in m.enums:
            api.add_enum(e)
        api.add_module(m)
    return api


INT = T.NamedType("int", "builtins.int")
STR = T.NamedType("str", "builtins.str")


def shape_same_name_two_packages() -> API:
    """two different declarations with one name, each re-exported by its own package (two re-export stubs of one base name)"""
    root = "shpa"
    i0, i1, i2 = Module(id_=root, name="__init__"), Module(id_=f"{root}/linear", name="__init__"), Module(id_=f"{root}/tree", name="__init__")
    mods = []
    for init, mn in ((i1, "linear_model"), (i2, "tree_model")):
        m = Module(id_=f"{init.id}/impl/{mn}", name=mn)
        ii = Module(id_=f"{init.id}/impl", name="__init__")
        c = _cl(m.id, "Config", attrs=[("depth_of_" + mn, INT)], methods=[lambda cid: _fn(cid, "describe", results=[STR], method=True)])
        f = _fn(m.id, "build", params=[("size", INT)], results=[INT])
        for t in (c, f):
            init.qualified_imports.append(QualifiedImport(f"{m.id.replace('/', '.')}.{t.name}", None))
            t.reexported_by.append(init)
        m.classes.append(c)
        m.global_functions.append(f)
        m.global_functions.append(_fn(m.id, "stays_" + mn, results=[INT]))
        mods += [ii, m]
    inits = [i0, i1, i2] + [m for m in mods if m.name == "__init__"]
    return _register(root, inits, [m for m in mods if m.name != "__init__"])


def shape_converted_name_collision() -> API:
    """a public subclass whose multi-word attribute overrides a read-only property of its private base; a method whose
    converted name equals the converted name of an inherited one"""
    root = "shpb"
    i0 = Module(id_=root, name="__init__")
    m = Module(id_=f"{root}/estimators", name="estimators")
    base = _cl(m.id, "_BaseEstimator", methods=[
        lambda cid: _fn(cid, "is_fitted", results=[T.NamedType("bool", "builtins.bool")], prop=True, method=True),
        lambda cid: _fn(cid, "row_count", results=[INT], prop=True, method=True),
        lambda cid: _fn(cid, "get_name", results=[STR], method=True),
        lambda cid: _fn(cid, "fit_all", params=[("data", INT)], results=[INT], method=True)])
    q = base.id.replace("/", ".")
    sub1 = _cl(m.id, "Tree", supers=[q], attrs=[("is_fitted", T.NamedType("bool", "builtins.bool")), ("row_count", INT)],
               methods=[lambda cid: _fn(cid, "predict", results=[INT], method=True)])
    sub2 = _cl(m.id, "Forest", supers=[q], methods=[lambda cid: _fn(cid, "get_name", results=[STR], method=True),
                                                     lambda cid: _fn(cid, "fit_all", params=[("data", INT)], results=[INT], method=True)])
    m.classes += [base, sub1, sub2]
    return _register(root, [i0], [m])


def shape_shared_internal_base() -> API:
    """two public classes of different modules derive from one internal class and define the same names themselves; the
    inherited members refer to classes of another module and of another library"""
    root = "shpc"
    i0 = Module(id_=root, name="__init__")
    mh = Module(id_=f"{root}/helpers", name="helpers")
    helper = _cl(mh.id, "Helper", methods=[lambda cid: _fn(cid, "assist", results=[INT], method=True)])
    mh.classes.append(helper)
    mb = Module(id_=f"{root}/_base", name="_base")
    hq = helper.id.replace("/", ".")
    base = _cl(mb.id, "_Base", methods=[
        lambda cid: _fn(cid, "with_helper", params=[("helper", T.NamedType("Helper", hq))], results=[T.NamedType("Helper", hq)], method=True),
        lambda cid: _fn(cid, "amount", results=[T.NamedType("Decimal", "decimal.Decimal")], method=True)])
    mb.classes.append(base)
    bq = base.id.replace("/", ".")
    mods = [mh, mb]
    for mn, cn in (("first_user", "Alpha"), ("second_user", "Beta")):
        mu = Module(id_=f"{root}/{mn}", name=mn)
        mu.classes.append(_cl(mu.id, cn, supers=[bq], methods=[lambda cid: _fn(cid, "describe", results=[STR], method=True)]))
        mods.append(mu)
    return _register(root, [i0], mods)


def shape_literal_or_none_inherited_twice() -> API:
    """a public method of an internal base whose parameter is `Literal["fast"] | None`, copied into two public subclasses: the type
    is rendered twice from one API object (rendering must not change the object)"""
    root = "shpd"
    i0 = Module(id_=root, name="__init__")
    m = Module(id_=f"{root}/modes", name="modes")
    lit_or_none = lambda: T.UnionType([T.LiteralType(["fast"]), T.NamedType("None", "builtins.None")])  # noqa: E731
    base = _cl(m.id, "_Runner", methods=[
        lambda cid: _fn(cid, "run", params=[("mode", lit_or_none())], results=[lit_or_none()], method=True)])
    q = base.id.replace("/", ".")
    m.classes += [base, _cl(m.id, "Quick", supers=[q]), _cl(m.id, "Slow", supers=[q])]
    m.global_functions.append(_fn(m.id, "pick_mode", params=[("mode", lit_or_none())], results=[INT]))
    return _register(root, [i0], [m])


def shape_superclass_by_relative_name() -> API:
    """the superclass of a public class is recorded by a relative dotted name that is not a class id (`core._Base` for the class
    shpe/core/_Base): the generator finds it by its fuzzy search"""
    root = "shpe"
    i0 = Module(id_=root, name="__init__")
    mc = Module(id_=f"{root}/core", name="core")
    base = _cl(mc.id, "_Base", methods=[lambda cid: _fn(cid, "describe", results=[STR], method=True)])
    mc.classes.append(base)
    mu = Module(id_=f"{root}/user", name="user")
    mu.classes.append(_cl(mu.id, "Thing", supers=["core._Base"], methods=[lambda cid: _fn(cid, "size", results=[INT], method=True)]))
    return _register(root, [i0], [mc, mu])


SHAPES = [shape_same_name_two_packages, shape_converted_name_collision, shape_shared_internal_base,
          shape_literal_or_none_inherited_twice, shape_superclass_by_relative_name]
