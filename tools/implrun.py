"""Run the real tool on source trees in worker processes, capturing the 'view' at the library boundaries.

A job is a dict:
  src        : path of the package directory (already on disk)
  out        : output directory or None (None: analysis only)
  docstyle   : plaintext|google|numpydoc|rest
  testrun, nc: bools ; tsp: code|docstring ; tsw: warn|ignore
  gens       : how many times stubs are generated from the same API object (default 1)
  glob_order : None | 'reverse' | int seed  (order in which Path.glob results are handed to the tool)
  capture    : list of extra captures ('calls': record calls of selected visitor functions)
The answer is a dict (see run_job).
"""
from __future__ import annotations

import contextlib
import io
import json
import logging
import multiprocessing as mp
import os
import random
import shutil
import sys
import traceback
from pathlib import Path

import vlib  # noqa: F401

WORK = vlib.VERIF / ".work"


def _innermost_own_frame(tb) -> str:
    frames = traceback.extract_tb(tb)
    own = [f for f in frames if "/safeds_stubgen/" in f.filename]
    if not own:
        return "<outside safeds_stubgen>"
    f = own[-1]
    return f"{Path(f.filename).name}:{f.name}"


class _ListHandler(logging.Handler):
    def __init__(self):
        super().__init__(level=logging.DEBUG)
        self.records: list[tuple[str, str]] = []

    def emit(self, record):
        try:
            self.records.append((record.levelname, record.getMessage()))
        except Exception:  # noqa: BLE001
            self.records.append((record.levelname, "<unformattable>"))


def run_job(job: dict) -> dict:
    """Executed inside a worker process."""
    import mypy.build as mypy_build

    from safeds_stubgen.api_analyzer import TypeSourcePreference, TypeSourceWarning, get_api
    from safeds_stubgen.docstring_parsing import DocstringStyle
    from safeds_stubgen.stubs_generator import StubsStringGenerator, create_stub_files, generate_stub_data

    res: dict = {"exc": None, "glob": [], "graph": [], "api": None, "modules_order": [], "log": [], "stubs": {},
                 "stub_data": [], "gens": [], "api_after": None, "json_text": None}
    src = Path(job["src"])
    out = Path(job["out"]) if job.get("out") else None

    # --- capture at library boundaries ---
    orig_build = mypy_build.build
    orig_glob = Path.glob

    def build_wrapper(*a, **k):
        try:
            srcs = a[0] if a else k.get("sources")
            res["sources"] = [getattr(x, "path", None) for x in srcs]
        except Exception:  # noqa: BLE001
            res["sources"] = None
        r = orig_build(*a, **k)
        try:
            res["graph"] = [[st.tree.path if st.tree is not None else None, key] for key, st in r.graph.items()]
        except Exception:  # noqa: BLE001
            res["graph"] = None
        if job.get("view"):
            # the view is dumped here, before the analyzer has seen (or changed) any mypy object
            try:
                import viewdump
                res["_view"] = viewdump.dump_build(r, str(src))
            except Exception as e:  # noqa: BLE001
                res["view_err"] = f"{type(e).__name__}: {e}"
        return r

    def glob_wrapper(self, pattern, **k):
        items = list(orig_glob(self, pattern, **k))
        order = job.get("glob_order")
        if order == "reverse":
            items.reverse()
        elif order == "sorted":
            items.sort()
        elif isinstance(order, int):
            random.Random(order).shuffle(items)
        if str(pattern).endswith("*.py"):
            res["glob"] = [str(p) for p in items]
        return iter(items)

    handler = _ListHandler()
    root_logger = logging.getLogger()
    old_level = root_logger.level
    old_handlers = root_logger.handlers[:]
    root_logger.handlers = [handler]
    root_logger.setLevel(logging.INFO)
    mypy_build.build = build_wrapper
    Path.glob = glob_wrapper  # type: ignore[method-assign]
    stdout = io.StringIO()
    try:
        with contextlib.redirect_stdout(stdout), contextlib.redirect_stderr(stdout):
            api = get_api(
                root=src,
                docstring_style=DocstringStyle.from_string(job.get("docstyle", "plaintext")),
                is_test_run=bool(job.get("testrun", False)),
                type_source_preference=TypeSourcePreference.from_string(job.get("tsp", "code")),
                type_source_warning=TypeSourceWarning.from_string(job.get("tsw", "warn")),
            )
            res["modules_order"] = list(api.modules.keys())
            res["api"] = api.to_dict()
            if job.get("encode_api", True):
                import apienc
                res["api_sx"] = vlib.sx(apienc.api_sx(api))
                res["flat_keys"] = [list(api.functions), list(api.results), list(api.parameters_), list(api.attributes_),
                                    list(api.enums), list(api.enum_instances)]
            if job.get("doc_types"):
                res["param_doc_types"] = {pid: ([] if pr.docstring.type is None else [vlib.ty_sx(pr.docstring.type)])
                                          for pid, pr in api.parameters_.items()}
                res["result_docs"] = {fid: [[[] if rd.type is None else [vlib.ty_sx(rd.type)], rd.description, rd.name]
                                            for rd in fn.result_docstrings] for fid, fn in api.functions.items()}
            if job.get("keep_api"):
                res["_api_obj"] = api
            if out is not None:
                out.mkdir(parents=True, exist_ok=True)
                api_file = out / f"{src.stem}__api.json"
                api.to_json_file(api_file)
                res["json_text"] = api_file.read_text(encoding="utf-8")
                for _g in range(int(job.get("gens", 1))):
                    gen = StubsStringGenerator(api=api, convert_identifiers=bool(job.get("nc", False)))
                    data = generate_stub_data(stubs_generator=gen, out_path=out)
                    res["gens"].append([[str(Path(d).relative_to(out)), n, t, bool(p)] for d, n, t, p in data])
                    last = (gen, data)
                gen, data = last
                res["stub_data"] = res["gens"][-1]
                res["outside"] = sorted(gen.classes_outside_package)
                import l1
                res["writes"] = l1.traced_create(gen, data, out)
                res["api_after"] = api.to_dict()
                files = {}
                for p in sorted(out.rglob("*")):
                    if p.is_file():
                        files[str(p.relative_to(out))] = p.read_text(encoding="utf-8", errors="surrogateescape")
                res["stubs"] = files
    except BaseException as e:  # noqa: BLE001
        if isinstance(e, KeyboardInterrupt):
            raise
        res["exc"] = {"type": type(e).__name__, "msg": str(e)[:300], "frame": _innermost_own_frame(e.__traceback__)}
    finally:
        mypy_build.build = orig_build
        Path.glob = orig_glob  # type: ignore[method-assign]
        root_logger.handlers = old_handlers
        root_logger.setLevel(old_level)
    if "_view" in res:
        al, mods, trees = res.pop("_view")
        try:
            import viewdump
            from safeds_stubgen.docstring_parsing import create_docstring_parser
            root = viewdump.nearest_init_root(src)
            with contextlib.redirect_stdout(stdout), contextlib.redirect_stderr(stdout):
                parser = create_docstring_parser(style=DocstringStyle.from_string(job.get("docstyle", "plaintext")), package_path=root)
                docs = viewdump.docs_for(trees, parser)
            res["view_sx"] = vlib.sx([root.stem, job.get("docstyle", "plaintext"), bool(job.get("testrun", False)),
                                      job.get("tsp", "code") == "docstring", job.get("tsw", "warn") == "warn",
                                      res.get("glob") or [], al, mods, docs])
        except Exception as e:  # noqa: BLE001
            res["view_err"] = f"{type(e).__name__}: {e}"
    res["log"] = handler.records
    res["stdout"] = stdout.getvalue()[-500:]
    return res


def _worker_init():
    wid = os.getpid()
    d = WORK / f"mypycache_{wid}"
    d.mkdir(parents=True, exist_ok=True)
    os.environ["MYPY_CACHE_DIR"] = str(d)
    os.chdir(str(WORK))


def _safe_run(job):
    try:
        r = run_job(job)
        r.pop("_api_obj", None)
        return r
    except BaseException as e:  # noqa: BLE001
        return {"exc": {"type": "HarnessError:" + type(e).__name__, "msg": traceback.format_exc()[-800:], "frame": "harness"}}


def run_jobs(jobs: list[dict], procs: int = 14, timeout: int = 120) -> list[dict]:
    WORK.mkdir(parents=True, exist_ok=True)
    if not jobs:
        return []
    ctx = mp.get_context("fork")
    procs = max(1, min(procs, len(jobs)))
    with ctx.Pool(procs, initializer=_worker_init, maxtasksperchild=40) as pool:
        asyncs = [pool.apply_async(_safe_run, (j,)) for j in jobs]
        out = []
        for a in asyncs:
            try:
                out.append(a.get(timeout=timeout))
            except mp.TimeoutError:
                out.append({"exc": {"type": "Timeout", "msg": f"no answer within {timeout}s", "frame": "?"}})
        return out


# ---------------------------------------------------------------------------------------------------------
def scratch_dir(tag: str) -> Path:
    d = WORK / f"run_{os.getpid()}" / tag
    if d.exists():
        shutil.rmtree(d)
    d.mkdir(parents=True)
    return d


def cleanup() -> None:
    d = WORK / f"run_{os.getpid()}"
    shutil.rmtree(d, ignore_errors=True)
    for c in WORK.glob("mypycache_*"):
        shutil.rmtree(c, ignore_errors=True)


def write_tree(root: Path, files: dict[str, str]) -> None:
    for rel, text in files.items():
        p = root / rel
        p.parent.mkdir(parents=True, exist_ok=True)
        p.write_text(text, encoding="utf-8")


CLI_ENV = {"PYTHONPATH": os.environ.get("VERIF_REPO", "/repo") + "/src", "PYTHONSAFEPATH": "1", "PYTHONDONTWRITEBYTECODE": "1"}


def run_cli(src: Path, out: Path, *, docstyle="plaintext", testrun=False, nc=False, tsp="code", tsw="warn",
            hashseed: int = 0, cwd: Path | None = None, src_spelling: str | None = None, out_spelling: str | None = None,
            timeout: int = 120, cache_tag: str = "cli") -> dict:
    """The real CLI in a fresh process (tie C)."""
    import subprocess

    cache = WORK / f"mypycache_cli_{os.getpid()}_{cache_tag}"
    cache.mkdir(parents=True, exist_ok=True)
    env = {**os.environ, **CLI_ENV, "PYTHONHASHSEED": str(hashseed), "MYPY_CACHE_DIR": str(cache)}
    args = ["/venv/bin/python", "-X", "utf8", "-m", "safeds_stubgen.main", "-s", src_spelling or str(src), "-o", out_spelling or str(out),
            "--docstyle", docstyle, "-tsp", tsp, "-tsw", tsw]
    if testrun:
        args.append("-tr")
    if nc:
        args.append("-nc")
    try:
        r = subprocess.run(args, cwd=str(cwd or WORK), env=env, capture_output=True, text=True, timeout=timeout)
        rc, so, se = r.returncode, r.stdout, r.stderr
    except subprocess.TimeoutExpired:
        rc, so, se = -999, "", "timeout"
    files = {}
    if out.exists():
        for p in sorted(out.rglob("*")):
            if p.is_file():
                files[str(p.relative_to(out))] = p.read_bytes()
    exc = None
    if rc != 0:
        last = [ln for ln in se.strip().split("\n") if ln.strip()][-1:] or [""]
        own = [ln for ln in se.split("\n") if "/safeds_stubgen/" in ln and ln.strip().startswith("File")]
        exc = {"type": last[0].split(":")[0].strip(), "msg": last[0][:300], "frame": own[-1].strip() if own else "<outside>"}
    return {"rc": rc, "exc": exc, "files": files, "stderr": se[-1500:], "stdout": so[-300:]}
