"""A tolerant parser of Safe-DS stub files into a structure used for per-property projections.

It is deliberately lenient (keywords are accepted as identifiers, defaults are arbitrary token runs): strict validity
is decided by the Coq scanner coq/Spec/Sds.v, not here.  The same parser is applied to the model's text and to the
implementation's text, so leniency cannot hide a difference between them.
"""
from __future__ import annotations

import re

TOKEN_RE = re.compile(
    r"""
    (?P<doc>/\*.*?\*/)            |
    (?P<line>//[^\n]*)            |
    (?P<str>"(?:\\.|[^"\\\n])*")  |
    (?P<bq>`[^`\n]*`)             |
    (?P<num>\d+(?:\.\d+)?(?:[eE][+-]?\d+)?) |
    (?P<id>[^\W\d]\w*)            |
    (?P<arrow>->)                 |
    (?P<p>[(){}<>,:=?.@\-\[\]])   |
    (?P<ws>\s+)                   |
    (?P<bad>.)
    """,
    re.X | re.S,
)


class ParseError(Exception):
    pass


_ESCAPES = {"n": "\n", "r": "\r", "t": "\t", "b": "\b", "f": "\f", "v": "\v", "0": "\0", "'": "'", '"': '"', "{": "{", "\\": "\\"}


def decode_string(tok: str) -> str:
    """the value of a Safe-DS string literal token (quotes included in the token)"""
    body = tok[1:-1]
    out = []
    i = 0
    while i < len(body):
        c = body[i]
        if c == "\\":
            if i + 1 >= len(body):
                raise ParseError("dangling backslash in string")
            e = body[i + 1]
            if e == "u":
                out.append(chr(int(body[i + 2:i + 6], 16)))
                i += 6
                continue
            if e not in _ESCAPES:
                raise ParseError(f"unknown escape sequence \\{e}")
            out.append(_ESCAPES[e])
            i += 2
        else:
            out.append(c)
            i += 1
    return "".join(out)


def norm_string(tok: str) -> str:
    """string tokens are compared by value: quote + decoded value + quote"""
    return '"' + decode_string(tok) + '"'


def tokenize(text: str):
    toks = []
    for m in TOKEN_RE.finditer(text):
        k = m.lastgroup
        if k == "ws":
            continue
        toks.append((k, m.group(0)))
    return toks


KEYWORDS = {"_", "and", "annotation", "as", "attr", "class", "const", "enum", "false", "from", "fun", "import", "in", "internal",
            "literal", "not", "null", "or", "out", "package", "pipeline", "private", "schema", "static", "segment", "sub", "this",
            "true", "union", "unknown", "val", "where", "yield"}


class P:
    def __init__(self, toks, strict=False):
        self.t = toks
        self.i = 0
        self.strict = strict
        if strict:
            for k, v in toks:
                if k == "bad":
                    raise ParseError(f"illegal character {v!r}")
                if k == "id" and not v.isascii():
                    raise ParseError(f"non-ASCII identifier {v!r}")

    def peek(self, o=0):
        j = self.i + o
        return self.t[j] if j < len(self.t) else ("eof", "")

    def next(self):
        tok = self.peek()
        self.i += 1
        return tok

    def accept(self, val):
        if self.peek()[1] == val and self.peek()[0] not in ("str", "doc", "line"):
            self.i += 1
            return True
        return False

    def expect(self, val):
        if not self.accept(val):
            raise ParseError(f"expected {val!r} at token {self.i}: {self.peek()}")

    def ident(self):
        k, v = self.peek()
        if k == "id":
            if self.strict and v in KEYWORDS:
                raise ParseError(f"keyword {v!r} used as an identifier without back-quotes")
            self.i += 1
            return v
        if k == "bq":
            if self.strict and not v[1:-1].replace("_", "a").isalnum():
                raise ParseError(f"illegal back-quoted identifier {v!r}")
            self.i += 1
            return v[1:-1]
        raise ParseError(f"expected identifier at token {self.i}: {self.peek()}")

    # ---- pieces ----
    def annotations(self):
        anns = []
        while self.peek()[1] == "@" and self.peek()[0] == "p":
            self.i += 1
            name = self.ident()
            args = []
            if self.accept("("):
                while not self.accept(")"):
                    args.append(self.next()[1])
                    self.accept(",")
            anns.append((name, args))
        return anns

    def qname(self):
        parts = [self.ident()]
        while self.peek()[1] == "." and self.peek()[0] == "p":
            self.i += 1
            parts.append(self.ident())
        return ".".join(parts)

    def type_(self):
        t = self.primary()
        n = 0
        while self.accept("?"):
            n += 1
        if n:
            t = ("nullable", t)
        return t

    def primary(self):
        k, v = self.peek()
        if k == "id" and v == "union" and self.peek(1)[1] == "<":
            self.i += 2
            ts = self.type_list(">")
            return ("union", ts)
        if k == "id" and v == "literal" and self.peek(1)[1] == "<":
            self.i += 2
            lits = []
            while not self.accept(">"):
                neg = self.accept("-")
                tk, tv = self.next()
                lits.append(("-" if neg else "") + (norm_string(tv) if tk == "str" else tv))
                self.accept(",")
            return ("literal", lits)
        if k == "id" and v == "unknown":
            self.i += 1
            return ("unknown",)
        if v == "(" and k == "p":
            self.i += 1
            params = self.params(")")
            self.expect("->")
            results = self.results()
            return ("callable", params, results)
        name = self.qname()
        args = None
        if self.peek()[1] == "<" and self.peek()[0] == "p":
            self.i += 1
            args = self.type_list(">")
        return ("named", name, args)

    def type_list(self, close):
        ts = []
        while not self.accept(close):
            ts.append(self.type_())
            self.accept(",")
        return ts

    def params(self, close):
        ps = []
        while not self.accept(close):
            anns = self.annotations()
            name = self.ident()
            ty = None
            default = None
            if self.accept(":"):
                ty = self.type_()
            if self.accept("="):
                toks = []
                depth = 0
                while True:
                    k, v = self.peek()
                    if k == "eof":
                        raise ParseError("eof in default")
                    if depth == 0 and k == "p" and v in (",", ")"):
                        break
                    if k == "p" and v in "([{":
                        depth += 1
                    if k == "p" and v in ")]}":
                        depth -= 1
                    toks.append(norm_string(v) if k == "str" else v)
                    self.i += 1
                default = " ".join(toks)
            pyname = next((a[1][0][1:-1] for a in anns if a[0] == "PythonName" and a[1]), name)
            ps.append({"name": name, "pyname": pyname, "type": ty, "default": default})
            self.accept(",")
        return ps

    def results(self):
        if self.accept("("):
            rs = []
            while not self.accept(")"):
                n = self.ident()
                self.expect(":")
                rs.append({"name": n, "type": self.type_()})
                self.accept(",")
            return rs
        n = self.ident()
        self.expect(":")
        return [{"name": n, "type": self.type_()}]

    def tparams(self):
        tps = []
        if self.peek()[1] == "<" and self.peek()[0] == "p":
            self.i += 1
            while not self.accept(">"):
                var = ""
                if self.peek()[0] == "id" and self.peek()[1] in ("in", "out") and self.peek(1)[0] in ("id", "bq"):
                    var = self.next()[1]
                name = self.ident()
                bound = None
                if self.peek() == ("id", "sub"):
                    self.i += 1
                    bound = self.type_()
                tps.append({"name": name, "variance": var, "bound": bound})
                self.accept(",")
        return tps

    def pre(self):
        """doc comments and TODO lines in front of a declaration, in order"""
        docs, todos = [], []
        while self.peek()[0] in ("doc", "line"):
            k, v = self.next()
            if k == "doc":
                docs.append(v)
            else:
                todos.append(v)
        return docs, todos

    def declaration(self, member: bool):
        docs, todos = self.pre()
        anns = self.annotations()
        d2, t2 = self.pre()   # class: PythonName line precedes the TODO lines
        docs += d2
        todos += t2
        anns += self.annotations()
        k, v = self.peek()
        static = False
        if k == "id" and v == "static":
            static = True
            self.i += 1
            k, v = self.peek()
        pyname_ann = next((a[1][0][1:-1] for a in anns if a[0] == "PythonName" and a[1]), None)
        base = {"doc": docs, "todos": todos, "annotations": [a[0] for a in anns], "static": static}
        if k == "id" and v == "class":
            self.i += 1
            name = self.ident()
            tps = self.tparams()
            params = None
            if self.accept("("):
                params = self.params(")")
            supers = []
            if self.peek() == ("id", "sub"):
                self.i += 1
                supers.append(self.type_())
                while self.accept(","):
                    supers.append(self.type_())
            members = []
            if self.accept("{"):
                while not self.accept("}"):
                    if self.peek()[0] == "eof":
                        raise ParseError("eof in class body")
                    members.append(self.declaration(True))
            return {**base, "kind": "class", "name": name, "pyname": pyname_ann or name, "tparams": tps, "params": params,
                    "supers": supers, "members": members}
        if k == "id" and v == "fun":
            self.i += 1
            name = self.ident()
            tps = self.tparams()
            self.expect("(")
            params = self.params(")")
            results = []
            if self.accept("->"):
                results = self.results()
            return {**base, "kind": "fun", "name": name, "pyname": pyname_ann or name, "tparams": tps, "params": params,
                    "results": results}
        if k == "id" and v == "attr":
            self.i += 1
            name = self.ident()
            ty = None
            if self.accept(":"):
                ty = self.type_()
            return {**base, "kind": "attr", "name": name, "pyname": pyname_ann or name, "type": ty}
        if k == "id" and v == "enum":
            self.i += 1
            name = self.ident()
            members = []
            if self.accept("{"):
                while not self.accept("}"):
                    if self.peek()[0] == "eof":
                        raise ParseError("eof in enum body")
                    a = self.annotations()
                    n = self.ident()
                    members.append({"name": n, "pyname": next((x[1][0][1:-1] for x in a if x[0] == "PythonName" and x[1]), n)})
            return {**base, "kind": "enum", "name": name, "pyname": pyname_ann or name, "members": members}
        raise ParseError(f"expected a declaration at token {self.i}: {self.peek()}")

    def module(self):
        docs, _ = self.pre()
        anns = self.annotations()
        self.expect("package")
        package = self.qname()
        imports = []
        while self.peek() == ("id", "from"):
            self.i += 1
            frm = self.qname()
            self.expect("import")
            imports.append((frm, self.ident()))
        decls = []
        while self.peek()[0] != "eof":
            decls.append(self.declaration(False))
        pymod = next((a[1][0][1:-1] for a in anns if a[0] == "PythonModule" and a[1]), package)
        return {"doc": docs, "package": package, "python_module": pymod, "imports": imports, "decls": decls,
                "file_annotations": [a[0] for a in anns]}


def parse(text: str, strict: bool = False):
    """returns (module dict | None, error | None)"""
    try:
        return P(tokenize(text), strict).module(), None
    except ParseError as e:
        return None, str(e)
    except RecursionError:
        return None, "recursion"


def type_str(t) -> str:
    if t is None:
        return ""
    k = t[0]
    if k == "named":
        return t[1] + (("<" + ", ".join(type_str(a) for a in t[2]) + ">") if t[2] is not None else "")
    if k == "nullable":
        return type_str(t[1]) + "?"
    if k == "union":
        return "union<" + ", ".join(type_str(a) for a in t[1]) + ">"
    if k == "literal":
        return "literal<" + ", ".join(t[1]) + ">"
    if k == "unknown":
        return "unknown"
    if k == "callable":
        return "(" + ", ".join(f"{p['name']}: {type_str(p['type'])}" for p in t[1]) + ") -> (" + ", ".join(
            f"{r['name']}: {type_str(r['type'])}" for r in t[2]) + ")"
    return "?"


def walk_decls(mod, owner=""):
    """yield (owner path of python names, decl) for all declarations, depth first"""
    def rec(d, own):
        yield own, d
        for m in d.get("members", []) if d["kind"] == "class" else []:
            yield from rec(m, own + "." + d["pyname"] if own else d["pyname"])
    for d in mod["decls"]:
        yield from rec(d, owner)


def doc_lines(doc_token: str) -> list[str]:
    """the text lines of a /** ... */ comment without the comment decoration"""
    inner = doc_token[3:-2] if doc_token.startswith("/**") else doc_token[2:-2]
    out = []
    for ln in inner.split("\n"):
        s = ln.strip()
        if s.startswith("*"):
            s = s[1:]
            if s.startswith(" "):
                s = s[1:]
        out.append(s.replace("*\\/", "*/"))     # the markdown escape of a slash after a star reads as the two characters
    while out and out[0] == "":
        out.pop(0)
    while out and out[-1] == "":
        out.pop()
    return out
