"""Witness packages of the recorded findings (known_findings.json): small hand-made package descriptions, so that source and
ground truth both exist.  Each builder returns (Package, job options)."""
from __future__ import annotations

import gen_pkg
from gen_pkg import Ann, Attr, Cls, Enum_, Func, Init, Module, Package, Param


def _pkg(name, modules, inits=None, style="plaintext"):
    return Package(name, modules, inits or [Init(f"{name}/__init__.py", name)], style)


def enum_without_publicity_test():
    m = Module("wfa/mod_a.py", "wfa.mod_a", enums=[Enum_("_PrivE001", ["A001"]), Enum_("PubE002", ["B002"])],
               funcs=[Func("f003", [], ret=Ann("int"))])
    m2 = Module("wfa/_hidden.py", "wfa._hidden", enums=[Enum_("InHidden004", ["C004"])], funcs=[Func("g005", [], ret=Ann("int"))])
    return _pkg("wfa", [m, m2]), {}


def property_tuple_as_union():
    c = Cls("Holder001", methods=[Func("pair002", [], ret=Ann("tuple", [Ann("int"), Ann("str")]), deco="prop")])
    return _pkg("wfb", [Module("wfb/mod_a.py", "wfb.mod_a", classes=[c])]), {}


def callable_attribute_untyped():
    c = Cls("Holder001", attrs=[Attr("callback002", Ann("callable", [Ann("int"), Ann("str")]), "len")])
    return _pkg("wfc", [Module("wfc/mod_a.py", "wfc.mod_a", classes=[c])]), {}


def none_result_suppresses_list():
    f = Func("f001", [Param("a", "pos", Ann("int"))], body="if a:\n    return 1\nreturn None", inferred=[(1,), (None,)])
    g = Func("g002", [Param("a", "pos", Ann("int"))], body="if a:\n    return 's', None\nreturn 2.5", inferred=[("s", None), (2.5,)])
    return _pkg("wfd", [Module("wfd/mod_a.py", "wfd.mod_a", funcs=[f, g])]), {}


def typevar_typed_attribute_dropped():
    init = Func("__init__", [Param("p002", "pos", Ann("typevar", name="T001"))], ret_none=True, body="self.value003 = p002")
    c = Cls("Box004", attrs=[Attr("value003", Ann("typevar", name="T001"), "p002", instance=True)], init=init)
    return _pkg("wfe", [Module("wfe/mod_a.py", "wfe.mod_a", classes=[c], typevars=["T001"])]), {}


def private_class_as_type():
    priv = Cls("_Hidden001")
    f = Func("use002", [Param("p003", "pos", Ann("ref", name="_Hidden001", module="wff.mod_a"))], ret=Ann("int"))
    return _pkg("wff", [Module("wff/mod_a.py", "wff.mod_a", classes=[priv], funcs=[f])]), {}


def nc_snake_case_class_reference():
    c = Cls("data_holder_001")
    f = Func("use002", [Param("p003", "pos", Ann("ref", name="data_holder_001", module="wfg.mod_a"))], ret=Ann("int"))
    m2 = Module("wfg/mod_b.py", "wfg.mod_b", imports=["from wfg.mod_a import data_holder_001"],
                funcs=[Func("other004", [Param("q005", "pos", Ann("ref", name="data_holder_001", module="wfg.mod_a"))], ret=Ann("int"))])
    return _pkg("wfg", [Module("wfg/mod_a.py", "wfg.mod_a", classes=[c], funcs=[f]), m2]), {"nc": True}


def stale_class_generics():
    init = Func("__init__", [Param("p002", "pos", Ann("typevar", name="T001"))], ret_none=True, body="pass")
    first = Cls("First003", init=init)
    second = Cls("Second004", methods=[Func("pick005", [Param("p006", "pos", Ann("typevar", name="T001"))], ret=Ann("typevar", name="T001"))])
    return _pkg("wfi", [Module("wfi/mod_a.py", "wfi.mod_a", classes=[first, second], typevars=["T001"])]), {}


def rename_on_model():
    f = Func("helper001", [], ret=Ann("int"))
    m = Module("wfj/_impl.py", "wfj._impl", funcs=[f, Func("other002", [], ret=Ann("int"))])
    init = Init("wfj/__init__.py", "wfj", lines=["from ._impl import helper001 as public_helper003"],
                reexports=[("alias", "wfj._impl", "helper001", "public_helper003")])
    return Package("wfj", [m], [init], "plaintext"), {}


def enum_name_not_converted():
    m = Module("wfk/mod_a.py", "wfk.mod_a", enums=[Enum_("mode_kind_001", ["low_val_002", "M003"])], funcs=[Func("f004", [], ret=Ann("int"))])
    return _pkg("wfk", [m]), {"nc": True}


def class_attribute_list_items_by_name():
    c = Cls("Holder001", attrs=[Attr("items002", Ann("list", [Ann("union", [Ann("int"), Ann("str")])]), None)])
    return _pkg("wfl", [Module("wfl/mod_a.py", "wfl.mod_a", classes=[c])]), {}


def tuple_returns_equal_up_to_order():
    f = Func("f001", [Param("a", "pos", Ann("int"))], body="if a:\n    return 1, 's'\nreturn 's', 1", inferred=[(1, "s"), ("s", 1)])
    return _pkg("wfm", [Module("wfm/mod_a.py", "wfm.mod_a", funcs=[f])]), {}


def result_warn_always():
    f = Func("same001", [Param("a", "pos", Ann("int"), doc="About a.", doc_type="int")], ret=Ann("int"), doc="Doc of same001.",
             result_docs=[("", "int", "Result of same001.")])
    return _pkg("wfh", [Module("wfh/mod_a.py", "wfh.mod_a", funcs=[f])], style="numpydoc"), {}


def reexport_by_package_not_above():
    shared = Cls("Shared001", methods=[Func("run002", [], ret=Ann("int"))])
    home = Module("wfn/_impl.py", "wfn._impl", classes=[shared])
    user = Module("wfn/mod_a.py", "wfn.mod_a", imports=["from wfn._impl import Shared001"],
                  funcs=[Func("use003", [Param("p004", "pos", Ann("ref", name="Shared001", module="wfn._impl"))], ret=Ann("int"))])
    filler = Module("wfn/api/mod_b.py", "wfn.api.mod_b", funcs=[Func("other005", [], ret=Ann("int"))])
    inits = [Init("wfn/__init__.py", "wfn"), Init("wfn/api/__init__.py", "wfn.api", lines=["from wfn._impl import Shared001"])]
    return _pkg("wfn", [home, user, filler], inits), {}


def non_ascii_identifier():
    f = Func("größe001", [Param("länge002", "pos", Ann("int"))], ret=Ann("int"))
    return _pkg("wfo", [Module("wfo/mod_a.py", "wfo.mod_a", funcs=[f], classes=[Cls("Änderung003")])]), {}


# ---- regression witnesses of repaired defects (they are part of every corpus; a fixed entry suppresses nothing) ----
def two_readwrite_properties():
    """fix 2e85634 / 3c5b17b: two properties with setters in one module aborted the walk; a property with a setter was dropped"""
    a = Cls("Gauge001", methods=[Func("level002", [], ret=Ann("int"), deco="prop", setter=True, doc="Doc of level002. Line one."),
                                 Func("unit003", [], ret=Ann("str"), deco="prop", setter=True),
                                 Func("read004", [], ret=Ann("float"), deco="prop"),
                                 Func("reset005", [Param("p006", "pos", Ann("int"))], ret_none=True, body="pass")])
    b = Cls("Other007", methods=[Func("mode008", [], ret=Ann("optional", [Ann("int")]), deco="prop", setter=True)])
    return _pkg("wfp", [Module("wfp/mod_a.py", "wfp.mod_a", classes=[a, b], funcs=[Func("f009", [], ret=Ann("int"))])]), {}


def enum_with_method():
    """fix 5e57c43: an enum that has a method (or a nested class) aborted the run with TypeError in _is_public"""
    e = Enum_("Colour002", ["RED_003", "GREEN_004"], doc="Doc of Colour002.",
              body_extra=gen_pkg.ENUM_BODY_EXTRA.replace("{k}", "005"))
    m = Module("wfq/mod_a.py", "wfq.mod_a", enums=[e], funcs=[Func("f001", [], ret=Ann("int"))])
    return _pkg("wfq", [m]), {}


def chained_assignment():
    """fix e8e6187: `level = level = 1` registered the attribute twice (class record, stub)"""
    c = Cls("Holder001", attrs=[Attr("level_002", None, "1", chained=True), Attr("plain_003", Ann("int"), "2")],
            methods=[Func("get004", [], ret=Ann("int"))])
    m = Module("wfr/mod_a.py", "wfr.mod_a", classes=[c], funcs=[Func("f005", [], ret=Ann("int"))])
    return _pkg("wfr", [m]), {}


def keyword_module_segment():
    """fix 80edd16: the placeholder stub of a class of the module `enum` began with `package enum` (a keyword, not back-quoted)"""
    c = Cls("Perm001", bases=["Flag"], base_refs=[("Flag", "enum", False)], attrs=[Attr("READ_002", None, "1")],
            methods=[Func("describe_003", [], ret=Ann("str"))])
    m = Module("wfs/mod_a.py", "wfs.mod_a", classes=[c], funcs=[Func("f004", [], ret=Ann("int"))])
    return _pkg("wfs", [m]), {}


FIXED_BUILDERS = {f.__name__: f for f in [two_readwrite_properties, enum_with_method, chained_assignment, keyword_module_segment]}

BUILDERS = {f.__name__: f for f in [enum_without_publicity_test, property_tuple_as_union, callable_attribute_untyped,
                                    none_result_suppresses_list, typevar_typed_attribute_dropped, private_class_as_type,
                                    nc_snake_case_class_reference, result_warn_always, stale_class_generics, rename_on_model, enum_name_not_converted, class_attribute_list_items_by_name, tuple_returns_equal_up_to_order,
                                    reexport_by_package_not_above, non_ascii_identifier]}
