#!/usr/bin/env python3
"""Tie A: regenerate coq/Gen/Tables.v from /repo/src on every run.

Fail-closed: every table is anchored to a named function (fallback: to a shape anywhere in the same file);
anything that cannot be read raises TranslatorError("translator cannot read <anchor>").
"""
from __future__ import annotations

import ast
import sys
from pathlib import Path

import os
SRC = Path(os.environ.get("VERIF_REPO", "/repo")) / "src" / "safeds_stubgen"


class TranslatorError(Exception):
    pass


def _parse(rel: str) -> ast.Module:
    p = SRC / rel
    try:
        return ast.parse(p.read_text(encoding="utf-8"))
    except Exception as e:  # noqa: BLE001
        raise TranslatorError(f"translator cannot read {rel}: {e}") from e


def _find_func(tree: ast.AST, name: str) -> ast.AST | None:
    for node in ast.walk(tree):
        if isinstance(node, ast.FunctionDef | ast.AsyncFunctionDef) and node.name == name:
            return node
    return None


def _const_str_elts(node: ast.AST) -> list[str] | None:
    if isinstance(node, ast.Set | ast.List | ast.Tuple):
        out = []
        for e in node.elts:
            if isinstance(e, ast.Constant) and isinstance(e.value, str):
                out.append(e.value)
            else:
                return None
        return out
    return None


def _all_str_collections(scope: ast.AST) -> list[list[str]]:
    res = []
    for node in ast.walk(scope):
        v = _const_str_elts(node)
        if v is not None and v:
            res.append(v)
    return res


def coq_str(s: str) -> str:
    # Coq string literal: double the quotes; non-printable bytes are not expected in tables
    for ch in s:
        if ord(ch) < 32 or ord(ch) > 126:
            raise TranslatorError(f"translator cannot express the constant {s!r}")
    return 'K"' + s.replace('"', '""') + '"'


def coq_bytes(s: str) -> str:
    """any byte string, control characters included, as a Coq list of characters"""
    if all(32 <= ord(ch) <= 126 for ch in s):
        return coq_str(s)
    if any(ord(ch) > 126 for ch in s):
        raise TranslatorError(f"translator cannot express the constant {s!r}")
    return "[" + "; ".join(f"Ascii.ascii_of_nat {ord(ch)}" for ch in s) + "]"


def coq_list(xs: list[str]) -> str:
    return "[" + "; ".join(coq_str(x) for x in xs) + "]"


# ------------------------------------------------------------------------------------------------------------
def keywords() -> list[str]:
    tree = _parse("stubs_generator/_helper.py")
    f = _find_func(tree, "_replace_if_safeds_keyword")
    cands = _all_str_collections(f) if f is not None else []
    cands = [c for c in cands if "pipeline" in c and "segment" in c]
    if not cands:
        cands = [c for c in _all_str_collections(tree) if "pipeline" in c and "segment" in c]
    if len(cands) != 1:
        raise TranslatorError("translator cannot read the keyword set of _replace_if_safeds_keyword")
    # also make sure the function really returns `x` or "`x`"
    return sorted(set(cands[0]))


def indentation() -> str:
    tree = _parse("stubs_generator/_helper.py")
    for node in tree.body:
        if isinstance(node, ast.Assign) and any(isinstance(t, ast.Name) and t.id == "INDENTATION" for t in node.targets):
            if isinstance(node.value, ast.Constant) and isinstance(node.value.value, str):
                return node.value.value
    raise TranslatorError("translator cannot read INDENTATION")


def todo_messages() -> list[tuple[str, str]]:
    tree = _parse("stubs_generator/_stub_string_generator.py")
    f = _find_func(tree, "_create_todo_msg")
    scopes = [f] if f is not None else []
    scopes.append(tree)
    for scope in scopes:
        for node in ast.walk(scope):
            if isinstance(node, ast.Dict) and node.keys and all(
                isinstance(k, ast.Constant) and isinstance(k.value, str) for k in node.keys
            ) and all(isinstance(v, ast.Constant) and isinstance(v.value, str) for v in node.values):
                keys = [k.value for k in node.keys]  # type: ignore[union-attr]
                if "no tuple support" in keys or "variadic" in keys:
                    return [(k.value, v.value) for k, v in zip(node.keys, node.values, strict=True)]  # type: ignore[union-attr]
    raise TranslatorError("translator cannot read the TODO message table of _create_todo_msg")


def raised_todo_keys() -> tuple[list[str], int]:
    """the keys passed to self._current_todo_msgs.add(...) anywhere in the generator: (string literals in source order without
    repetition, number of sites whose argument is the variable `name` - the {Set, List} site of _create_type_string);
    any other argument shape is refused"""
    tree = _parse("stubs_generator/_stub_string_generator.py")
    lits: list[str] = []
    by_name = 0
    for node in ast.walk(tree):
        if (isinstance(node, ast.Call) and isinstance(node.func, ast.Attribute) and node.func.attr == "add"
                and isinstance(node.func.value, ast.Attribute) and node.func.value.attr == "_current_todo_msgs"):
            if len(node.args) != 1 or node.keywords:
                raise TranslatorError("translator: unexpected call shape of _current_todo_msgs.add")
            a = node.args[0]
            if isinstance(a, ast.Constant) and isinstance(a.value, str):
                if a.value not in lits:
                    lits.append(a.value)
            elif isinstance(a, ast.Name) and a.id == "name":
                by_name += 1
            else:
                raise TranslatorError("translator: a TODO marker is raised with an argument that is neither a string literal nor `name`")
    if not lits:
        raise TranslatorError("translator cannot find the sites that raise TODO markers")
    return lits, by_name


def walker_children() -> dict[str, list[str]]:
    """the node classes whose instances ASTWalker.__walk visits as children of a module, of a class, of an enum and of an
    __init__ function, and the base-class names that make a class an enum (read off the isinstance chain of __walk and
    __is_enum; any other shape is refused)"""
    tree = _parse("api_analyzer/_ast_walker.py")
    walk = _find_func(tree, "__walk")
    is_enum = _find_func(tree, "__is_enum")
    if walk is None or is_enum is None:
        raise TranslatorError("translator cannot find ASTWalker.__walk / __is_enum")

    def isinstance_of(test: ast.AST) -> str | None:
        t = test.values[0] if isinstance(test, ast.BoolOp) and isinstance(test.op, ast.And) else test
        if (isinstance(t, ast.Call) and isinstance(t.func, ast.Name) and t.func.id == "isinstance" and len(t.args) == 2
                and isinstance(t.args[0], ast.Name) and t.args[0].id == "node" and isinstance(t.args[1], ast.Name)):
            return t.args[1].id
        return None

    def str_set(n: ast.AST) -> list[str] | None:
        if isinstance(n, ast.Set) and all(isinstance(e, ast.Constant) and isinstance(e.value, str) for e in n.elts):
            return sorted(e.value for e in n.elts)  # type: ignore[union-attr]
        return None
    out: dict[str, list[str]] = {}
    for node in ast.walk(walk):
        if not isinstance(node, ast.If):
            continue
        cls = isinstance_of(node.test)
        if cls == "MypyFile":
            sets = [x for n in ast.walk(ast.Module(body=node.body, type_ignores=[])) if (x := str_set(n)) is not None]
            if len(sets) != 1:
                raise TranslatorError("translator: the module branch of __walk has not exactly one set of class names")
            out["module"] = sets[0]
        elif cls == "ClassDef" and "class" not in out:
            ifexps = [n for n in ast.walk(ast.Module(body=node.body, type_ignores=[])) if isinstance(n, ast.IfExp)]
            if len(ifexps) != 1 or str_set(ifexps[0].body) is None or str_set(ifexps[0].orelse) is None:
                raise TranslatorError("translator: the class branch of __walk is not `A if self.__is_enum(node) else B`")
            t = ifexps[0].test
            if not (isinstance(t, ast.Call) and isinstance(t.func, ast.Attribute) and t.func.attr.endswith("__is_enum")):
                raise TranslatorError("translator: the class branch of __walk does not test __is_enum")
            out["enum"] = str_set(ifexps[0].body)  # type: ignore[assignment]
            out["class"] = str_set(ifexps[0].orelse)  # type: ignore[assignment]
        elif cls == "FuncDef":
            test_src = ast.unparse(node.test)
            if '"__init__"' not in test_src and "'__init__'" not in test_src:
                raise TranslatorError("translator: the function branch of __walk is not restricted to __init__")
            cmps = [n for n in ast.walk(ast.Module(body=node.body, type_ignores=[])) if isinstance(n, ast.Compare)
                    and len(n.ops) == 1 and isinstance(n.ops[0], ast.Eq) and isinstance(n.comparators[0], ast.Constant)]
            if len(cmps) != 1:
                raise TranslatorError("translator: the function branch of __walk has not exactly one class-name comparison")
            out["init"] = [cmps[0].comparators[0].value]  # type: ignore[attr-defined]
    if set(out) != {"module", "class", "enum", "init"}:
        raise TranslatorError(f"translator: __walk branches found: {sorted(out)}")
    bases = [n for n in ast.walk(is_enum) if isinstance(n, ast.Tuple) and n.elts and all(
        isinstance(e, ast.Constant) and isinstance(e.value, str) for e in n.elts)]
    if len(bases) != 1:
        raise TranslatorError("translator cannot read the enum base names of __is_enum")
    out["enum_bases"] = [e.value for e in bases[0].elts]  # type: ignore[attr-defined]
    return out


def todo_prefix() -> str:
    tree = _parse("stubs_generator/_stub_string_generator.py")
    f = _find_func(tree, "_create_todo_msg") or tree
    for node in ast.walk(f):
        if isinstance(node, ast.Constant) and isinstance(node.value, str) and node.value.startswith("// TODO"):
            return node.value
    raise TranslatorError("translator cannot read the TODO prefix of _create_todo_msg")


def builtin_type_names() -> list[tuple[str, str]]:
    """The `match name:` table of _create_type_string (NamedType branch)."""
    tree = _parse("stubs_generator/_stub_string_generator.py")
    f = _find_func(tree, "_create_type_string")
    if f is None:
        raise TranslatorError("translator cannot read _create_type_string")
    none_name = None
    for node in ast.walk(f):
        if isinstance(node, ast.Assign) and len(node.targets) == 1 and isinstance(node.targets[0], ast.Name) \
                and node.targets[0].id == "none_type_name" and isinstance(node.value, ast.Constant):
            none_name = node.value.value
    for node in ast.walk(f):
        if isinstance(node, ast.Match):
            table = []
            ok = True
            for case in node.cases:
                pat = case.pattern
                if isinstance(pat, ast.MatchValue) and isinstance(pat.value, ast.Constant) and isinstance(pat.value.value, str):
                    body = case.body
                    if len(body) == 1 and isinstance(body[0], ast.Return):
                        rv = body[0].value
                        if isinstance(rv, ast.Constant) and isinstance(rv.value, str):
                            table.append((pat.value.value, rv.value))
                            continue
                        if isinstance(rv, ast.Name) and rv.id == "none_type_name" and none_name is not None:
                            table.append((pat.value.value, none_name))
                            continue
                    ok = False
                elif isinstance(pat, ast.MatchAs) and pat.pattern is None:
                    continue
                else:
                    ok = False
            if ok and table:
                return table
    raise TranslatorError("translator cannot read the builtin name table of _create_type_string")


def none_type_name() -> str:
    tree = _parse("stubs_generator/_stub_string_generator.py")
    f = _find_func(tree, "_create_type_string") or tree
    for node in ast.walk(f):
        if isinstance(node, ast.Assign) and len(node.targets) == 1 and isinstance(node.targets[0], ast.Name) \
                and node.targets[0].id == "none_type_name" and isinstance(node.value, ast.Constant):
            return node.value.value
    raise TranslatorError("translator cannot read none_type_name")


def _set_containing(rel: str, func: str, must: list[str], label: str) -> list[str]:
    tree = _parse(rel)
    f = _find_func(tree, func)
    for scope in ([f] if f is not None else []) + [tree]:
        cands = [c for c in _all_str_collections(scope) if all(m in c for m in must)]
        uniq = {tuple(sorted(set(c))) for c in cands}
        if len(uniq) == 1:
            return list(uniq.pop())
        if len(uniq) > 1:
            # take the smallest superset of `must`
            best = sorted(uniq, key=len)[0]
            return list(best)
    raise TranslatorError(f"translator cannot read {label}")


def excluded_dirs() -> list[str]:
    """The directory names tested against file_path.parts in get_api."""
    tree = _parse("api_analyzer/_get_api.py")
    f = _find_func(tree, "get_api")
    if f is None:
        raise TranslatorError("translator cannot read get_api")
    names: list[str] = []
    for node in ast.walk(f):
        if isinstance(node, ast.Compare) and len(node.ops) == 1 and isinstance(node.ops[0], ast.In):
            left, right = node.left, node.comparators[0]
            if isinstance(right, ast.Attribute) and right.attr == "parts":
                if isinstance(left, ast.Constant) and isinstance(left.value, str):
                    names.append(left.value)
            # shape `part in {"test", ...}` / any(p in {...} for p in parts)
            v = _const_str_elts(right)
            if v is not None and isinstance(left, ast.Name):
                names.extend(v)
    if not names:
        raise TranslatorError("translator cannot read the excluded directory names of get_api")
    return sorted(set(names))


def init_file_name() -> str:
    tree = _parse("api_analyzer/_get_api.py")
    f = _find_func(tree, "get_api") or tree
    for node in ast.walk(f):
        if isinstance(node, ast.Compare) and isinstance(node.comparators[0], ast.Constant) \
                and isinstance(node.comparators[0].value, str) and node.comparators[0].value.endswith("__init__.py"):
            return node.comparators[0].value
    raise TranslatorError("translator cannot read the __init__ file test of get_api")


def glob_pattern() -> str:
    tree = _parse("api_analyzer/_get_api.py")
    f = _find_func(tree, "get_api") or tree
    for node in ast.walk(f):
        if isinstance(node, ast.Call) and isinstance(node.func, ast.Attribute) and node.func.attr == "glob":
            for a in list(node.args) + [k.value for k in node.keywords]:
                if isinstance(a, ast.Constant) and isinstance(a.value, str):
                    return a.value
    raise TranslatorError("translator cannot read the glob pattern of get_api")


def arg_kind_chain() -> list[tuple[list[str], str, str]]:
    """get_argument_kind: list of (ArgKind names, pos_only requirement 'yes'/'no'/'any', ParameterAssignment name),
    after the leading is_self/is_cls -> IMPLICIT test which is checked structurally."""
    tree = _parse("api_analyzer/_mypy_helpers.py")
    f = _find_func(tree, "get_argument_kind")
    if f is None:
        raise TranslatorError("translator cannot read get_argument_kind")
    top = [n for n in f.body if isinstance(n, ast.If)]
    if len(top) != 1:
        raise TranslatorError("translator cannot read get_argument_kind (shape)")
    chain = []
    node = top[0]
    first = True
    while True:
        test = node.test
        body = node.body
        if len(body) != 1 or not isinstance(body[0], ast.Return) or not isinstance(body[0].value, ast.Attribute):
            raise TranslatorError("translator cannot read get_argument_kind (branch body)")
        target = body[0].value.attr
        if first:
            src = ast.unparse(test).replace(" ", "")
            if src not in ("arg.variable.is_selforarg.variable.is_cls", "arg.variable.is_clsorarg.variable.is_self"):
                raise TranslatorError("translator cannot read get_argument_kind (receiver test)")
            chain.append((["<receiver>"], "any", target))
            first = False
        else:
            kinds: list[str] = []
            pos = "any"
            parts = test.values if isinstance(test, ast.BoolOp) and isinstance(test.op, ast.And) else [test]
            for part in parts:
                if isinstance(part, ast.Compare) and len(part.ops) == 1:
                    if isinstance(part.ops[0], ast.In):
                        coll = part.comparators[0]
                        if isinstance(coll, ast.Set | ast.Tuple | ast.List):
                            for e in coll.elts:
                                if isinstance(e, ast.Attribute):
                                    kinds.append(e.attr)
                                else:
                                    raise TranslatorError("translator cannot read get_argument_kind (kind set)")
                        else:
                            raise TranslatorError("translator cannot read get_argument_kind (kind set)")
                    elif isinstance(part.ops[0], ast.Eq) and isinstance(part.comparators[0], ast.Attribute):
                        kinds.append(part.comparators[0].attr)
                    else:
                        raise TranslatorError("translator cannot read get_argument_kind (comparison)")
                elif isinstance(part, ast.Attribute) and part.attr == "pos_only":
                    pos = "yes"
                elif isinstance(part, ast.UnaryOp) and isinstance(part.op, ast.Not) and isinstance(part.operand, ast.Attribute) \
                        and part.operand.attr == "pos_only":
                    pos = "no"
                else:
                    raise TranslatorError("translator cannot read get_argument_kind (condition)")
            chain.append((kinds, pos, target))
        if len(node.orelse) == 1 and isinstance(node.orelse[0], ast.If):
            node = node.orelse[0]
        else:
            break
    return chain


def type_of_any_whitelist() -> list[str]:
    tree = _parse("api_analyzer/_mypy_helpers.py")
    f = _find_func(tree, "has_correct_type_of_any")
    if f is None:
        raise TranslatorError("translator cannot read has_correct_type_of_any")
    for node in ast.walk(f):
        if isinstance(node, ast.Set | ast.Tuple | ast.List) and node.elts and all(isinstance(e, ast.Attribute) for e in node.elts):
            return sorted(e.attr for e in node.elts)  # type: ignore[union-attr]
    raise TranslatorError("translator cannot read has_correct_type_of_any")


def schema_version() -> int:
    tree = _parse("api_analyzer/_api.py")
    for node in tree.body:
        if isinstance(node, ast.Assign) and any(isinstance(t, ast.Name) and t.id == "API_SCHEMA_VERSION" for t in node.targets):
            if isinstance(node.value, ast.Constant) and isinstance(node.value.value, int):
                return node.value.value
    raise TranslatorError("translator cannot read API_SCHEMA_VERSION")


def from_dict_kinds() -> list[str]:
    tree = _parse("api_analyzer/_types.py")
    for node in ast.walk(tree):
        if isinstance(node, ast.ClassDef) and node.name == "AbstractType":
            f = _find_func(node, "from_dict")
            if f is None:
                break
            kinds = []
            for m in ast.walk(f):
                if isinstance(m, ast.Match):
                    for case in m.cases:
                        pat = case.pattern
                        if isinstance(pat, ast.MatchValue) and isinstance(pat.value, ast.Attribute) and pat.value.attr == "__name__" \
                                and isinstance(pat.value.value, ast.Name):
                            cls = pat.value.value.id
                            # the body must dispatch to the same class
                            b = case.body
                            if len(b) == 1 and isinstance(b[0], ast.Return) and ast.unparse(b[0].value) == f"{cls}.from_dict(d)":
                                kinds.append(cls)
                            else:
                                raise TranslatorError("translator cannot read AbstractType.from_dict (dispatch body)")
            if kinds:
                return kinds
    raise TranslatorError("translator cannot read AbstractType.from_dict")


def result_name_prefix() -> tuple[str, int, int]:
    tree = _parse("api_analyzer/_ast_visitor.py")
    f = _find_func(tree, "result_name_generator")
    if f is None:
        raise TranslatorError("translator cannot read result_name_generator")
    prefix = None
    rng = None
    for node in ast.walk(f):
        if isinstance(node, ast.JoinedStr):
            for v in node.values:
                if isinstance(v, ast.Constant) and isinstance(v.value, str):
                    prefix = v.value
        if isinstance(node, ast.Call) and isinstance(node.func, ast.Name) and node.func.id == "range":
            if len(node.args) == 2 and all(isinstance(a, ast.Constant) for a in node.args):
                rng = (node.args[0].value, node.args[1].value)  # type: ignore[union-attr]
    if prefix is None or rng is None:
        raise TranslatorError("translator cannot read result_name_generator")
    return prefix, rng[0], rng[1]


def replace_chain(func: str) -> list[tuple[str, str]]:
    """the body `return text.replace(a1, b1).replace(a2, b2)...` of an escape helper, as the ordered list of pairs"""
    tree = _parse("stubs_generator/_helper.py")
    f = _find_func(tree, func)
    if f is None or len(f.args.args) != 1:
        raise TranslatorError(f"translator cannot read {func}")
    arg = f.args.args[0].arg
    rets = [n for n in f.body if not (isinstance(n, ast.Expr) and isinstance(n.value, ast.Constant))]
    if len(rets) != 1 or not isinstance(rets[0], ast.Return) or rets[0].value is None:
        raise TranslatorError(f"translator cannot read {func}: the body is not a single return")
    pairs: list[tuple[str, str]] = []
    node = rets[0].value
    while True:
        if isinstance(node, ast.Name) and node.id == arg:
            break
        ok = (isinstance(node, ast.Call) and isinstance(node.func, ast.Attribute) and node.func.attr == "replace"
              and len(node.args) == 2 and not node.keywords
              and all(isinstance(a, ast.Constant) and isinstance(a.value, str) for a in node.args))
        if not ok:
            raise TranslatorError(f"translator cannot read {func}: not a chain of str.replace calls on the argument")
        pairs.append((node.args[0].value, node.args[1].value))  # type: ignore[union-attr]
        node = node.func.value  # type: ignore[union-attr]
    pairs.reverse()
    if any(not a for a, _ in pairs):
        raise TranslatorError(f"translator cannot read {func}: empty pattern")
    return pairs


def escape_call_sites() -> dict[str, int]:
    """how often the generator applies the two escape helpers (the model applies them at the same places)"""
    tree = _parse("stubs_generator/_stub_string_generator.py")
    out = {"_escape_comment_text": 0, "_escape_string_content": 0}
    for node in ast.walk(tree):
        if isinstance(node, ast.Call) and isinstance(node.func, ast.Name) and node.func.id in out:
            out[node.func.id] += 1
    return out


def generate() -> str:
    kw = keywords()
    todo = todo_messages()
    lines = []
    w = lines.append
    w("(* GENERATED by tools/extract_tables.py from /repo/src - do not edit. *)")
    w("From Coq Require Import List Ascii String ZArith.")
    w("From SV Require Import Lib.Str.")
    w("Import ListNotations.")
    w("")
    w(f"Definition t_keywords : list str := {coq_list(kw)}.")
    w(f"Definition t_indentation : str := {coq_str(indentation())}.")
    w("Definition t_todo_messages : list (str * str) := [" + "; ".join(f"({coq_str(k)}, {coq_str(v)})" for k, v in todo) + "].")
    w(f"Definition t_todo_prefix : str := {coq_str(todo_prefix())}.")
    wc = walker_children()
    w(f"Definition t_walker_module_children : list str := {coq_list(wc['module'])}.")
    w(f"Definition t_walker_class_children : list str := {coq_list(wc['class'])}.")
    w(f"Definition t_walker_enum_children : list str := {coq_list(wc['enum'])}.")
    w(f"Definition t_walker_init_children : list str := {coq_list(wc['init'])}.")
    w(f"Definition t_enum_base_names : list str := {coq_list(wc['enum_bases'])}.")
    rk, by_name = raised_todo_keys()
    w(f"Definition t_raised_todo_literals : list str := {coq_list(rk)}.")
    w(f"Definition t_raised_todo_by_name_sites : nat := {by_name}.")
    w("Definition t_builtin_type_names : list (str * str) := [" + "; ".join(
        f"({coq_str(k)}, {coq_str(v)})" for k, v in builtin_type_names()) + "].")
    w(f"Definition t_none_type_name : str := {coq_str(none_type_name())}.")
    w(f"Definition t_seq_kinds : list str := {coq_list(_set_containing('stubs_generator/_stub_string_generator.py', '_create_type_string', ['SetType', 'ListType', 'NamedSequenceType'], 'the sequence kinds of _create_type_string'))}.")
    w(f"Definition t_named_kinds : list str := {coq_list(_set_containing('stubs_generator/_stub_string_generator.py', '_create_type_string', ['NamedType', 'TupleType', 'DictType'], 'the has_named_type kinds of _create_type_string'))}.")
    w(f"Definition t_many_args_names : list str := {coq_list(_set_containing('stubs_generator/_stub_string_generator.py', '_create_type_string', ['Set', 'List'], 'the {Set, List} test of _create_type_string'))}.")
    w(f"Definition t_excluded_dirs : list str := {coq_list(excluded_dirs())}.")
    w(f"Definition t_init_file : str := {coq_str(init_file_name())}.")
    w(f"Definition t_glob_pattern : str := {coq_str(glob_pattern())}.")
    chain = arg_kind_chain()
    w("Definition t_arg_kind_chain : list (list str * str * str) := [" + "; ".join(
        f"({coq_list(k)}, {coq_str(p)}, {coq_str(t)})" for k, p, t in chain) + "].")
    w(f"Definition t_type_of_any_ok : list str := {coq_list(type_of_any_whitelist())}.")
    w(f"Definition t_schema_version : Z := {schema_version()}%Z.")
    w(f"Definition t_from_dict_kinds : list str := {coq_list(from_dict_kinds())}.")
    pre, lo, hi = result_name_prefix()
    w(f"Definition t_result_prefix : str := {coq_str(pre)}.")
    w(f"Definition t_result_range : Z * Z := ({lo}%Z, {hi}%Z).")
    w(f"Definition t_mypy_basic : list str := {coq_list(_set_containing('api_analyzer/_ast_visitor.py', 'mypy_type_to_abstract_type', ['int', 'str', 'bool', 'float'], 'the basic builtin names of mypy_type_to_abstract_type'))}.")
    w(f"Definition t_mypy_iterables : list str := {coq_list(_set_containing('api_analyzer/_ast_visitor.py', 'mypy_type_to_abstract_type', ['tuple', 'list', 'set', 'Sequence'], 'the iterable builtin names of mypy_type_to_abstract_type'))}.")
    w(f"Definition t_mypy_mappings : list str := {coq_list(_set_containing('api_analyzer/_ast_visitor.py', 'mypy_type_to_abstract_type', ['dict', 'Mapping'], 'the mapping names of mypy_type_to_abstract_type'))}.")
    w(f"Definition t_unbound_builtin : list str := {coq_list(_set_containing('api_analyzer/_ast_visitor.py', 'mypy_type_to_abstract_type', ['Any', 'str', 'None'], 'the unbound builtin names of mypy_type_to_abstract_type'))}.")
    for nm, fn in (("t_comment_escapes", "_escape_comment_text"), ("t_string_escapes", "_escape_string_content")):
        w(f"Definition {nm} : list (str * str) := [" + "; ".join(
            f"({coq_bytes(a)}, {coq_bytes(b)})" for a, b in replace_chain(fn)) + "].")
    sites = escape_call_sites()
    w(f"Definition t_comment_escape_sites : nat := {sites['_escape_comment_text']}.")
    w(f"Definition t_string_escape_sites : nat := {sites['_escape_string_content']}.")
    w("")
    return "\n".join(lines)


def main() -> int:
    out = Path(sys.argv[1]) if len(sys.argv) > 1 else Path(__file__).resolve().parent.parent / "coq" / "Gen" / "Tables.v"
    try:
        text = generate()
    except TranslatorError as e:
        print(f"TRANSLATOR-ERROR: {e}")
        return 2
    old = out.read_text() if out.exists() else None
    if old != text:
        out.parent.mkdir(parents=True, exist_ok=True)
        out.write_text(text)
        print("tables: updated")
    else:
        print("tables: unchanged")
    return 0


if __name__ == "__main__":
    sys.exit(main())
