"""Shared corpus of generated packages analysed by the real tool (L2/L3) with the model's answer for the same API
object (L1 on reachable stores).  Cached per (/repo/src hash, seed, tier, stream) so that the 20 checks share one run."""
from __future__ import annotations

import fcntl
import hashlib
import pickle
import random
import shutil
from dataclasses import dataclass
from pathlib import Path

import gen_pkg
import implrun
import sdsparse
import vlib

CACHE = vlib.VERIF / ".cache"
STYLES = ["plaintext", "numpydoc", "google", "rest"]


def repo_hash() -> str:
    h = hashlib.sha256()
    for p in sorted((vlib.REPO / "src").rglob("*.py")):
        h.update(str(p).encode())
        h.update(p.read_bytes())
    # the harness itself is part of the key
    for p in sorted((vlib.VERIF / "tools").glob("*.py")):
        h.update(p.read_bytes())
    drv = vlib.DRIVER
    if drv.exists():
        h.update(str(drv.stat().st_mtime_ns).encode())
    return h.hexdigest()[:20]


@dataclass
class Case:
    idx: int
    pkg: gen_pkg.Package
    files: dict
    job: dict
    answer: dict
    model: list | None      # parsed model answer of the `back` command on the real API object
    front: list | None = None   # parsed answer of the analyzer model (`front` command) on the dumped view
    pipe: list | None = None    # parsed answer of the whole-pipeline model (`run` command: view -> files)


def _evict():
    if not CACHE.exists():
        return
    entries = sorted(CACHE.iterdir(), key=lambda p: p.stat().st_mtime)
    total = sum(f.stat().st_size for e in entries for f in e.rglob("*") if f.is_file())
    while entries and total > 300 * 1024 * 1024:
        e = entries.pop(0)
        sz = sum(f.stat().st_size for f in e.rglob("*") if f.is_file())
        shutil.rmtree(e, ignore_errors=True)
        total -= sz


def stream_params(stream: str, i: int, rng: random.Random) -> dict:
    """package generation parameters and job options for case i of a stream"""
    if stream == "base":
        return {"gen": {"style": STYLES[i % 4], "keywords": i % 3 == 0, "nmods": 2 + i % 3, "private_root": i % 16 == 9},
                "job": {"nc": bool((i // 4) % 2), "tsp": "code", "tsw": "warn"}}
    if stream == "doc":
        # docstring-heavy packages: parameter and result types in the docstrings, named and unnamed result entries
        return {"gen": {"style": ["numpydoc", "numpydoc", "google", "rest"][i % 4], "doc_types": True, "nmods": 2, "keywords": False,
                        "result_name_grid": i % 4 == 0},
                "job": {"nc": False, "tsp": "code", "tsw": "warn"}}
    raise ValueError(stream)


def build(stream: str, n: int, seed: int) -> list[Case]:
    rng = random.Random(seed * 7919 + hash(stream) % 1000 if False else seed * 7919 + sum(map(ord, stream)))
    base = implrun.scratch_dir(f"corpus_{stream}")
    cases = []
    jobs = []
    for i in range(n):
        sp = stream_params(stream, i, rng)
        p = gen_pkg.gen_package(rng, i, **sp["gen"])
        files = gen_pkg.package_files(p)
        root = base / f"t{i}"
        implrun.write_tree(root, files)
        job = {"src": str(root / p.name), "out": str(base / f"o{i}"), "docstyle": p.style, "view": True, **sp["job"]}
        jobs.append(job)
        cases.append([i, p, files, job])
    if stream == "base":
        # regression witnesses of repaired defects: always part of the corpus
        import findings
        for wname, builder in findings.FIXED_BUILDERS.items():
            p, opts = builder()
            files = gen_pkg.package_files(p)
            root = base / f"fixed_{wname}"
            implrun.write_tree(root, files)
            job = {"src": str(root / p.name), "out": str(base / f"o_fixed_{wname}"), "docstyle": p.style, "nc": False, "tsp": "code",
                   "tsw": "warn", "view": True, **opts}
            jobs.append(job)
            cases.append([len(cases), p, files, job])
    answers = implrun.run_jobs(jobs)
    lines, idx = [], []
    for k, a in enumerate(answers):
        if a.get("api_sx"):
            lines.append("(" + vlib.sx("back") + " " + vlib.sx(bool(jobs[k].get("nc"))) + " " + a["api_sx"] + " ())")
            idx.append(k)
    models = vlib.run_model(lines) if lines else []
    by = dict(zip(idx, models, strict=True))
    fronts, pipes = run_front(answers, [bool(j.get("nc")) for j in jobs])
    import frontcmp
    out = []
    for k, (i, p, files, job) in enumerate(cases):
        a = answers[k]
        fr, pi = fronts[k], pipes[k]
        # on agreement the model's copies of the API tree, the JSON value and the files are not kept (they equal the implementation's)
        if fr is not None and job.get("view") and frontcmp.compare(a, fr)["status"] == "agree":
            fr = ["agree", "1" if (fr[0] == "ok" and fr[4] == "1") else "0", fr[1] if fr[0] == "err" else None]
        if pi is not None and pi[0] == "ok" and pi[2][0] == "ok" and not a.get("exc"):
            fm = {pp: t for pp, t in pi[2][5]}
            if fm == {pp: t for pp, t in a.get("stubs", {}).items() if pp.endswith(".sdsstub")}:
                pi = ["same-files", pi[1], pi[2][4]]
        out.append(Case(i, p, files, job, a, by.get(k), fr, pi))
    implrun.cleanup()
    return out


def run_front(answers: list[dict], ncs: list[bool]) -> tuple[list, list]:
    """the analyzer model (`front`) and the whole-pipeline model (`run`) on the view dumped for each job;
    api_sx/view_sx are replaced by the parsed API tree"""
    lines, idx = [], []
    for k, a in enumerate(answers):
        v = a.pop("view_sx", None)
        sxs = a.pop("api_sx", None)
        a["api_tree"] = vlib.parse_sx(sxs) if sxs else None
        if v:
            lines.append("(" + vlib.sx("front") + " " + v + ")")
            lines.append("(" + vlib.sx("run") + " " + vlib.sx(ncs[k]) + " " + v + ")")
            idx.append(k)
    ms = vlib.run_model(lines) if lines else []
    by_f = dict(zip(idx, ms[0::2], strict=True))
    by_p = dict(zip(idx, ms[1::2], strict=True))
    return [by_f.get(k) for k in range(len(answers))], [by_p.get(k) for k in range(len(answers))]


def pipeline_disagreements(cases: list[Case], prop: str) -> list[dict]:
    """the composed model (view -> API -> stub files) against the files the real tool wrote, on the property's projection"""
    dis = []
    for c in cases:
        m = c.pipe
        a = c.answer
        if m is None or not c.job.get("view") or not c.job.get("out"):
            continue
        if m[0] == "same-files":
            continue
        if m[0] == "bad-view":
            dis.append({"case": c.job, "what": "the pipeline model cannot read the dumped view"})
            continue
        if m[0] == "err":
            if not a.get("exc"):
                dis.append({"case": c.job, "what": f"pipeline model raises {m[1]}, the tool completes"})
            continue
        if a.get("exc"):
            dis.append({"case": c.job, "what": f"pipeline model completes, the tool raises {a['exc']}"})
            continue
        back = m[2]
        if m[1] == "1" or back[0] != "ok" or back[4] == "1":
            continue      # order-dependent choice inside the recorded finding regions
        fm = {p: t for p, t in back[5]}
        pi, pm = projection(impl_files(c), prop), projection(fm, prop)
        if pi != pm:
            if isinstance(pi, dict):
                k = next((k for k in sorted(set(pi) | set(pm)) if pi.get(k) != pm.get(k)), None)
                detail = {"file": k, "impl": (pi.get(k) or "<absent>")[:400], "model": (pm.get(k) or "<absent>")[:400]}
            else:
                si, sm = set(map(repr, pi)), set(map(repr, pm))
                detail = {"only_impl": sorted(si - sm)[:3], "only_model": sorted(sm - si)[:3]}
            dis.append({"case": c.job, "what": f"pipeline model (view -> files) and the tool differ on the {prop} projection", "detail": detail})
    return dis


def front_disagreements(cases: list[Case], prop: str) -> list[dict]:
    import frontcmp
    dis = []
    for c in cases:
        if not c.job.get("view"):
            continue
        d = frontcmp.disagreement(prop, c.answer, c.front)
        if d is not None:
            dis.append({"case": c.job, **d})
    return dis


def get(stream: str, n: int, seed: int, tier: str) -> list[Case]:
    key = f"{repo_hash()}_{stream}_{n}_{seed}_{tier}"
    CACHE.mkdir(parents=True, exist_ok=True)
    d = CACHE / key
    lock = open(CACHE / f".{key}.lock", "w")
    fcntl.flock(lock, fcntl.LOCK_EX)
    try:
        f = d / "corpus.pkl"
        if f.exists():
            try:
                return pickle.loads(f.read_bytes())
            except Exception:  # noqa: BLE001
                pass
        cases = build(stream, n, seed)
        d.mkdir(parents=True, exist_ok=True)
        f.write_bytes(pickle.dumps(cases))
        _evict()
        return cases
    finally:
        fcntl.flock(lock, fcntl.LOCK_UN)
        lock.close()
        try:
            (CACHE / f".{key}.lock").unlink()
        except OSError:
            pass


def base_size(tier: str) -> int:
    return 32 if tier == "quick" else 240


# ---------------------------------------------------------------------------------------------------------
# projections of a set of stub files
def parsed_files(files: dict[str, str]) -> dict[str, tuple]:
    return {p: sdsparse.parse(t) for p, t in files.items() if p.endswith(".sdsstub")}


def model_files(case: Case) -> dict[str, str] | None:
    m = case.model
    if m is None or m[0] != "ok":
        return None
    return {p: c for p, c in m[5]}


def impl_files(case: Case) -> dict[str, str]:
    return {p: c for p, c in case.answer.get("stubs", {}).items() if p.endswith(".sdsstub")}


def _decl_items(parsed: dict[str, tuple]):
    for path, (mod, err) in sorted(parsed.items()):
        if mod is None:
            yield path, None, None
            continue
        for owner, d in sdsparse.walk_decls(mod):
            yield path, owner, d


def projection(files: dict[str, str], prop: str):
    """the part of the output the property speaks about (model and implementation are compared on it)"""
    if prop in ("C02", "C08", "C16", "C18", "C01"):
        return files
    parsed = parsed_files(files)
    out = []
    for path, owner, d in _decl_items(parsed):
        if d is None:
            out.append((path, "<unparsable>", files[path] if prop == "C02" else None))
            continue
        key = (path, owner, d["kind"], d["pyname"])
        if prop in ("C03", "C04"):
            out.append(key + (tuple(m["pyname"] for m in d.get("members", [])) if d["kind"] == "enum" else (),))
        elif prop == "C05":
            tys = []
            if d["kind"] in ("fun", "class"):
                tys += [("param", p["pyname"], sdsparse.type_str(p["type"])) for p in (d.get("params") or [])]
                tys += [("result", r["name"], sdsparse.type_str(r["type"])) for r in d.get("results", [])]
                tys += [("bound", t["name"], sdsparse.type_str(t["bound"])) for t in d.get("tparams", [])]
            if d["kind"] == "attr":
                tys.append(("attr", d["pyname"], sdsparse.type_str(d["type"])))
            out.append(key + (tuple(tys),))
        elif prop == "C06":
            if d["kind"] in ("fun", "class"):
                out.append(key + (None if d.get("params") is None else tuple(
                    (p["pyname"], p["name"], p["default"], p["type"] is not None) for p in d["params"]),))
        elif prop == "C07":
            if d["kind"] == "fun":
                out.append(key + (tuple((r["name"], sdsparse.type_str(r["type"])) for r in d["results"]),))
        elif prop == "C09":
            extra = ()
            if d["kind"] in ("fun", "class"):
                extra = tuple((p["pyname"], p["name"]) for p in (d.get("params") or [])) + tuple(
                    ("result", r["name"]) for r in d.get("results", [])) + tuple(("tp", t["name"]) for t in d.get("tparams", []))
            if d["kind"] == "enum":
                extra = tuple((m["pyname"], m["name"]) for m in d["members"])
            out.append(key + (d["name"], extra))
        elif prop == "C13":
            out.append(key + (tuple(tuple(sdsparse.doc_lines(x)) for x in d["doc"]),))
        elif prop == "C17":
            if d["kind"] == "class":
                out.append(key + (tuple(sdsparse.type_str(s) for s in d["supers"]),
                                  tuple((m["kind"], m["pyname"]) for m in d["members"])))
        elif prop == "C20":
            out.append(key + (tuple(d["todos"]),))
        elif prop == "C14":
            tys = []
            if d["kind"] in ("fun", "class"):
                tys += [("param", p["pyname"], sdsparse.type_str(p["type"]), p["default"]) for p in (d.get("params") or [])]
                tys += [("result", r["name"], sdsparse.type_str(r["type"])) for r in d.get("results", [])]
            out.append(key + (tuple(tys),))
    if prop in ("C10", "C11", "C09"):
        for path, (mod, err) in sorted(parsed.items()):
            if mod is None:
                out.append((path, "<unparsable>"))
            elif prop == "C10":
                out.append((path, mod["package"], mod["python_module"], tuple(sorted(d["name"] for d in mod["decls"]))))
            elif prop == "C09":
                out.append((path, mod["package"], mod["python_module"], tuple(mod["imports"])))
            else:
                out.append((path, mod["package"], tuple(mod["imports"]), tuple(sorted(d["name"] for d in mod["decls"]))))
    return out


def back_disagreements(cases: list[Case], prop: str) -> list[dict]:
    """compare the model's files with the implementation's files on the property's projection"""
    dis = []
    for c in cases:
        a, m = c.answer, c.model
        if m is None:
            if not a.get("exc"):
                dis.append({"case": c.job, "what": "no model answer"})
            continue
        if m[0] == "err":
            if not a.get("exc") or a["exc"]["type"] != m[1]:
                dis.append({"case": c.job, "what": f"model raises {m[1]}, implementation: {a.get('exc')}"})
            continue
        if m[0] != "ok":
            dis.append({"case": c.job, "what": f"model answer {m}"})
            continue
        if a.get("exc"):
            # the analyzer completed (there is a model answer), so the exception came from the generator
            dis.append({"case": c.job, "what": f"implementation raises {a['exc']}, model completes"})
            continue
        if m[4] == "1":
            continue   # tie between equally short re-exports: recorded finding region (compared by C08/C11 only)
        pi = projection(impl_files(c), prop)
        pm = projection(model_files(c), prop)
        if pi != pm:
            detail = None
            if isinstance(pi, dict):
                for k in sorted(set(pi) | set(pm)):
                    if pi.get(k) != pm.get(k):
                        detail = {"file": k, "impl": (pi.get(k) or "<absent>")[:600], "model": (pm.get(k) or "<absent>")[:600]}
                        break
            else:
                si, sm = set(map(repr, pi)), set(map(repr, pm))
                detail = {"only_impl": sorted(si - sm)[:3], "only_model": sorted(sm - si)[:3]}
            dis.append({"case": c.job, "what": f"projection {prop} differs", "detail": detail})
    return dis


# ---------------------------------------------------------------------------------------------------------
# L1: synthetic API objects
def l1_size(tier: str) -> int:
    return 1000 if tier == "quick" else 8000


def get_l1(seed: int, tier: str) -> list[dict]:
    import l1
    n = l1_size(tier)
    key = f"{repo_hash()}_l1_{n}_{seed}"
    CACHE.mkdir(parents=True, exist_ok=True)
    d = CACHE / key
    lock = open(CACHE / f".{key}.lock", "w")
    fcntl.flock(lock, fcntl.LOCK_EX)
    try:
        f = d / "l1.pkl"
        if f.exists():
            try:
                return pickle.loads(f.read_bytes())
            except Exception:  # noqa: BLE001
                pass
        items = l1.run_l1(n, seed)
        d.mkdir(parents=True, exist_ok=True)
        f.write_bytes(pickle.dumps(items))
        _evict()
        return items
    finally:
        fcntl.flock(lock, fcntl.LOCK_UN)
        lock.close()
        try:
            (CACHE / f".{key}.lock").unlink()
        except OSError:
            pass


def l1_disagreements(items: list[dict], prop: str) -> list[dict]:
    dis = []
    for it in items:
        a, m = it["impl"], it["model"]
        tag = {"l1_api_seed": it["api_seed"], "nc": it["nc"]}
        if m[0] == "err":
            if not a.get("exc") or a["exc"]["type"] != m[1]:
                dis.append({"case": tag, "what": f"model raises {m[1]}, implementation: {a.get('exc')}"})
            continue
        if m[0] != "ok":
            dis.append({"case": tag, "what": f"model answer {m}"})
            continue
        if a.get("exc"):
            dis.append({"case": tag, "what": f"implementation raises {a['exc']}, model completes"})
            continue
        if m[4] == "1":
            continue
        fi = {p: c for p, c in a["stubs"].items() if p.endswith(".sdsstub")}
        fm = {p: c for p, c in m[5]}
        pi, pm = projection(fi, prop), projection(fm, prop)
        if pi != pm:
            detail = None
            if isinstance(pi, dict):
                for k in sorted(set(pi) | set(pm)):
                    if pi.get(k) != pm.get(k):
                        detail = {"file": k, "impl": (pi.get(k) or "<absent>")[:500], "model": (pm.get(k) or "<absent>")[:500]}
                        break
            else:
                si, sm = set(map(repr, pi)), set(map(repr, pm))
                detail = {"only_impl": sorted(si - sm)[:3], "only_model": sorted(sm - si)[:3]}
            dis.append({"case": tag, "what": f"projection {prop} differs on a generated API object", "detail": detail})
    return dis
