#!/bin/bash
# usage: eval_ids.sh <seeded id>... : for each id apply seeded/<id>/patch.diff to a SCRATCH COPY of the repository (a git worktree
# outside /repo and /verif, removed at the end), run the quick check of its property from this tree against that copy
# (VERIF_REPO), undo the patch. Prints one RESULT line per id. Meant to be started with `vp run` (works in its snapshot).
here=$(cd "$(dirname "$0")/.." && pwd)
cd $here
copy=/tmp/verif_eval_repo_$$
git -C /repo worktree add --detach $copy HEAD > /dev/null 2>&1 || { echo "cannot create the scratch worktree"; exit 2; }
trap 'git -C /repo worktree remove --force '$copy' > /dev/null 2>&1' EXIT
export VERIF_REPO=$copy
[ -x coq/Extract/ml/model_driver ] || ./setup.sh > /dev/null 2>&1
for id in "$@"; do
  prop=$(python3 -c "import json;print(json.load(open('$here/seeded/$id/meta.json'))['property'])")
  (cd $copy && git apply $here/seeded/$id/patch.diff) || { echo "RESULT $id $prop patch-does-not-apply"; continue; }
  log=$(./check $prop --tier quick 2>&1 | grep -v "^KNOWN\|^INFO")
  git -C $copy checkout -- .
  rc=$(echo "$log" | tail -1 | sed 's/.*exit=//')
  nv=$(echo "$log" | grep -c '^VIOLATION')
  nf=$(echo "$log" | grep '^VIOLATION' | grep -vc 'no-failing-input-found')
  echo "RESULT $id $prop exit=$rc violation_lines=$nv with_failing_input=$nf :: $(echo "$log" | tail -1 | sed 's/ wall=.*//')"
done
