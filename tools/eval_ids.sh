#!/bin/bash
# usage: eval_ids.sh <seeded id>... : for each id apply seeded/<id>/patch.diff to /repo, run the quick check of its property from this tree, undo the patch.
# Prints one line per id; meant to be started with `vp run` (works in the snapshot it is started from).
here=$(cd "$(dirname "$0")/.." && pwd)
cd $here
[ -x coq/Extract/ml/model_driver ] || ./setup.sh > /dev/null 2>&1
for id in "$@"; do
  prop=$(python3 -c "import json;print(json.load(open('$here/seeded/$id/meta.json'))['property'])")
  (cd /repo && git apply $here/seeded/$id/patch.diff) || { echo "RESULT $id $prop patch-does-not-apply"; continue; }
  log=$(./check $prop --tier quick 2>&1 | grep -v "^KNOWN\|^INFO")
  git -C /repo checkout -- .
  rc=$(echo "$log" | tail -1 | sed 's/.*exit=//')
  nv=$(echo "$log" | grep -c '^VIOLATION')
  nf=$(echo "$log" | grep '^VIOLATION' | grep -vc 'no-failing-input-found')
  echo "RESULT $id $prop exit=$rc violation_lines=$nv with_failing_input=$nf :: $(echo "$log" | tail -1 | sed 's/ wall=.*//')"
  cp -r replays/$prop replays_$id 2>/dev/null
done
