#!/bin/bash
# usage: run_quick_all.sh <seed> : every quick check once under the given seed, 4 at a time; logs under .work/quick_<seed>
cd "$(dirname "$0")/.."
seed=$1; d=.work/quick_$seed; rm -rf $d; mkdir -p $d
export VERIF_SEED=$seed
for p in C01 C02 C03 C04 C05 C06 C07 C08 C09 C10 C11 C12 C13 C14 C15 C16 C17 C18 C19 C20; do echo $p; done | \
  xargs -P ${VERIF_PAR:-4} -I{} sh -c "./check {} --tier quick > $d/{}.log 2>&1; echo \"{} rc=\$?\" >> $d/summary.txt"
