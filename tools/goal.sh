#!/bin/bash
# usage: goal.sh <file.v> <line> : print the proof state just before <line>
f=$1; n=$2
tmp=$(dirname $f)/_goal_tmp.v
head -n $((n-1)) $f > $tmp
echo "Show. Abort All." >> $tmp
cd /verif/coq && timeout 120 coqc -R . SV $tmp 2>&1 | tail -${3:-40}
rm -f $tmp $(dirname $f)/_goal_tmp.vo $(dirname $f)/_goal_tmp.glob $(dirname $f)/._goal_tmp.aux $(dirname $f)/_goal_tmp.vok $(dirname $f)/_goal_tmp.vos
