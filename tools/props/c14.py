"""C14: type-source preference settles only real conflicts; warnings never alter output."""
from __future__ import annotations

import random

import gen_pkg
import implrun
import vlib
from safeds_stubgen.api_analyzer._types import AbstractType

STYLES = ["numpydoc", "google", "numpydoc", "rest", "numpydoc"]
PW = "Different type hint and docstring types for '"
RW = "Different type hint and docstring types for the result of '"


TUPLE_MULTIPLICITY_SOURCE = '''

def tuple_multiplicity_c14(pair: tuple[int, int, str], other: tuple[str, int]) -> int:
    """Doc of tuple_multiplicity_c14.

    Parameters
    ----------
    pair : tuple[int, str, str]
        About pair.
    other : tuple[int, str]
        About other.
    """
    return 1
'''


def tsx(d):
    return [] if d is None else [vlib.ty_sx(AbstractType.from_dict(d))]


def sx_to_dict(t):
    """ty S-expression tree (as produced by vlib.ty_sx) -> to_dict form"""
    import safeds_stubgen.api_analyzer._types as T
    def lit(x):
        k = x[0]
        return x[1] if k == "s" else (int(x[1]) if k == "i" else (bool(x[1]) if k == "b" else (float(x[1]) if k == "f" else None)))
    def ty(x):
        k = x[0]
        if k == "U":
            return T.UnknownType()
        if k == "N":
            return T.NamedType(x[1], x[2])
        if k == "NS":
            return T.NamedSequenceType(x[1], x[2], [ty(y) for y in x[3]])
        if k == "Un":
            return T.UnionType([ty(y) for y in x[1]])
        if k == "Li":
            return T.ListType([ty(y) for y in x[1]])
        if k == "S":
            return T.SetType([ty(y) for y in x[1]])
        if k == "T":
            return T.TupleType([ty(y) for y in x[1]])
        if k == "Lit":
            return T.LiteralType([lit(y) for y in x[1]])
        if k == "F":
            return T.FinalType(ty(x[1][0]))
        if k == "D":
            return T.DictType(ty(x[1][0]), ty(x[2][0]))
        if k == "C":
            return T.CallableType([ty(y) for y in x[1]], ty(x[2][0]))
        if k == "TV":
            return T.TypeVarType(x[1], ty(x[2][0]) if x[2] else None)
        raise ValueError(x)
    return ty(t).to_dict()


def doc_type(d):
    """the API JSON stores docstring types through dataclasses.asdict (no "kind"); the generated docstring types are names"""
    if d is None:
        return None
    if set(d) == {"name", "qname"}:
        return {"kind": "NamedType", **d}
    if "kind" in d:
        return d
    raise ValueError(f"unexpected docstring type {d}")


def dval(v):
    if v is None:
        return ["none"]
    if v == "UnknownValue":
        return ["u"]
    if isinstance(v, bool):
        return ["b", v]
    if isinstance(v, int):
        return ["i", v]
    if isinstance(v, float):
        return ["f", repr(v)]
    return ["s", v]


def run(ctx):
    rng = random.Random(ctx["seed"] + 14)
    tier = ctx["tier"]
    npk = 10 if tier == "quick" else 60
    base = implrun.scratch_dir("c14")
    jobs, meta = [], []
    import findings
    for i in range(npk):
        style = STYLES[i % 5]
        if i == 0:
            p, _ = findings.result_warn_always()   # the recorded witness runs first
            style = p.style
        else:
            p = gen_pkg.gen_package(rng, i, style=style, doc_types=True, nmods=2, reexports=False)
            if i == 2:
                # hint and docstring type are tuples with the same members in other multiplicities: a real conflict
                p.modules[0].extra_source = TUPLE_MULTIPLICITY_SOURCE
        files = gen_pkg.package_files(p)
        root = base / f"t{i}"
        implrun.write_tree(root, files)
        combos = [("plaintext", "code", "warn")] + [(style, tsp, tsw) for tsp in ("code", "docstring") for tsw in ("warn", "ignore")]
        for (st, tsp, tsw) in combos:
            jobs.append({"src": str(root / p.name), "out": str(base / f"o{i}_{st}_{tsp}_{tsw}"), "docstyle": st, "tsp": tsp, "tsw": tsw,
                         "encode_api": False, "doc_types": True})
            meta.append((i, p, files, st, tsp, tsw))
    answers = implrun.run_jobs(jobs)
    implrun.cleanup()

    violations, disagreements = [], []
    code_results_all = {}
    cases, cmeta = [], []
    n_both = n_conflict = n_decl = 0
    samples = []
    for i in range(npk):
        group = [(m, a) for m, a in zip(meta, answers, strict=True) if m[0] == i]
        p, files = group[0][0][1], group[0][0][2]
        crashed = [a["exc"] for _, a in group if a.get("exc")]
        if crashed:
            continue   # totality is C01's business
        base_a = group[0][1]
        code_params = {x["id"]: x for x in base_a["api"]["parameters"]}
        code_results = {f["id"]: [r for r in base_a["api"]["results"] if r["id"] in f["results"]] for f in base_a["api"]["functions"]}
        for f_id, rs_ in code_results.items():
            code_results_all[(p.name, f_id)] = rs_
        by = {(m[4], m[5]): a for m, a in group[1:]}
        # ---- warnings never alter output ----
        for tsp in ("code", "docstring"):
            a1, a2 = by[(tsp, "warn")], by[(tsp, "ignore")]
            if a1["json_text"] != a2["json_text"] or a1["stubs"] != a2["stubs"]:
                violations.append({"what": f"output differs between -tsw warn and ignore under -tsp {tsp}", "package": p.name,
                                   "files": files, "finding": None})
            if any(m.startswith(PW) or m.startswith(RW) for lv, m in a2["log"]):
                violations.append({"what": "a discrepancy warning is logged although warnings are disabled", "package": p.name,
                                   "files": files, "finding": None})
        ref = by[("code", "warn")]
        doc_params = {x["id"]: x for x in ref["api"]["parameters"]}
        funcs = {f["id"]: f for f in ref["api"]["functions"]}
        # docstring result types are not in the JSON; take them from the description
        fdesc = {}
        for t in _funcs(p):
            fdesc[t[0]] = t[1]
        for fid, fj in funcs.items():
            n_decl += 1
            plist = [doc_params[i_] for i_ in fj["parameters"]]
            exp_conflicts = 0
            for pj in plist:
                code_t = code_params.get(pj["id"], {}).get("type")
                dsx = ref["param_doc_types"].get(pj["id"], [])
                doc_t = sx_to_dict(dsx[0]) if dsx else None
                if code_t is not None and doc_t is not None:
                    n_both += 1
                    if AbstractType.from_dict(code_t) != AbstractType.from_dict(doc_t):
                        exp_conflicts += 1
                        n_conflict += 1
                for tsp in ("code", "docstring"):
                    got = {x["id"]: x for x in by[(tsp, "warn")]["api"]["parameters"]}[pj["id"]]["type"]
                    want = (code_t if code_t is not None else doc_t) if tsp == "code" else (doc_t if doc_t is not None else code_t)
                    if (got is None) != (want is None) or (got is not None and AbstractType.from_dict(got) != AbstractType.from_dict(want)):
                        violations.append({"what": f"parameter {pj['id']} under -tsp {tsp}: type {got}, hint {code_t}, docstring {doc_t}",
                                           "package": p.name, "files": files, "finding": None})
            got_w = sum(1 for lv, m in ref["log"] if m == f"{PW}{fid}'.")
            if got_w != exp_conflicts:
                violations.append({"what": f"{got_w} parameter warnings for {fid}, {exp_conflicts} real conflicts", "package": p.name,
                                   "files": files, "finding": None})
            # ---- model correspondence for this function ----
            fd = fdesc.get(fid)
            rdocs = ref["result_docs"].get(fid, [])
            psx = []
            for pj in plist:
                cj = code_params.get(pj["id"])
                if cj is None:
                    break
                psx.append([pj["id"], pj["name"], bool(cj["is_optional"]), dval(cj["default_value"]), pj["assigned_by"],
                            ref["param_doc_types"].get(pj["id"], []), pj["docstring"]["default_value"], pj["docstring"]["description"], tsx(cj["type"])])
            rsx = [[r["id"], r["name"], tsx(r["type"])] for r in code_results.get(fid, [])]
            for tsp in ("code", "docstring"):
                for tsw in ("warn", "ignore"):
                    cases.append(vlib.sx(["reconcile", tsp == "docstring", tsw == "warn", fid, psx, rsx, rdocs]))
                    cmeta.append((p, files, fid, tsp, tsw, by[(tsp, tsw)], len(plist) == len(psx), True))
        if i < 2:
            samples.append({"package": p.name, "style": p.style, "functions": len(funcs)})
    model = vlib.run_model(cases)
    for (p, files, fid, tsp, tsw, a, ok_p, ok_r), m in zip(cmeta, model, strict=True):
        if not ok_p:
            continue
        api = a["api"]
        fj = next(f for f in api["functions"] if f["id"] == fid)
        params = {x["id"]: x for x in api["parameters"]}
        got_p = [[vlib.canon_jv_tree(vlib.jv_tree(params[i_]["type"])) if params[i_]["type"] is not None else None,
                  bool(params[i_]["is_optional"]), params[i_]["default_value"]] for i_ in fj["parameters"]]
        mod_p = []
        for t, o, d in m[0]:
            dv = None if d[0] == "none" else ("UnknownValue" if d[0] == "u" else (d[1] == "1" if d[0] == "b" else (int(d[1]) if d[0] == "i" else (float(d[1]) if d[0] == "f" else d[1]))))
            mod_p.append([vlib.canon_jv_tree(t[0]) if t else None, o == "1", dv])
        if got_p != mod_p:
            disagreements.append({"case": [fid, tsp, tsw], "what": "parameters after reconciliation", "impl": got_p[:4], "model": mod_p[:4]})
        got_pw = sum(1 for lv, msg in a["log"] if msg == f"{PW}{fid}'.")
        if got_pw != int(m[1]):
            disagreements.append({"case": [fid, tsp, tsw], "what": "parameter warnings", "impl": got_pw, "model": int(m[1])})
        if ok_r:
            results = {x["id"]: x for x in api["results"]}
            got_r = [[results[i_]["id"], results[i_]["name"],
                      vlib.canon_jv_tree(vlib.jv_tree(results[i_]["type"])) if results[i_]["type"] is not None else None] for i_ in fj["results"]]
            mod_r = [[i_, n_, vlib.canon_jv_tree(t[0]) if t else None] for i_, n_, t in m[2]]
            # result names come from _parse_results (docstring names), which the baseline run does not see: compare the types
            if [x[2] for x in got_r] != [x[2] for x in mod_r]:
                disagreements.append({"case": [fid, tsp, tsw], "what": "result types after reconciliation",
                                      "impl": [x[2] for x in got_r], "model": [x[2] for x in mod_r]})
            got_rw = sum(1 for lv, msg in a["log"] if msg == f"{RW}{fid}'.")
            if got_rw != int(m[3]):
                disagreements.append({"case": [fid, tsp, tsw], "what": "result warnings", "impl": got_rw, "model": int(m[3])})
            # the property: per result position, the docstring type under DOCSTRING when there is one, the hint otherwise
            # (a docstring entry can only be attributed to a position when the docstring lists as many results as the hint)
            rd_all = a.get("result_docs", {}).get(fid, [])
            base_rs = code_results_all.get((p.name, fid), [])
            if base_rs and len(rd_all) == len(base_rs) and len(got_r) == len(base_rs):
                for k in range(len(base_rs)):
                    code_t = base_rs[k]["type"]
                    doc_t = sx_to_dict(rd_all[k][0][0]) if rd_all[k][0] else None
                    want = (doc_t if doc_t is not None else code_t) if tsp == "docstring" else (code_t if code_t is not None else doc_t)
                    have = got_r[k][2]
                    if (want is None) != (have is None) or (want is not None and vlib.canon_jv_tree(vlib.jv_tree(want)) != have):
                        violations.append({"what": f"result {k} of {fid} under -tsp {tsp}: type {have}, hint {code_t}, docstring {doc_t}",
                                           "package": p.name, "files": files if len(violations) < 3 else None, "finding": None})
                        break
            # the property: a result warning only when both sources give different types
            if tsw == "warn" and tsp == "code" and got_rw:
                rd = a.get("result_docs", {}).get(fid, [])
                code_r = [r for r in got_r]
                for k in range(min(len(rd), len(code_r))):
                    if rd[k][0] and code_r[k][2] is not None and vlib.canon_jv_tree(vlib.jv_tree(sx_to_dict(rd[k][0][0]))) == code_r[k][2]:
                        violations.append({"what": f"result warning for {fid} although hint and docstring give the same type",
                                           "package": p.name, "files": files if len(violations) < 3 else None, "finding": "result_warn_always"})
                        break
    # the translation of docstring types (Model/DocTypes.v against _griffe_annotation_to_api_type)
    import doctypes
    d_dis, d_vio, d_n, d_stats = doctypes.run_l0(ctx["seed"], tier)
    disagreements += d_dis
    violations += d_vio
    return {
        "evaluations": len(jobs) + len(cases) + d_n,
        "distinct_nontrivial": n_both,
        "rule": "generated packages with structured docstrings (numpydoc, google, reST) whose parameters/results have a hint, a docstring "
                "type, both (equal or different) or neither; each analysed under plaintext (hints only) and under the 2x2 grid of "
                "preference x warning; per function the model's reconciliation is run on (hint types, docstring types) and compared with "
                "the API JSON and the WARNING records; non-trivial = a parameter with both a hint and a docstring type; counted per "
                "parameter; plus every docstring type expression of rich generated docstrings and a list of hand-written type strings, "
                "translated by the model of _griffe_annotation_to_api_type and by the implementation (under a time limit)",
        "samples": samples or ["<none>"],
        "disagreements": disagreements,
        "violations": violations,
        "stats": {"packages": npk, "functions": n_decl, "params_with_both": n_both, "real_conflicts": n_conflict, "model_cases": len(cases),
                  "docstring_type_translations_compared": d_n, **d_stats},
        "assumptions": ["griffe's parse of the docstring sections and its parse_annotation are taken as given (inputs of the docstring "
                        "type model); the translation of the parsed expression to an API type is modelled and compared"],
    }


def _funcs(p: gen_pkg.Package):
    for m in p.modules:
        mid = m.dotted.replace(".", "/")
        for f in m.funcs:
            yield f"{mid}/{f.name}", f
        def rec(c, own):
            cid = f"{own}/{c.name}"
            for f in c.methods:
                yield f"{cid}/{f.name}", f
            for ic in c.inner:
                if isinstance(ic, gen_pkg.Cls):
                    yield from rec(ic, cid)
        for c in m.classes:
            yield from rec(c, mid)
