"""C12: the API JSON is a complete, internally consistent inventory."""
import corpus
import oracles
from props.common import corpus_check


def run(ctx):
    r = corpus_check(ctx, "C12", oracles.c12, use_l1=False)
    # the JSON is produced by the analyzer: the correspondence that concerns it is the analyzer model (API object, flat
    # dictionaries, JSON value); the back-end (stub text) correspondence does not
    r["disagreements"] = corpus.front_disagreements(r["cases"], "C12")
    return r
