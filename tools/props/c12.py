"""C12: the API JSON is a complete, internally consistent inventory."""
import oracles
from props.common import corpus_check


def run(ctx):
    r = corpus_check(ctx, "C12", oracles.c12, use_l1=False)
    r["disagreements"] = []   # the JSON is produced by the analyzer; the back-end correspondence does not concern it
    return r
