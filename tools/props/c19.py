"""C19: type round trip, equality and hashing laws -- correspondence with _types.py and search on the implementation."""
from __future__ import annotations

import random

import gen_types as G
import vlib
import safeds_stubgen.api_analyzer._types as T


def impl_roundtrip(t):
    """what the implementation does; exceptions are part of the observable behaviour"""
    out = {}
    try:
        d = t.to_dict()
        out["d"] = vlib.canon_jv_tree(vlib.jv_tree(d))
        t2 = T.AbstractType.from_dict(d)
        d2 = t2.to_dict()
        out["d2"] = vlib.canon_jv_tree(vlib.jv_tree(d2))
        out["eq"] = bool(t == t2)
        out["eq_rev"] = bool(t2 == t)
        out["refl"] = bool(t == t)
        try:
            out["hash_eq"] = hash(t) == hash(t2)
        except TypeError as e:
            out["hash_eq"] = f"TypeError: {e}"
    except Exception as e:  # noqa: BLE001
        out["exc"] = type(e).__name__
    return out


def perturbations(t):
    """copies of t that differ in exactly one field somewhere in the term"""
    out = []
    if isinstance(t, T.BoundaryType):
        for mn in {t.min, "NegativeInfinity", 0}:
            for mx in {t.max, "Infinity", 10}:
                for i1 in (True, False):
                    for i2 in (True, False):
                        v = T.BoundaryType(t.base_type, mn, mx, i1, i2)
                        if (mn, mx, i1, i2) != (t.min, t.max, t.min_inclusive, t.max_inclusive):
                            out.append(v)
        out.append(T.BoundaryType("int" if t.base_type == "float" else "float", t.min, t.max, t.min_inclusive, t.max_inclusive))
    elif isinstance(t, T.NamedType):
        out += [T.NamedType(t.name + "x", t.qname), T.NamedType(t.name, t.qname + "x")]
    elif isinstance(t, T.EnumType):
        out += [T.EnumType(frozenset(set(t.values) | {"extra"})), T.EnumType(frozenset(list(t.values)[1:]))]
    elif isinstance(t, T.LiteralType):
        out += [T.LiteralType([*t.literals, 99]), T.LiteralType(list(t.literals[1:])), T.LiteralType(list(reversed(t.literals)))]
    elif isinstance(t, T.TypeVarType):
        out += [T.TypeVarType(t.name + "x", t.upper_bound), T.TypeVarType(t.name, T.UnknownType() if t.upper_bound is None else None)]
    elif isinstance(t, T.UnionType | T.ListType | T.SetType | T.TupleType):
        ts = list(t.types)
        out += [type(t)(ts + [T.UnknownType()]), type(t)(ts[1:]), type(t)(list(reversed(ts)))]
        for k, x in enumerate(ts[:2]):
            for px in perturbations(x)[:3]:
                out.append(type(t)(ts[:k] + [px] + ts[k + 1:]))
        for c in (T.UnionType, T.ListType, T.SetType, T.TupleType):
            if c is not type(t):
                out.append(c(ts))
    elif isinstance(t, T.NamedSequenceType):
        out += [T.NamedSequenceType(t.name + "x", t.qname, t.types), T.NamedSequenceType(t.name, t.qname, list(reversed(t.types)))]
    elif isinstance(t, T.DictType):
        out += [T.DictType(t.value_type, t.key_type)] + [T.DictType(px, t.value_type) for px in perturbations(t.key_type)[:2]]
    elif isinstance(t, T.CallableType):
        out += [T.CallableType(list(reversed(t.parameter_types)), t.return_type)] + [T.CallableType(t.parameter_types, px) for px in perturbations(t.return_type)[:2]]
    elif isinstance(t, T.FinalType):
        out += [T.FinalType(px) for px in perturbations(t.type_)[:3]]
    return out


def run(ctx):
    rng = random.Random(ctx["seed"])
    tier = ctx["tier"]
    leaves = G.leaves()
    level1 = G.grow(leaves[:9], max_arity=2)
    terms = list(leaves) + level1
    small = [T.UnknownType(), T.NamedType("a", "p.a"), T.LiteralType([1]), T.TypeVarType("T")]
    level2 = G.grow(small + G.grow(small, max_arity=1), max_arity=2, limit=3000 if tier == "quick" else 20000, rng=rng)
    terms += level2
    n_rand = 1500 if tier == "quick" else 30000
    terms += [G.random_type(rng, rng.randrange(1, 7)) for _ in range(n_rand)]

    disagreements, violations = [], []
    # ---- unary laws + correspondence of to_dict / from_dict / == ----
    cases = [vlib.sx(["types_roundtrip", vlib.ty_sx(t)]) for t in terms]
    answers = vlib.run_model(cases)
    distinct = set()
    kinds: dict[str, int] = {}
    for t, c, a in zip(terms, cases, answers, strict=True):
        distinct.add(c)
        kinds[type(t).__name__] = kinds.get(type(t).__name__, 0) + 1
        im = impl_roundtrip(t)
        # model answer: [jv, (ok jv2 eq eqrev) | (err e), refl]
        m_d = vlib.canon_jv_tree(a[0])
        if "exc" in im:
            if a[1][0] != "err":
                disagreements.append({"case": repr(t), "impl": im, "model": "ok"})
            violations.append({"what": f"round trip raises {im['exc']}", "input": repr(t), "finding": None})
            continue
        ok = (a[1][0] == "ok" and m_d == im["d"] and vlib.canon_jv_tree(a[1][1]) == im["d2"]
              and (a[1][2] == "1") == im["eq"] and (a[1][3] == "1") == im["eq_rev"] and (a[2] == "1") == im["refl"])
        if not ok:
            disagreements.append({"case": repr(t), "impl": im, "model": a})
        # the property itself, on the implementation
        if not (im["eq"] and im["eq_rev"] and im["d"] == im["d2"] and im["refl"] and im["hash_eq"] is True):
            violations.append({"what": "round-trip / reflexivity / hash law fails on the implementation",
                               "input": repr(t), "observed": im, "finding": None})

    # ---- binary laws ----
    pair_pool = leaves + level1[:: max(1, len(level1) // 150)]
    pairs = [(a, b) for a in pair_pool[:60] for b in pair_pool[:60]]
    n_pairs = 3000 if tier == "quick" else 60000
    for _ in range(n_pairs):
        a = G.random_type(rng, rng.randrange(0, 4))
        r = rng.random()
        if r < 0.4:
            b = G.shuffled(rng, a)
        elif r < 0.6:
            b = G.random_type(rng, rng.randrange(0, 4))
        else:
            b = rng.choice(pair_pool)
            a = rng.choice(pair_pool) if rng.random() < 0.5 else a
        pairs.append((a, b))
    # near misses: every term against its single-field perturbations (one flag, bound, name or literal changed)
    for t in leaves + level1[:: max(1, len(level1) // 100)] + [G.random_type(rng, 2) for _ in range(300 if tier == "quick" else 4000)]:
        for v in perturbations(t):
            pairs.append((t, v))
    pcases = [vlib.sx(["types_pair", vlib.ty_sx(a), vlib.ty_sx(b)]) for a, b in pairs]
    pans = vlib.run_model(pcases)
    n_equal = 0
    for (a, b), c, m in zip(pairs, pcases, pans, strict=True):
        distinct.add(c)
        try:
            e1, e2 = bool(a == b), bool(b == a)
            h = hash(a) == hash(b)
        except Exception as e:  # noqa: BLE001
            violations.append({"what": f"== / hash raises {type(e).__name__}", "input": [repr(a), repr(b)], "finding": None})
            continue
        n_equal += e1
        me1, me2, mh = m[0] == "1", m[1] == "1", m[2] == "1"
        if (e1, e2) != (me1, me2) or (mh and not h):
            disagreements.append({"case": [repr(a), repr(b)], "impl": [e1, e2, h], "model": [me1, me2, mh]})
        if e1 != e2:
            violations.append({"what": "equality is not symmetric", "input": [repr(a), repr(b)], "finding": None})
        if e1 and not h:
            violations.append({"what": "equal values with different hashes", "input": [repr(a), repr(b)], "finding": None})

    # histories: the laws hold for every value whatever was parsed before it - each near miss is round-tripped right after
    # the value it was derived from (same process, same name or same qualified name, one field changed)
    n_hist = 0
    for a, b in pairs[-min(len(pairs), 4000):]:
        for x in (a, b):
            n_hist += 1
            im = impl_roundtrip(x)
            if "exc" in im:
                continue
            if not (im["eq"] and im["eq_rev"] and im["d"] == im["d2"] and im["hash_eq"] is True):
                violations.append({"what": "round trip fails for a value parsed right after a similar value (parse history matters)",
                                   "input": [repr(a), repr(b)], "observed": im, "finding": None})
                break

    nontriv = sum(1 for t in terms if G.nontrivial(t))
    return {
        "evaluations": len(cases) + len(pcases),
        "distinct_nontrivial": min(len(distinct), nontriv + len(pcases)),
        "rule": "types: all leaves, all depth-1 terms (arity<=2) over 9 leaves, sampled depth-2 terms, random terms of depth<=6; "
                "pairs: 60x60 grid of small terms plus random pairs (40% element-order shuffles of one term). A type case is "
                "non-trivial when it has a constructor of arity>0; distinct by serialised input",
        "samples": [repr(terms[len(leaves) + 5]), repr(terms[-1]), [repr(pairs[-1][0]), repr(pairs[-1][1])]],
        "disagreements": disagreements,
        "violations": violations,
        "stats": {"kinds": kinds, "round_trips_after_a_similar_value": n_hist, "pairs": len(pairs), "pairs_equal": n_equal, "terms": len(terms), "nontrivial_terms": nontriv},
        "assumptions": ["float literals are restricted to non-integral finite values (the model compares floats by repr)",
                        "hash keys: equal keys imply equal Python hashes; the converse is assumed only statistically"],
    }
