"""C11: corpus-based check (back-end correspondence on the projection + oracle on the implementation's output)."""
import oracles
from props.common import corpus_check


def run(ctx):
    return corpus_check(ctx, "C11", oracles.c11, l1_oracle=lambda it: oracles.l1_c11(it) + (oracles.files_c11_imports(it["impl"]["stubs"], it["nc"]) if str(it["api_seed"]).startswith("shape:") else []))
