"""Shared skeleton of the corpus-based checks (back-end correspondence on the property's projection + oracle search)."""
from __future__ import annotations

import json
from pathlib import Path

import corpus
import gen_pkg
import implrun
import vlib

FINDINGS_DIR = vlib.VERIF / "findings"


def load_witnesses(prop: str) -> list[dict]:
    p = vlib.VERIF / "known_findings.json"
    if not p.exists():
        return []
    return [f for f in json.loads(p.read_text()).get("findings", []) if f.get("property") == prop and f.get("witness")]


def run_witnesses(prop: str) -> list[corpus.Case]:
    """the recorded witnesses of known findings, analysed by the current tree (they run first)"""
    import findings
    ws = [w for w in load_witnesses(prop) if w["witness"] in findings.BUILDERS]
    if not ws:
        return []
    base = implrun.scratch_dir(f"wit_{prop}")
    jobs, meta = [], []
    for w in ws:
        pkg, opts = findings.BUILDERS[w["witness"]]()
        files = gen_pkg.package_files(pkg)
        root = base / w["id"]
        implrun.write_tree(root, files)
        job = {"src": str(root / pkg.name), "out": str(base / (w["id"] + "_out")), "docstyle": pkg.style, **opts}
        jobs.append(job)
        meta.append((w, pkg, files))
    answers = implrun.run_jobs(jobs)
    cases = []
    for (w, pkg, files), job, a in zip(meta, jobs, answers, strict=True):
        a.pop("api_sx", None)
        c = corpus.Case(-1, pkg, files, job, a, None)
        cases.append(c)
    implrun.cleanup()
    return cases


def corpus_check(ctx, prop: str, oracle=None, *, stream: str = "base", nontrivial=None, rule: str = "", extra_cases=None,
                 use_l1: bool = True, l1_oracle=None):
    """oracle(case) -> (violations, n_checked) ; returns the result dict expected by check.py"""
    tier, seed = ctx["tier"], ctx["seed"]
    cases = corpus.get(stream, corpus.base_size(tier), seed, tier)
    dis = corpus.back_disagreements(cases, prop)
    dis += corpus.front_disagreements(cases, prop)
    dis += corpus.pipeline_disagreements(cases, prop)
    l1_items = corpus.get_l1(seed, tier) if use_l1 else []
    dis += corpus.l1_disagreements(l1_items, prop)
    violations = []
    if use_l1 and l1_oracle is not None:
        for it in l1_items:
            if it["impl"].get("exc"):
                continue
            for v in l1_oracle(it):
                violations.append({**v, "l1_api_seed": it["api_seed"], "nc": it["nc"]})
    checked = 0
    nt = 0
    wit = run_witnesses(prop) if oracle is not None else []
    for c in wit + cases:
        if oracle is not None:
            r = oracle(c)
            vs, n = r if isinstance(r, tuple) else (r, 1)
            checked += n
            for v in vs:
                violations.append({**v, "package": c.pkg.name, "options": {k: c.job.get(k) for k in ("docstyle", "nc", "tsp", "tsw")},
                                   "files": c.files if len(violations) < 3 else None})
        if nontrivial is None or nontrivial(c):
            nt += 1
    crashed = [c for c in cases if c.answer.get("exc")]
    import frontcmp
    fstat: dict[str, int] = {}
    for c in cases:
        if c.job.get("view"):
            st = frontcmp.compare(c.answer, c.front)["status"]
            fstat[st] = fstat.get(st, 0) + 1
    pstat = {"compared": sum(1 for c in cases if c.pipe is not None and c.job.get("out")),
             "differ_on_this_projection": len(corpus.pipeline_disagreements(cases, prop))}
    sample = []
    for c in cases[:2]:
        stubs = corpus.impl_files(c)
        first = sorted(stubs)[0] if stubs else None
        sample.append({"package": c.pkg.name, "options": c.job.get("docstyle"), "modules": [m.path for m in c.pkg.modules],
                       "stub_excerpt": (stubs[first][:400] if first else None)})
    return {
        "evaluations": len(cases) + len(l1_items),
        "distinct_nontrivial": nt,
        "rule": rule or "generated packages (domain stream: unique name numbers, all declaration forms, four docstring styles, naming "
                        "conversion on half of them) analysed by the real tool; the model is run on the very API object the analyzer "
                        "produced and compared on this property's projection; the property predicate is evaluated on the "
                        "implementation's output; distinct by generated source, non-trivial when the package exercises the mechanism",
        "samples": sample,
        "disagreements": dis,
        "violations": violations,
        "stats": {"packages": len(cases), "l1_api_objects": len(l1_items), "declarations_checked": checked, "runs_aborted": len(crashed),
                  "analyzer_model_vs_implementation_on_the_whole_api_object": fstat,
                  "pipeline_model_view_to_files_vs_implementation": pstat,
                  "styles": {s: sum(1 for c in cases if c.pkg.style == s) for s in corpus.STYLES}},
        "cases": cases,
    }
