"""C10: corpus-based check (back-end correspondence on the projection + oracle on the implementation's output)."""
import oracles
from props.common import corpus_check


def run(ctx):
    return corpus_check(ctx, "C10", oracles.c10, l1_oracle=lambda it: oracles.files_c10(it["impl"]["stubs"], it.get("module_names")))
