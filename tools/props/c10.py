"""C10: corpus-based check (back-end correspondence on the projection + oracle on the implementation's output)."""
import oracles
from props.common import corpus_check


def run(ctx):
    return corpus_check(ctx, "C10", oracles.c10)
