"""C10: corpus-based check (back-end correspondence on the projection + oracle on the implementation's output)."""
import oracles
from props.common import corpus_check


def run(ctx):
    def pkg_oracle(c):
        r = oracles.c10(c)
        vs, n = r if isinstance(r, tuple) else (r, 1)
        return list(vs) + oracles.writes_c10(c.answer.get("writes")), n

    return corpus_check(ctx, "C10", pkg_oracle,
                        l1_oracle=lambda it: oracles.files_c10(it["impl"]["stubs"], it.get("module_names")) + oracles.writes_c10(it["impl"].get("writes")))
