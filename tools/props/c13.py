"""C13: docstring text reaches the right element intact - comment assembly (back end), per-element oracle, and the
one-entry docstring cache against the real DocstringParser on real griffe trees (L0)."""
from __future__ import annotations

import random

import gen_pkg
import implrun
import oracles
import vlib
from props.common import corpus_check


DUMP_DEPTH = 8      # the tree is dumped down to this depth (aliases can make it cyclic)
QUERY_DEPTH = 5     # queries start from nodes up to this depth, so that ".__init__" and ".missing_member" stay inside the dump


def dump_tree(node, depth: int = 0):
    """the tree the parser walks: griffe's modules/classes/functions/attributes views contain inherited and imported members
    as aliases; resolvable ones are part of the tree (an inherited __init__ is found by the lookup), others are left out"""
    kind = "module" if node.is_module else "class" if node.is_class else "function" if node.is_function else "attribute"
    members = []
    if depth < DUMP_DEPTH:
        for coll in (node.modules, node.classes, node.functions, node.attributes):
            for m in coll.values():
                if getattr(m, "is_alias", False):
                    try:
                        m.final_target  # noqa: B018
                    except Exception:  # noqa: BLE001
                        continue
                    if depth >= DUMP_DEPTH - 1:
                        continue
                members.append(dump_tree(m, depth + 1))
    doc = node.docstring.value if node.docstring is not None else None
    return [node.name, kind, vlib.opt(doc), members]


def all_qnames(tree, prefix="", depth=0):
    name, kind, doc, members = tree
    q = f"{prefix}.{name}" if prefix else name
    out = [(q, kind)]
    if depth < QUERY_DEPTH:
        for m in members:
            out += all_qnames(m, q, depth + 1)
    return out


def cache_l0(ctx):
    """random query sequences against the real parser's cache"""
    from griffe.enumerations import Parser
    from safeds_stubgen.docstring_parsing._docstring_parser import DocstringParser
    rng = random.Random(ctx["seed"] + 13)
    tier = ctx["tier"]
    npk, nseq = (4, 150) if tier == "quick" else (20, 1500)
    base = implrun.scratch_dir("c13")
    cases, meta = [], []
    for i in range(npk):
        style = ["numpydoc", "google", "rest"][i % 3]
        p = gen_pkg.gen_package(rng, i, style=style, nmods=2, doc_types=True, reexports=False)
        root = base / f"t{i}"
        implrun.write_tree(root, gen_pkg.package_files(p))
        parser = DocstringParser({"numpydoc": Parser.numpy, "google": Parser.google, "rest": Parser.sphinx}[style], root / p.name)
        tree = dump_tree(parser.griffe_build)
        names = all_qnames(tree)
        pool = [q for q, _ in names] + [q + ".__init__" for q, k in names if k == "class"]
        get = getattr(parser, "_DocstringParser__get_cached_docstring")
        for _ in range(nseq):
            qs = []
            for _k in range(rng.randrange(2, 9)):
                r = rng.random()
                if qs and r < 0.35:
                    qs.append(rng.choice(qs))          # repeat an earlier query
                elif r < 0.92:
                    qs.append(rng.choice(pool))
                else:
                    qs.append(rng.choice(pool) + ".missing_member")
            # fresh cache state for each sequence
            setattr(parser, "_DocstringParser__cached_node", None)
            setattr(parser, "_DocstringParser__cached_docstring", None)
            got = []
            err = None
            err_q = None
            for q in qs:
                try:
                    d = get(q)
                    got.append(None if d is None else d.value)
                except Exception as e:  # noqa: BLE001
                    err = type(e).__name__
                    err_q = q
                    break
            cases.append(vlib.sx(["doc_cache", tree, qs]))
            meta.append((qs, got, err, err_q, p.name))
    implrun.cleanup()
    model = vlib.run_model(cases)
    dis, vio = [], []
    nontriv = 0
    for (qs, got, err, err_q, pname), m in zip(meta, model, strict=True):
        cached, uncached = m
        if len(set(qs)) < len(qs) and any(q.endswith("__init__") for q in qs):
            nontriv += 1
        if err:
            if cached[0] != "err" or cached[1] != err:
                dis.append({"case": qs, "impl": err, "raised_at": err_q, "package": pname, "model": cached})
            continue
        want = [None if not x else x[0] for x in cached[1]] if cached[0] == "ok" else None
        if want != got:
            dis.append({"case": qs, "impl": got, "model": cached})
        # the property on the implementation: each answer is the docstring of the queried element (uncached lookup)
        truth = [None if not x else x[0] for x in uncached[1]] if uncached[0] == "ok" else None
        if truth is not None and got != truth:
            vio.append({"what": f"the docstring cache returns the docstring of another element for the query sequence {qs}",
                        "observed": got, "expected": truth, "finding": None})
    return dis, vio, len(cases), nontriv


def run(ctx):
    res = corpus_check(ctx, "C13", oracles.c13)
    dis, vio, n, nontriv = cache_l0(ctx)
    res["disagreements"] += dis
    res["violations"] += vio
    res["evaluations"] += n
    res["distinct_nontrivial"] += nontriv
    res["stats"]["cache_query_sequences"] = n
    # the section extraction of the docstring parser against its model
    import doctypes
    s_dis, s_n, s_stats = doctypes.run_sections_l0(ctx["seed"], ctx["tier"])
    res["disagreements"] += s_dis
    res["evaluations"] += s_n
    res["stats"].update(s_stats)
    res["rule"] += "; plus every class / function / parameter / attribute / result query of the docstring parser's section extraction on " \
                   "generated docstrings (three styles), model against implementation"
    res["rule"] += "; plus random query sequences (repeats, implicit constructors, missing members) against the real DocstringParser " \
                   "cache on real griffe trees, compared with the model and with the uncached lookup; a sequence is non-trivial when " \
                   "it repeats a name and contains an __init__ query"
    return res
