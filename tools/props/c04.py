"""C04: private declarations never leak into stubs; JSON is_public flags."""
import oracles
from props.common import corpus_check


def run(ctx):
    return corpus_check(ctx, "C04", lambda c: (oracles.c03_c04(c)[1], len(list(oracles.truth_decls(c.pkg)))),
                        nontrivial=lambda c: any(not t["public"] for t in oracles.truth_decls(c.pkg)))
