"""C16: stub generation neither mutates the API model nor depends on earlier generations."""
from __future__ import annotations

import random

import corpus
import gen_pkg
import implrun
from props.common import corpus_check


def run(ctx):
    rng = random.Random(ctx["seed"] + 16)
    tier = ctx["tier"]
    def l1_mutation(it):
        ch = it["impl"].get("api_changed")
        if not ch:
            return []
        only_names = all(c["fields"] == ["name"] for c in ch)
        return [{"what": f"generating stubs from a generated API object changed the object: {ch[:3]}",
                 "finding": "rename_on_model" if only_names else None}]

    res = corpus_check(ctx, "C16", None, l1_oracle=l1_mutation)
    n = 8 if tier == "quick" else 60
    base = implrun.scratch_dir("c16")
    jobs, pk = [], []
    foreign_imports = ["from logging.handlers import SocketHandler", "from wsgiref.handlers import SimpleHandler",
                       "from collections import OrderedDict", "from xml.dom import Node", "from xml.etree.ElementTree import Element"]
    import findings
    for i in range(n):
        p = findings.rename_on_model()[0] if i == 0 else gen_pkg.gen_package(rng, i, style="plaintext", nmods=2)
        # references to classes of other libraries: placeholder stubs (create once, then append)
        m = p.modules[0]
        for k, imp in enumerate(rng.sample(foreign_imports, rng.randrange(2, 5))):
            cname = imp.split("import ")[1]
            m.imports.append(imp)
            m.funcs.append(gen_pkg.Func(f"uses_foreign{k}q{i}", [gen_pkg.Param("h", "pos", gen_pkg.Ann("ref", name=cname))], ret_none=True,
                                        body="return None"))
        files = gen_pkg.package_files(p)
        root = base / f"t{i}"
        implrun.write_tree(root, files)
        out = base / f"o{i}"
        jobs.append({"src": str(root / p.name), "out": str(out), "gens": 3, "nc": bool(i % 2), "encode_api": False})
        # a second and third complete run into the same directory (sequential jobs on the same out dir are run below)
        pk.append((p, files, root, out))
    first = implrun.run_jobs(jobs)
    second = implrun.run_jobs([{**j, "gens": 1} for j in jobs])    # same output directory, already populated
    violations = list(res["violations"])
    checked = 0
    for (p, files, root, out), a1, a2 in zip(pk, first, second, strict=True):
        if a1.get("exc") or a2.get("exc"):
            continue
        checked += 1
        g = a1["gens"]
        if any(x != g[0] for x in g[1:]):
            violations.append({"what": "a repeated generation on the same API object yields different stub texts", "package": p.name,
                               "files": files if len(violations) < 3 else None, "finding": None})
        if a1["api"] != a1["api_after"]:
            renamed = [(x["id"], x["name"], y["name"]) for x, y in zip(a1["api"]["functions"] + a1["api"]["classes"],
                                                                     a1["api_after"]["functions"] + a1["api_after"]["classes"]) if x["name"] != y["name"]]
            only_names = all(
                {k: v for k, v in x.items() if k != "name"} == {k: v for k, v in y.items() if k != "name"}
                for x, y in zip(a1["api"]["functions"] + a1["api"]["classes"], a1["api_after"]["functions"] + a1["api_after"]["classes"]))
            violations.append({"what": f"generating stubs changed the API model: {renamed[:3]}", "package": p.name,
                               "files": files if len(violations) < 3 else None,
                               "finding": "rename_on_model" if renamed and only_names else None})
        if a1["stubs"] != a2["stubs"]:
            diff = sorted(k for k in set(a1["stubs"]) | set(a2["stubs"]) if a1["stubs"].get(k) != a2["stubs"].get(k))
            violations.append({"what": f"a second run into the same output directory changes {diff[:3]}", "package": p.name,
                               "files": files if len(violations) < 3 else None, "finding": None})
    implrun.cleanup()
    res["violations"] = violations
    res["evaluations"] += 2 * len(jobs)
    res["distinct_nontrivial"] += checked
    res["stats"]["rerun_pairs"] = checked
    res["rule"] += "; plus packages that use classes of other libraries, generated three times from one API object in-process " \
                   "and analysed twice into the same output directory"
    return res
