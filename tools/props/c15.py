"""C15: the test-run flag alone controls whether test/tests/docs directories are analysed."""
from __future__ import annotations

import random

import implrun
import vlib

DIRNAMES = ["test", "tests", "docs", "testing", "mytests", "docs_old", "core", "util", "sub", "test_helpers", "doc"]
MODNAMES = ["test_x", "tests", "test", "docs", "mod", "helper", "conftest", "alpha", "beta"]


def gen_tree(rng: random.Random, idx: int):
    """returns (files: relpath -> source, marks: relpath -> function name defined there)"""
    files, marks = {}, {}
    counter = [0]

    def fill(prefix: str, depth: int):
        files[f"{prefix}/__init__.py"] = ""
        nmods = rng.randrange(1, 4)
        subdirs = rng.sample(DIRNAMES, rng.randrange(0, 4)) if depth < 3 else []
        for m in rng.sample([m for m in MODNAMES if m not in subdirs], nmods):
            counter[0] += 1
            fn = f"fn{idx}x{counter[0]}"
            files[f"{prefix}/{m}.py"] = f"def {fn}(a: int) -> int:\n    return a\n\n\nclass K{fn}:\n    v: int = 1\n"
            marks[f"{prefix}/{m}.py"] = fn
        for d in subdirs:
            fill(f"{prefix}/{d}", depth + 1)

    fill(f"pkg{idx}", 0)
    # a module outside the excluded directories imports packages that lie inside them (mypy then loads their __init__)
    inits = [f for f in files if f.endswith("__init__.py") and excluded(f + "/x") and f.count("/") >= 2]
    if inits:
        lines = []
        for k, f in enumerate(rng.sample(inits, min(2, len(inits)))):
            files[f] = f"def initfn{idx}x{k}(a: int) -> int:\n    return a\n"
            marks[f] = f"initfn{idx}x{k}"
            lines.append("import " + f[: -len("/__init__.py")].replace("/", "."))
        files[f"pkg{idx}/zz_importer.py"] = "\n".join(lines) + f"\n\n\ndef importer{idx}(a: int) -> int:\n    return a\n"
        marks[f"pkg{idx}/zz_importer.py"] = f"importer{idx}"
    # make sure at least one file lies outside every excluded directory
    return files, marks


def excluded(rel: str) -> bool:
    return any(seg in ("test", "tests", "docs") for seg in rel.split("/")[:-1])


def run(ctx):
    rng = random.Random(ctx["seed"] + 15)
    tier = ctx["tier"]
    ntrees = 14 if tier == "quick" else 120
    base = implrun.scratch_dir("c15")
    trees = []
    jobs = []
    for i in range(ntrees):
        files, marks = gen_tree(rng, i)
        root = base / f"t{i}"
        implrun.write_tree(root, files)
        trees.append((root, files, marks))
        order = rng.choice([None, "reverse", "sorted", rng.randrange(1000)])
        for flag in (False, True):
            jobs.append({"src": str(root / f"pkg{i}"), "out": str(base / f"o{i}_{int(flag)}"), "testrun": flag,
                         "glob_order": order})
    answers = implrun.run_jobs(jobs)

    disagreements, violations, samples = [], [], []
    cases, meta = [], []
    for j, a in zip(jobs, answers, strict=True):
        if a.get("exc") and a["exc"]["type"] != "ValueError":
            violations.append({"what": f"run aborted: {a['exc']}", "input": j, "finding": None})
            continue
        glob = a.get("glob") or []
        cases.append(vlib.sx(["discover", j["testrun"], glob]))
        meta.append((j, a))
    model = vlib.run_model(cases)
    ocases, ometa = [], []
    for (j, a), m in zip(meta, model, strict=True):
        if m[0] == "nofiles":
            if not (a.get("exc") and "No files found" in a["exc"]["msg"]):
                disagreements.append({"case": j, "model": "NoFilesFound", "impl": a.get("exc")})
            continue
        if a.get("exc"):
            disagreements.append({"case": j, "model": "files", "impl": a.get("exc")})
            continue
        walkable, packages = m[1], m[2]
        if a.get("sources") is not None and list(a["sources"]) != list(walkable):
            disagreements.append({"case": j, "what": "files handed to mypy", "model": walkable, "impl": a["sources"]})
        graph = [g for g in (a.get("graph") or []) if g[0]]
        ocases.append(vlib.sx(["order_asts", [g[0] for g in graph], walkable, packages]))
        ometa.append((j, a, graph))
    omodel = vlib.run_model(ocases)
    for (j, a, graph), m in zip(ometa, omodel, strict=True):
        byp = {g[0]: g[1] for g in graph}
        expect = [byp[p].replace(".", "/") for p in m]
        if expect != a["modules_order"]:
            disagreements.append({"case": j, "what": "modules walked, in order", "model": expect, "impl": a["modules_order"]})

    # the property itself on the implementation's output
    ndecl = 0
    for i, (root, files, marks) in enumerate(trees):
        a_off, a_on = answers[2 * i], answers[2 * i + 1]
        for flag, a in ((False, a_off), (True, a_on)):
            if a.get("exc"):
                continue
            text = a.get("json_text") or ""
            stubs = "\n".join(a.get("stubs", {}).values())
            for rel, fn in marks.items():
                ndecl += 1
                present = (f'"{fn}"' in text) or (f" {fn}(" in stubs)
                should = flag or not excluded(rel)
                if present != should:
                    violations.append({"what": f"file {rel} {'contributes' if present else 'does not contribute'} with testrun={flag}",
                                       "input": {"tree": sorted(files), "flag": flag}, "finding": None})
        if not a_off.get("exc") and not a_on.get("exc"):
            # files outside excluded directories: same stubs with and without the flag
            for rel, text in a_off.get("stubs", {}).items():
                if rel.endswith(".sdsstub") and a_on["stubs"].get(rel) != text:
                    violations.append({"what": f"stub {rel} differs between flag on and off",
                                       "input": {"tree": sorted(files)}, "finding": None})
        if i < 2:
            samples.append({"tree": sorted(files)[:12], "modules_off": a_off.get("modules_order"), "modules_on": a_on.get("modules_order")})
    implrun.cleanup()
    nontriv = sum(1 for (_, files, _) in trees if any(excluded(f) for f in files) and any(not excluded(f) for f in files))
    return {
        "evaluations": len(jobs),
        "distinct_nontrivial": 2 * nontriv,
        "rule": "random package trees (depth<=3) whose directory and module names are drawn from {test,tests,docs} and look-alikes; "
                "each analysed by the real get_api with the flag off and on under a varied glob order; non-trivial when the tree has "
                "files both inside and outside excluded directories; counted per (tree, flag)",
        "samples": samples,
        "disagreements": disagreements,
        "violations": violations,
        "stats": {"trees": ntrees, "declarations_checked": ndecl},
        "assumptions": ["mypy's build graph (paths, module names) is taken as given (captured by wrapping mypy.build.build)"],
    }
