"""C08: output is a deterministic function of package contents and options."""
from __future__ import annotations

import hashlib
import random
from concurrent.futures import ThreadPoolExecutor
from pathlib import Path

import gen_pkg
import implrun
from props.common import corpus_check


def alias_module(i: int, k: int, cls: str) -> str:
    return (f'"""Module {k} of the alias package."""\nfrom typing import Final\n\n\nclass {cls}:\n    """Doc of {cls}."""\n\n'
            f'    def handle(self, data: str) -> bool:\n        return bool(data)\n\n\nHandler{i} = {cls}\n\n\n'
            f'class Service{k}x{i}:\n    default_handler: Final[Handler{i}] = {cls}()\n\n'
            f'    def __init__(self) -> None:\n        self.handler: Final[Handler{i}] = {cls}()\n\n\n'
            f'def make_handler{k}x{i}(template: Handler{i}) -> Handler{i}:\n    return template\n')


def digest(files: dict) -> dict:
    return {k: hashlib.sha256(v if isinstance(v, bytes) else v.encode()).hexdigest() for k, v in files.items()}


def run(ctx):
    rng = random.Random(ctx["seed"] + 8)
    tier = ctx["tier"]
    res = corpus_check(ctx, "C08", None)
    npk = 5 if tier == "quick" else 40
    seeds = [0, 1, 8, 11] if tier == "quick" else [0, 1, 2, 3, 5, 7, 8, 11, 13, 42, 99, 123, 1000, 4242, 31337, 65535]
    base = implrun.scratch_dir("c08")
    plans = []
    for i in range(npk):
        if i == 0:
            files = {f"ali{i}/__init__.py": '"""Alias package."""\n', f"ali{i}/file_handlers.py": alias_module(i, 1, f"FileHandler{i}"),
                     f"ali{i}/net_handlers.py": alias_module(i, 2, f"SocketHandler{i}"), f"ali{i}/more_handlers.py": alias_module(i, 3, f"PipeHandler{i}")}
            name = f"ali{i}"
        else:
            p = gen_pkg.gen_package(rng, i, style=rng.choice(["plaintext", "numpydoc"]), nmods=3)
            files = gen_pkg.package_files(p)
            name = p.name
        root = base / f"t{i}"
        implrun.write_tree(root, files)
        plans.append((i, name, root, files))
    runs = []
    for (i, name, root, files) in plans:
        src = root / name
        for hs in seeds:
            runs.append((i, f"seed{hs}", dict(src=src, out=base / f"o{i}_s{hs}", hashseed=hs, nc=bool(i % 2), cache_tag=f"{i}_{hs}")))
        # working directory and path spellings (relative, trailing slash), and a repetition
        runs.append((i, "cwd_root", dict(src=src, out=base / f"o{i}_cwd", hashseed=0, nc=bool(i % 2), cwd=root, src_spelling=name,
                                         out_spelling=f"../o{i}_cwd", cache_tag=f"{i}_cwd")))
        runs.append((i, "trailing_slash", dict(src=src, out=base / f"o{i}_ts", hashseed=0, nc=bool(i % 2), src_spelling=str(src) + "/",
                                               out_spelling=str(base / f"o{i}_ts") + "/", cache_tag=f"{i}_ts")))
        runs.append((i, "dotdot", dict(src=src, out=base / f"o{i}_dd", hashseed=0, nc=bool(i % 2), src_spelling=f"{root}/{name}/../{name}",
                                       out_spelling=f"{base}/o{i}_dd/../o{i}_dd", cache_tag=f"{i}_dd")))
        runs.append((i, "repeat", dict(src=src, out=base / f"o{i}_rep", hashseed=0, nc=bool(i % 2), cache_tag=f"{i}_rep")))
    with ThreadPoolExecutor(max_workers=14) as ex:
        outs = list(ex.map(lambda r: implrun.run_cli(**r[2]), runs))
    # glob enumeration orders (in process)
    jobs = []
    for (i, name, root, files) in plans:
        for order in (None, "reverse", "sorted", 7):
            jobs.append({"src": str(root / name), "out": str(base / f"g{i}_{order}"), "glob_order": order, "nc": bool(i % 2), "encode_api": False})
    ganswers = implrun.run_jobs(jobs)
    violations = list(res["violations"])
    checked = 0
    for (i, name, root, files) in plans:
        group = [(tag, o) for (j, tag, _), o in zip(runs, outs, strict=True) if j == i]
        ok = [(tag, o) for tag, o in group if o["rc"] == 0]
        if len(ok) != len(group):
            bad = [(tag, o["exc"]) for tag, o in group if o["rc"] != 0]
            if len(ok) and len(ok) != len(group):
                violations.append({"what": f"the run aborts only under some environments: {bad[:2]}", "package": name, "files": files, "finding": None})
            continue
        ref_tag, ref = ok[0]
        dref = digest(ref["files"])
        for tag, o in ok[1:]:
            checked += 1
            d = digest(o["files"])
            if d != dref:
                diff = sorted(k for k in set(d) | set(dref) if d.get(k) != dref.get(k))
                violations.append({"what": f"output differs between {ref_tag} and {tag}: {diff[:3]}", "package": name,
                                   "files": files if len(violations) < 3 else None, "finding": None})
        gs = [a for j, a in zip(jobs, ganswers, strict=True) if j["src"] == str(root / name)]
        if all(not a.get("exc") for a in gs):
            for a in gs[1:]:
                checked += 1
                if a["stubs"] != gs[0]["stubs"]:
                    violations.append({"what": "output depends on the enumeration order of the directory listing", "package": name,
                                       "files": files if len(violations) < 3 else None, "finding": None})
    implrun.cleanup()
    res["violations"] = violations
    res["evaluations"] += len(runs) + len(jobs)
    res["distinct_nontrivial"] += checked
    res["stats"]["environment_pairs"] = checked
    res["rule"] += f"; plus real CLI processes on {npk} packages under hash seeds {seeds}, another working directory with relative paths, " \
                   "trailing slashes and a repetition, and in-process runs under four enumeration orders; one package binds the same " \
                   "alias name to different classes in several modules"
    return res
