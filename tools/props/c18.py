"""C18: a module's stub depends only on what the module uses (metamorphic pairs on the real tool + generator locality)."""
from __future__ import annotations

import copy
import random

import corpus
import gen_pkg
import implrun
import sdsparse
from props.common import corpus_check


def stub_of(answer, module: gen_pkg.Module):
    """(path, text) of the stub generated for a module"""
    d = module.path[:-3]
    name = d.split("/")[-1].lstrip("_")
    return answer.get("stubs", {}).get(f"{d}/{name}.sdsstub")


def run(ctx):
    rng = random.Random(ctx["seed"] + 18)
    tier = ctx["tier"]
    res = corpus_check(ctx, "C18", None)
    nbase = 6 if tier == "quick" else 40
    base = implrun.scratch_dir("c18")
    jobs, meta = [], []
    for i in range(nbase):
        p = gen_pkg.gen_package(rng, i, style="plaintext", nmods=3, reexports=False)
        variants = [("base", p)]
        # add an unrelated module with fresh names (a generic class and functions using type variables included)
        extra = gen_pkg.gen_package(random.Random(rng.random()), 900 + i, style="plaintext", nmods=1, reexports=False, subpackage=False)
        em = extra.modules[0]
        # the unrelated module also has a generic class over the type-variable name the package uses
        shared = p.modules[0].typevars[0]
        em.typevars = list(em.typevars) + ([shared] if shared not in em.typevars else [])
        em.classes.append(gen_pkg.Cls(f"ZzGeneric{i}", bases=[f"Generic[{shared}]"], tparams=[shared],
                                      methods=[gen_pkg.Func(f"zz_m{i}", [gen_pkg.Param("a", "pos", gen_pkg.Ann("typevar", name=shared))],
                                                            ret=gen_pkg.Ann("int"))]))
        q = copy.deepcopy(p)
        em2 = copy.deepcopy(em)
        em2.path = f"{p.name}/zz_unrelated_{i}.py"
        em2.dotted = f"{p.name}.zz_unrelated_{i}"
        em2.imports = []
        q.modules.append(em2)
        variants.append(("added_last", q))
        q2 = copy.deepcopy(p)
        em3 = copy.deepcopy(em2)
        em3.path = f"{p.name}/aa_unrelated_{i}.py"
        em3.dotted = f"{p.name}.aa_unrelated_{i}"
        q2.modules.insert(0, em3)
        variants.append(("added_first", q2))
        # permute the top-level declarations of one module
        q3 = copy.deepcopy(p)
        m = q3.modules[0]
        order = [("e", k) for k in range(len(m.enums))] + [("c", k) for k in range(len(m.classes))] + [("f", k) for k in range(len(m.funcs))]
        # classes must stay in an order in which bases precede subclasses: permute functions and enums, rotate independent classes
        fs = [o for o in order if o[0] != "c"]
        rng.shuffle(fs)
        m.order = [o for o in order if o[0] == "c"] + fs
        variants.append(("permuted", q3))
        for tag, pk in variants:
            root = base / f"t{i}_{tag}"
            implrun.write_tree(root, gen_pkg.package_files(pk))
            jobs.append({"src": str(root / pk.name), "out": str(base / f"o{i}_{tag}"), "encode_api": False})
            meta.append((i, tag, pk))
    answers = implrun.run_jobs(jobs)
    implrun.cleanup()
    violations = list(res["violations"])
    checked = 0
    for i in range(nbase):
        group = {m[1]: (m[2], a) for m, a in zip(meta, answers, strict=True) if m[0] == i}
        bp, ba = group["base"]
        if any(a.get("exc") for _, a in group.values()):
            continue
        for tag in ("added_last", "added_first"):
            vp, va = group[tag]
            for mod in bp.modules:
                checked += 1
                if stub_of(ba, mod) != stub_of(va, mod):
                    violations.append({"what": f"stub of {mod.dotted} changes when an unrelated module is {tag.replace('_', ' ')}",
                                       "package": bp.name, "files": gen_pkg.package_files(vp) if len(violations) < 3 else None, "finding": None})
        # permutation: the same declarations, functions among themselves, classes among themselves
        pp, pa = group["permuted"]
        mod = bp.modules[0]
        t1, t2 = stub_of(ba, mod), stub_of(pa, mod)
        if (t1 is None) != (t2 is None):
            violations.append({"what": f"stub of {mod.dotted} appears/disappears under a permutation of its declarations", "package": bp.name,
                               "files": None, "finding": None})
        elif t1 is not None:
            checked += 1
            m1, e1 = sdsparse.parse(t1)
            m2, e2 = sdsparse.parse(t2)
            if m1 is not None and m2 is not None:
                k1 = sorted(repr(d) for d in m1["decls"])
                k2 = sorted(repr(d) for d in m2["decls"])
                if k1 != k2 or m1["imports"] != m2["imports"]:
                    violations.append({"what": f"permuting the declarations of {mod.dotted} changes more than their order", "package": bp.name,
                                       "files": gen_pkg.package_files(pp) if len(violations) < 3 else None, "finding": None})
    res["violations"] = violations
    res["evaluations"] += len(jobs)
    res["distinct_nontrivial"] = res["distinct_nontrivial"] + checked
    res["stats"]["metamorphic_pairs"] = checked
    res["rule"] += "; plus metamorphic pairs on the real tool: the same package with an unrelated module added (sorted first / last) " \
                   "and with one module's functions and enums permuted"
    return res
