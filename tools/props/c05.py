"""C05: type hints are translated faithfully and compositionally."""
import oracles
from props.common import corpus_check


def run(ctx):
    return corpus_check(ctx, "C05", lambda c: oracles.c05(c) if not c.answer.get("exc") else ([], 0))
