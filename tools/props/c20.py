"""C20: TODO markers flag exactly the declarations that need manual attention."""
import oracles
from props.common import corpus_check


def run(ctx):
    return corpus_check(ctx, "C20", oracles.c20)
