"""C01: every analysable package is processed to completion under every option set."""
from __future__ import annotations

import itertools
import random
from concurrent.futures import ThreadPoolExecutor

import corpus
import gen_pkg
import implrun
from props.common import corpus_check

STYLES = ["plaintext", "google", "numpydoc", "rest"]


def run(ctx):
    rng = random.Random(ctx["seed"] + 1)
    tier = ctx["tier"]
    res = corpus_check(ctx, "C01", None)
    cases = res["cases"]
    violations = list(res["violations"])
    for c in cases:
        e = c.answer.get("exc")
        if e:
            violations.append({"what": f"run aborted with {e['type']} at {e['frame']}: {e['msg'][:120]}", "package": c.pkg.name,
                               "options": c.job, "files": c.files if len(violations) < 3 else None, "finding": None})
    for it in corpus.get_l1(ctx["seed"], tier):
        e = it["impl"].get("exc")
        if e:
            violations.append({"what": f"stub generation aborted with {e['type']} at {e['frame']} on a generated API object",
                               "l1_api_seed": it["api_seed"], "nc": it["nc"], "finding": None})
    # the option grid on the real CLI: a Latin-square selection of the 4*2*2*2*2 combinations
    npk = 3 if tier == "quick" else 12
    base = implrun.scratch_dir("c01")
    combos = list(itertools.product(STYLES, [False, True], ["code", "docstring"], ["warn", "ignore"], [False, True]))
    runs = []
    for i in range(npk):
        p = gen_pkg.gen_package(rng, i, style=STYLES[i % 4], doc_types="rich", nmods=3)
        # a parameter specification and a type variable tuple declared in the package (typed decorators)
        p.modules[0].extra_source = gen_pkg.PARAMSPEC_SOURCE.replace("{k}", f"{i}q")
        files = gen_pkg.package_files(p)
        root = base / f"t{i}"
        implrun.write_tree(root, files)
        sel = combos if tier == "thorough" else [combos[(5 * k + 7 * i) % 64] for k in range(8)]
        for k, (st, nc, tsp, tsw, tr) in enumerate(sel):
            runs.append((p, files, dict(src=root / p.name, out=base / f"o{i}_{k}", docstyle=st, nc=nc, tsp=tsp, tsw=tsw, testrun=tr,
                                        cache_tag=f"{i}_{k}")))
    # malformed stream: the documented rejection
    empties = {"only_init": {"e1/__init__.py": ""}, "only_tests": {"e2/__init__.py": "", "e2/tests/__init__.py": "", "e2/tests/t.py": "x = 1\n"}}
    for tag, files in empties.items():
        root = base / tag
        implrun.write_tree(root, files)
        runs.append((None, files, dict(src=root / sorted(files)[0].split("/")[0], out=base / f"o_{tag}", cache_tag=tag)))
    with ThreadPoolExecutor(max_workers=14) as ex:
        outs = list(ex.map(lambda r: implrun.run_cli(**r[2]), runs))
    implrun.cleanup()
    ncli = 0
    for (p, files, kw), o in zip(runs, outs, strict=True):
        ncli += 1
        opts = {k: v for k, v in kw.items() if k in ("docstyle", "nc", "tsp", "tsw", "testrun")}
        if p is None:
            if o["rc"] == 0 or "No files found to analyse" not in o["stderr"]:
                violations.append({"what": f"a package without analysable files is not rejected with the documented error: rc={o['rc']} {o['stderr'][-200:]}",
                                   "files": files, "finding": None})
            continue
        if o["rc"] != 0:
            violations.append({"what": f"CLI run aborted ({o['exc']}) under {opts}", "package": p.name, "options": opts,
                               "files": files if len(violations) < 3 else None, "finding": None})
        elif not any(k.endswith("__api.json") for k in o["files"]) or not any(k.endswith(".sdsstub") for k in o["files"]):
            violations.append({"what": f"CLI run completed without writing the API file and stub files under {opts}", "package": p.name,
                               "options": opts, "files": None, "finding": None})
    # termination and totality of the docstring type translation (a loop over `a | b | c` chains lives there)
    import doctypes
    d_dis, d_vio, d_n, _ = doctypes.run_l0(ctx["seed"], tier)
    violations += d_vio
    for dd in d_dis:
        if isinstance(dd.get("impl"), list) and dd["impl"][:1] == ["exc"]:
            violations.append({"what": f"the translation of the docstring type {dd['case']} raises {dd['impl'][1]}", "finding": None})
    res["evaluations"] += d_n
    res["violations"] = violations
    res["evaluations"] += ncli
    res["distinct_nontrivial"] += ncli
    res["stats"]["cli_runs"] = ncli
    res["rule"] += "; plus real CLI processes over a Latin-square selection (quick) / all (thorough) of the 64 option combinations, and " \
                   "the malformed stream (no analysable file) for the documented rejection"
    return res
