"""C09: naming conversion -- function-level correspondence and laws (the emission sites are covered with the back end)."""
from __future__ import annotations

import itertools
import random

import vlib
from safeds_stubgen.stubs_generator._helper import NamingConvention, _convert_name_to_convention, _replace_if_safeds_keyword
from safeds_stubgen import is_internal

KEYWORDS = ["_", "and", "annotation", "as", "attr", "class", "const", "enum", "false", "from", "fun", "import", "in", "internal",
            "literal", "not", "null", "or", "out", "package", "pipeline", "private", "schema", "static", "segment", "sub", "this",
            "true", "union", "unknown", "val", "where", "yield"]


def names(rng, tier):
    out = []
    maxlen = 5 if tier == "quick" else 7
    for n in range(0, maxlen + 1):
        for tup in itertools.product("aB1_", repeat=n):
            out.append("".join(tup))
    out += KEYWORDS
    out += [k + "_" for k in KEYWORDS] + ["_" + k for k in KEYWORDS] + [k.upper() for k in KEYWORDS]
    out += [a + "_" + b for a in KEYWORDS[:8] for b in KEYWORDS[:8]]
    alphabet = "abcxyzABCXYZ0123456789___"
    for _ in range(500 if tier == "quick" else 5000):
        out.append("".join(rng.choice(alphabet) for _ in range(rng.randrange(1, 14))))
    out += ["pkg.sub_mod._priv.name_x", "a.b_c.d", "tests.data.various_modules_package", "__init__", "__get__function___name__"]
    # dotted package paths (the call sites pass them as one string): segments with underscores at either end
    segs = ["a", "a_", "_a", "a_b", "a__b", "ab_", "__a__", "B_c", "filter_", "low_pass", "x1"]
    out += [".".join(t) for k in (2, 3) for t in itertools.product(segs, repeat=k)]
    for n in range(0, 6 if tier == "quick" else 8):
        out += ["".join(t) for t in itertools.product("a_.", repeat=n)]
    return out


def pair_checks(ctx):
    """the same input under both settings: generated API objects (L1) and generated packages (real runs)"""
    import corpus
    import gen_pkg
    import implrun
    import oracles
    vio = []
    n = 0
    items = corpus.get_l1(ctx["seed"], ctx["tier"])
    by_seed: dict = {}
    for it in items:
        by_seed.setdefault(it["api_seed"], {})[it["nc"]] = it
    for seed, pair in by_seed.items():
        if False in pair and True in pair and not pair[False]["impl"].get("exc") and not pair[True]["impl"].get("exc"):
            n += 1
            for v in oracles.names_relation(pair[False]["impl"]["stubs"], pair[True]["impl"]["stubs"]):
                vio.append({**v, "l1_api_seed": seed})
    rng = random.Random(ctx["seed"] + 909)
    npk = 6 if ctx["tier"] == "quick" else 50
    base = implrun.scratch_dir("c09")
    jobs, pk = [], []
    import findings
    for i in range(npk):
        p = findings.enum_name_not_converted()[0] if i == 0 else gen_pkg.gen_package(rng, i, style="plaintext", nmods=2, keywords=True)
        files = gen_pkg.package_files(p)
        root = base / f"t{i}"
        implrun.write_tree(root, files)
        for nc in (False, True):
            jobs.append({"src": str(root / p.name), "out": str(base / f"o{i}_{int(nc)}"), "nc": nc, "encode_api": False})
        pk.append((p, files))
    ans = implrun.run_jobs(jobs)
    implrun.cleanup()
    for i, (p, files) in enumerate(pk):
        a0, a1 = ans[2 * i], ans[2 * i + 1]
        if a0.get("exc") or a1.get("exc"):
            continue
        n += 1
        for v in oracles.names_relation(a0["stubs"], a1["stubs"]):
            vio.append({**v, "package": p.name, "files": files if len(vio) < 3 else None})
    return vio, n


def run(ctx):
    rng = random.Random(ctx["seed"] + 9)
    ns = names(rng, ctx["tier"])
    cases, meta = [], []
    for n in ns:
        for nc in (False, True):
            for c in (False, True):
                cases.append(vlib.sx(["convert", nc, c, n]))
                meta.append((n, nc, c))
    model = vlib.run_model(cases)
    disagreements, violations = [], []
    nontriv = set()
    for (n, nc, c), m in zip(meta, model, strict=True):
        try:
            conv = _convert_name_to_convention(n, NamingConvention.SAFE_DS if nc else NamingConvention.PYTHON, is_class_name=c)
        except Exception as e:  # noqa: BLE001
            disagreements.append({"case": [n, nc, c], "impl": type(e).__name__, "model": m})
            violations.append({"what": f"name conversion raises {type(e).__name__}", "input": [n, nc, c], "finding": None})
            continue
        esc = _replace_if_safeds_keyword(conv)
        inte = is_internal(n)
        if [conv, esc, "1" if inte else "0"] != m:
            disagreements.append({"case": [n, nc, c], "impl": [conv, esc, inte], "model": m})
        if "_" in n or any(ch.isupper() for ch in n):
            nontriv.add(n)
        # laws on the implementation
        if not nc and conv != n:
            violations.append({"what": "conversion off changes the name", "input": [n, c], "observed": conv, "finding": None})
        stripped = n.strip("_")
        kept = n == "_" or not stripped or stripped[0].isdigit()     # no identifier would be left: emitted as it is
        if nc and kept and conv != n:
            violations.append({"what": "a name whose conversion would not be an identifier is not kept", "input": [n, c], "observed": conv,
                               "finding": None})
        if nc and not kept:
            if "_" in conv:
                violations.append({"what": "converted name contains an underscore", "input": [n, c], "observed": conv, "finding": None})
            if conv.lower() != n.replace("_", "").lower():
                violations.append({"what": "conversion loses or reorders characters", "input": [n, c], "observed": conv, "finding": None})
            if c and conv and conv[0].islower():
                violations.append({"what": "class name does not start in upper case", "input": [n, c], "observed": conv, "finding": None})
        if (esc != conv) != (conv in KEYWORDS) or (esc != conv and esc != f"`{conv}`"):
            violations.append({"what": "keyword escaping wrong", "input": [n, nc, c], "observed": esc, "finding": None})
    from props.common import corpus_check
    back = corpus_check(ctx, "C09", None)
    disagreements += back["disagreements"]
    pv, pn = pair_checks(ctx)
    violations += pv
    return {
        "evaluations": len(cases) + back["evaluations"] + pn,
        "distinct_nontrivial": len(nontriv),
        "rule": "all strings of length <= %d over {a,B,1,_}, the 33 keywords and decorated variants, random identifiers; each under "
                "both settings and both name classes; plus the emission sites through the back-end model on packages and API objects, and the same "
                "input rendered under both settings (annotation iff renamed, same recoverable Python names); non-trivial when the name contains '_' or an upper-case letter; distinct by name"
                % (5 if ctx["tier"] == "quick" else 7),
        "samples": [meta[777], meta[-1], ["__get__function___name__", _convert_name_to_convention("__get__function___name__", NamingConvention.SAFE_DS)]],
        "disagreements": disagreements,
        "violations": violations,
        "stats": {"names": len(ns), "on_off_pairs": pn, **back["stats"]},
        "assumptions": ["identifiers are ASCII ([A-Za-z0-9_] as in the property's quantifier); str.upper is modelled on ASCII"],
        "exhaustive": True,
    }
