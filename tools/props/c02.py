"""C02: corpus-based check (back-end correspondence on the projection + oracle on the implementation's output), the
scanner of coq/Spec/Sds.v run on every emitted file, and the two escape helpers against the model (L0)."""
import random

import corpus
import oracles
import vlib
from props.common import corpus_check

ALPHABET = ["*", "/", "\\", '"', "\n", "\r", "\t", " ", "a", "{", "}", "`", "'", "<", ">", "-", "é", "(", ")"]


def escape_cases(rng: random.Random, n: int) -> list[str]:
    fixed = ["", "*/", "**/", "*/*/", "*//", "/*", "*", "/", "\\", "\\\\", '"', '\\"', "a\nb", "src/*/tests", "*\\/", "***/", "*/" * 5,
             "\\n", 'say "hi"', "C:\\dir\\", "\r\n", "\t"]
    out = list(fixed)
    while len(out) < n:
        out.append("".join(rng.choice(ALPHABET) for _ in range(rng.randrange(0, 12))))
    return out


def run(ctx):
    res = corpus_check(ctx, "C02", oracles.c02, l1_oracle=lambda it: oracles.files_c02(it["impl"]["stubs"]))
    tier, seed = ctx["tier"], ctx["seed"]
    # (1) every emitted file is lexically well formed for the scanner the closedness theorems are stated about
    texts, where = [], []
    for c in res.get("cases", []):
        if c.answer.get("exc"):
            continue
        for path, text in corpus.impl_files(c).items():
            texts.append(text)
            where.append({"package": c.pkg.name, "path": path, "files": c.files,
                          "options": {k: c.job.get(k) for k in ("docstyle", "nc", "tsp", "tsw")}})
    for it in corpus.get_l1(seed, tier):
        if it["impl"].get("exc"):
            continue
        for path, text in it["impl"]["stubs"].items():
            if path.endswith(".sdsstub"):
                texts.append(text)
                where.append({"l1_api_seed": it["api_seed"], "nc": it["nc"], "path": path})
    answers = vlib.run_model([vlib.sx(["lex", t]) for t in texts])
    bad = 0
    for t, w, a in zip(texts, where, answers, strict=True):
        if a[0] not in (True, 1, "1"):
            bad += 1
            if bad <= 5:
                res["violations"].append({"what": f"{w['path']} is not lexically well formed (unclosed comment, string, back-quote or "
                                                  f"bracket; scanner of Spec/Sds.v): error={a[1]} in_code={a[2]}", "decl": w["path"],
                                          "finding": None, "text": t[:2000], **{k: v for k, v in w.items() if k != "path"}})
    # (2) the escape helpers against their model, and the model's own scanner on what the implementation returns
    from safeds_stubgen.stubs_generator import _helper as H

    rng = random.Random(seed + 2)
    cases = escape_cases(rng, 400 if tier == "quick" else 4000)
    model = vlib.run_model([vlib.sx(["escapes", t]) for t in cases])
    impls = [[H._escape_comment_text(t), H._escape_string_content(t)] for t in cases]
    lexed = vlib.run_model([vlib.sx(["lex", "/**\n" + i[0] + " */"]) for i in impls] + [vlib.sx(["lex", '"' + i[1] + '"']) for i in impls])
    shown = 0
    for k, (t, m, impl) in enumerate(zip(cases, model, impls, strict=True)):
        if [m[0], m[1]] != impl:
            res["disagreements"].append({"case": ["escapes", t], "impl": impl, "model": [m[0], m[1]]})
        if lexed[k][0] not in (True, 1, "1") and shown < 5:
            shown += 1
            res["violations"].append({"what": f"a documentation text {t!r} is printed as {impl[0]!r}, which ends the comment early",
                                      "input": t, "finding": None})
        if lexed[len(cases) + k][0] not in (True, 1, "1") and shown < 5:
            shown += 1
            res["violations"].append({"what": f"the string value {t!r} is printed as \"{impl[1]}\", which is not one closed string literal",
                                      "input": t, "finding": None})
    # (3) every Python identifier over [A-Za-z0-9_] is printed as a legal identifier token, conversion on or off
    import itertools
    import re

    from safeds_stubgen.stubs_generator._helper import NamingConvention, _convert_name_to_convention, _replace_if_safeds_keyword
    ident = re.compile(r"[A-Za-z_][A-Za-z0-9_]*")
    kws = set(oracles.sdsparse.KEYWORDS)
    idents = [n for k in range(1, 6 if tier == "quick" else 8) for n in map("".join, itertools.product("aB1_", repeat=k)) if n.isidentifier()]
    idents += sorted(kws) + ["_" + k for k in sorted(kws)] + [k + "_" for k in sorted(kws)] + ["_1", "__", "___", "_9_lives", "__1__", "_1_a", "_a_1"]
    shown = 0
    for n in idents:
        for conv_on in (False, True):
            for is_cls in (False, True):
                out = _replace_if_safeds_keyword(_convert_name_to_convention(
                    n, NamingConvention.SAFE_DS if conv_on else NamingConvention.PYTHON, is_class_name=is_cls))
                legal = (ident.fullmatch(out) and out not in kws) or (out[:1] == "`" and out[-1:] == "`" and ident.fullmatch(out[1:-1]))
                if not legal and shown < 5:
                    shown += 1
                    res["violations"].append({"what": f"the Python identifier {n!r} is printed as {out!r}, which is not a Safe-DS identifier "
                                                      f"(naming conversion {'on' if conv_on else 'off'}, class name: {is_cls})",
                                              "input": [n, conv_on, is_cls], "finding": None})
    res["stats"]["identifiers_checked"] = len(idents) * 4
    res["evaluations"] += len(cases) + len(idents) * 4
    res["stats"]["files_scanned"] = len(texts)
    res["stats"]["escape_cases"] = len(cases)
    res["stats"]["escape_cases_with_terminator_or_quote"] = sum(1 for t in cases if "*/" in t or '"' in t or "\\" in t or "\n" in t)
    res.pop("cases", None)
    return res
