"""C02: corpus-based check (back-end correspondence on the projection + oracle on the implementation's output)."""
import oracles
from props.common import corpus_check


def run(ctx):
    return corpus_check(ctx, "C02", oracles.c02, l1_oracle=lambda it: oracles.files_c02(it["impl"]["stubs"]))
