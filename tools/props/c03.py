"""C03: every public declaration appears in the stubs exactly once."""
import oracles
from props.common import corpus_check


def run(ctx):
    return corpus_check(ctx, "C03", lambda c: (oracles.c03_c04(c)[0], len(list(oracles.truth_decls(c.pkg)))), l1_oracle=oracles.l1_c03,
                        nontrivial=lambda c: bool(c.pkg.inits[0].reexports) or any(m.path.split("/")[-1].startswith("_") for m in c.pkg.modules))
