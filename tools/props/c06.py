"""C06: parameter lists are reproduced exactly."""
import oracles
from props.common import corpus_check


def run(ctx):
    return corpus_check(ctx, "C06", oracles.c06)
