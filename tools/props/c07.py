"""C07: results mirror the return annotation, or soundly cover inferred returns."""
import corpus
import oracles
from props.common import corpus_check


def run(ctx):
    res = corpus_check(ctx, "C07", oracles.c07, nontrivial=lambda c: any(f.inferred for m in c.pkg.modules for f in m.funcs))
    # docstring-named results: a second stream of packages whose docstrings name (some of) the results
    tier, seed = ctx["tier"], ctx["seed"]
    doc_cases = corpus.get("doc", 8 if tier == "quick" else 48, seed, tier)
    res["disagreements"] += corpus.back_disagreements(doc_cases, "C07") + corpus.front_disagreements(doc_cases, "C07")
    checked = 0
    for c in doc_cases:
        vs, n = oracles.c07_names(c)
        checked += n
        for v in vs:
            res["violations"].append({**v, "package": c.pkg.name, "options": {"docstyle": c.pkg.style}, "files": c.files if len(res["violations"]) < 3 else None})
    res["evaluations"] += len(doc_cases)
    res["stats"]["docstring_packages"] = len(doc_cases)
    res["stats"]["functions_with_as_many_result_entries_as_results"] = checked
    res["rule"] += "; plus docstring-heavy packages (numpydoc, google, reST) whose Returns sections name some results and leave others unnamed"
    return res
