"""C07: results mirror the return annotation, or soundly cover inferred returns."""
import oracles
from props.common import corpus_check


def run(ctx):
    return corpus_check(ctx, "C07", oracles.c07, nontrivial=lambda c: any(f.inferred for m in c.pkg.modules for f in m.funcs))
