import sys, os
sys.path.insert(0, '/verif/tools')
import vlib, apienc
from pathlib import Path
import tempfile, shutil
from safeds_stubgen.api_analyzer import get_api
from safeds_stubgen.docstring_parsing import DocstringStyle
from safeds_stubgen.stubs_generator import StubsStringGenerator, create_stub_files, generate_stub_data

def one(src, style, nc):
    os.environ["MYPY_CACHE_DIR"]="/verif/.work/mc"
    api = get_api(Path(src), docstring_style=DocstringStyle.from_string(style), is_test_run=True)
    case = vlib.sx(["back", nc, apienc.api_sx(api), []])
    out = Path(tempfile.mkdtemp(dir="/verif/.work"))
    gen = StubsStringGenerator(api=api, convert_identifiers=nc)
    data = generate_stub_data(gen, out)
    create_stub_files(gen, data, out)
    files = {str(p.relative_to(out)): p.read_text() for p in out.rglob("*") if p.is_file()}
    shutil.rmtree(out)
    m = vlib.run_model([case])[0]
    if m[0] != "ok":
        print("MODEL:", m); return
    mdata = [[d, n, t, p == "1"] for d, n, t, p in m[1]]
    idata = [[str(Path(d).relative_to(out)), n, t, bool(p)] for d, n, t, p in data]
    print(src, style, nc, "entries", len(idata), len(mdata), "tie", m[4])
    for a, b in zip(idata, mdata):
        if a != b:
            print("DIFF entry", a[0], a[1])
            import difflib
            for l in list(difflib.unified_diff(a[2].split("\n"), b[2].split("\n"), "impl", "model", lineterm=""))[:40]:
                print("   ", l)
            break
    mfiles = {p: c for p, c in m[5]}
    if mfiles != files:
        print("FILES differ", sorted(set(files) ^ set(mfiles))[:10])
        for k in files:
            if k in mfiles and files[k] != mfiles[k]:
                print("content differs", k); break
    if sorted(m[2]) != sorted(gen.classes_outside_package):
        print("outside differs", m[2], gen.classes_outside_package)

for src, style in [("/repo/tests/data/various_modules_package","plaintext"), ("/repo/tests/data/docstring_parser_package","numpydoc"),
                   ("/repo/tests/data/docstring_parser_package","google"),("/repo/tests/data/docstring_parser_package","rest"),
                   ("/repo/tests/data/main_package","plaintext")]:
    for nc in (False, True):
        one(src, style, nc)
