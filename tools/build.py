"""Rebuild the Coq development and the extracted driver from the current /repo tree (under a file lock)."""
from __future__ import annotations

import fcntl
import os
import re
import subprocess
import sys
from pathlib import Path

VERIF = Path(__file__).resolve().parent.parent
COQ = VERIF / "coq"
ML = COQ / "Extract" / "ml"

FORBIDDEN = re.compile(r"\b(Admitted|admit|Axiom|Axioms|Parameter|Parameters|Conjecture|Hypothesis|Variable|Variables|Hypotheses)\b|Unset Guard|bypass_check|Admit Obligations|-type-in-type|impredicative-set")


def _forbidden_scan() -> list[str]:
    """No Admitted/admit/Axiom/...; Variable/Hypothesis are only allowed inside a Section."""
    hits = []
    for f in sorted(COQ.rglob("*.v")):
        if f.name.startswith("_goal_tmp") or "cases" in f.parts:
            continue
        depth = 0
        in_comment = 0
        for i, line in enumerate(f.read_text().split("\n"), 1):
            # strip comments (approximate, nesting-aware per line)
            out = []
            j = 0
            while j < len(line):
                if line.startswith("(*", j):
                    in_comment += 1
                    j += 2
                elif line.startswith("*)", j) and in_comment:
                    in_comment -= 1
                    j += 2
                else:
                    if not in_comment:
                        out.append(line[j])
                    j += 1
            code = "".join(out)
            if re.match(r"\s*Section\b", code):
                depth += 1
            if re.match(r"\s*End\b", code) and depth > 0:
                depth -= 1
            for m in FORBIDDEN.finditer(code):
                w = m.group(0)
                if w in ("Variable", "Variables", "Hypothesis", "Hypotheses") and depth > 0:
                    continue
                hits.append(f"{f.relative_to(COQ)}:{i}: {w}")
    return hits


def build(verbose: bool = False) -> dict:
    """Returns {'translator': None|msg, 'make_ok': bool, 'failed_files': [...], 'errors': text, 'driver_ok': bool,
    'forbidden': [...]}"""
    status: dict = {"translator": None, "make_ok": False, "failed_files": [], "errors": "", "driver_ok": False,
                    "forbidden": []}
    lock = open(VERIF / ".build.lock", "w")
    fcntl.flock(lock, fcntl.LOCK_EX)
    try:
        r = subprocess.run([sys.executable, str(VERIF / "tools" / "extract_tables.py")], capture_output=True, text=True)
        if r.returncode != 0:
            status["translator"] = (r.stdout + r.stderr).strip()
        if not (COQ / "Makefile").exists() or (COQ / "Makefile").stat().st_mtime < (COQ / "_CoqProject").stat().st_mtime:
            subprocess.run(["coq_makefile", "-f", "_CoqProject", "-o", "Makefile"], cwd=COQ, capture_output=True, check=True)
        r = subprocess.run(["timeout", "1500", "make", "-k", "-j16"], cwd=COQ, capture_output=True, text=True)
        out = r.stdout + r.stderr
        status["make_ok"] = r.returncode == 0
        if r.returncode != 0:
            failed = re.findall(r'File "\./([^"]+)", line (\d+)', out)
            status["failed_files"] = sorted({f for f, _ in failed})
            status["errors"] = out[-4000:]
        # extracted driver
        model_ml = ML / "model.ml"
        drv = ML / "model_driver"
        if model_ml.exists():
            if not drv.exists() or drv.stat().st_mtime < model_ml.stat().st_mtime or drv.stat().st_mtime < (ML / "main.ml").stat().st_mtime:
                r2 = subprocess.run(["timeout", "600", "ocamlfind", "ocamlopt", "-w", "-a", "model.mli", "model.ml", "main.ml", "-o", "model_driver"],
                                    cwd=ML, capture_output=True, text=True)
                if r2.returncode != 0:
                    status["errors"] += "\n" + r2.stdout + r2.stderr
            status["driver_ok"] = drv.exists() and drv.stat().st_mtime >= model_ml.stat().st_mtime
        status["forbidden"] = _forbidden_scan()
    finally:
        fcntl.flock(lock, fcntl.LOCK_UN)
        lock.close()
    if verbose:
        print(status)
    return status


def property_theorems(prop: str) -> dict:
    """Compile Properties/<prop>.v on its own, return theorem names, assumptions output, ok flag."""
    src = COQ / "Properties" / f"{prop}.v"
    info: dict = {"file": str(src), "theorems": [], "ok": False, "assumptions": [], "log": ""}
    if not src.exists():
        return info
    text = src.read_text()
    info["theorems"] = re.findall(r"^\s*(?:Theorem|Lemma|Corollary)\s+(\w+)", text, re.M)
    # up to date w.r.t. make?
    q = subprocess.run(["make", "-q", f"Properties/{prop}.vo"], cwd=COQ, capture_output=True, text=True)
    up_to_date = q.returncode == 0 and (COQ / "Properties" / f"{prop}.vo").exists()
    lock = open(VERIF / ".build.lock", "w")
    fcntl.flock(lock, fcntl.LOCK_EX)
    try:
        r = subprocess.run(["timeout", "600", "coqc", "-R", ".", "SV", f"Properties/{prop}.v"], cwd=COQ, capture_output=True, text=True)
    finally:
        fcntl.flock(lock, fcntl.LOCK_UN)
        lock.close()
    info["log"] = (r.stdout + r.stderr)[-3000:]
    info["ok"] = r.returncode == 0 and up_to_date
    # Print Assumptions output: one block per command
    blocks = []
    cur: list[str] = []
    for line in r.stdout.split("\n"):
        if line.startswith("Closed under the global context"):
            blocks.append("Closed under the global context")
        elif line.startswith("Axioms:"):
            cur = ["Axioms:"]
            blocks.append(cur)  # type: ignore[arg-type]
        elif cur and line.startswith(" ") or (cur and line and not line.startswith("Closed")):
            cur.append(line)
    info["assumptions"] = [b if isinstance(b, str) else "\n".join(b) for b in blocks]
    return info


def coqchk(prop: str) -> dict:
    """independent re-check of Properties/<prop>.vo and everything it depends on; returns the context summary"""
    r = subprocess.run(["timeout", "1500", "coqchk", "-silent", "-o", "-R", ".", "SV", f"SV.Properties.{prop}"], cwd=COQ, capture_output=True, text=True)
    out = r.stdout + r.stderr
    summary = out[out.find("CONTEXT SUMMARY"):] if "CONTEXT SUMMARY" in out else out[-1500:]
    items = {}
    for m in re.finditer(r"\* ([^:\n]+):\s*([^\n]*(?:\n    [^\n]*)*)", summary):
        items[m.group(1).strip()] = " ".join(m.group(2).split())
    ok = r.returncode == 0 and items.get("Axioms") == "<none>" and all(
        v == "<none>" for k, v in items.items() if k.startswith("Constants/Inductives") or k.startswith("Inductives whose"))
    return {"ok": ok, "returncode": r.returncode, "summary": items}


if __name__ == "__main__":
    st = build(verbose=False)
    print("translator:", st["translator"] or "ok")
    print("make:", "ok" if st["make_ok"] else "FAILED " + ", ".join(st["failed_files"]))
    print("driver:", "ok" if st["driver_ok"] else "FAILED")
    if st["forbidden"]:
        print("forbidden:", st["forbidden"])
    if not st["make_ok"]:
        print(st["errors"][-2000:])
    sys.exit(0 if (st["make_ok"] and st["driver_ok"] and not st["translator"] and not st["forbidden"]) else 1)
