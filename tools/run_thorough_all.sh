#!/bin/bash
# every thorough check once, sequentially; logs under .work/thorough
cd "$(dirname "$0")/.."
mkdir -p .work/thorough; rm -f .work/thorough/*
for p in C19 C09 C15 C13 C12 C10 C06 C07 C03 C04 C05 C17 C20 C11 C02 C16 C14 C18 C08 C01; do
  s=$(date +%s); ./check $p --tier thorough > .work/thorough/$p.log 2>&1; rc=$?
  echo "$p rc=$rc $(( $(date +%s) - s ))s" >> .work/thorough/summary.txt
done
