"""Generators of API type values (real safeds_stubgen objects)."""
from __future__ import annotations

import itertools
import random

import vlib  # noqa: F401  (sets sys.path)
import safeds_stubgen.api_analyzer._types as T

LITS = ["a", "b", "", 1, 0, -2, True, False, 1.5, -0.25, None]


def leaves():
    return [
        T.UnknownType(),
        T.NamedType("a", "p.a"),
        T.NamedType("b", "p.b"),
        T.NamedType("int", "builtins.int"),
        T.NamedType("None", "builtins.None"),
        T.LiteralType([1]),
        T.LiteralType([True]),
        T.LiteralType(["a", 1]),
        T.TypeVarType("T"),
        T.EnumType(frozenset({"x", "y"})),
        T.EnumType(frozenset()),
        T.BoundaryType("float", 0.5, "Infinity", True, True),
        T.BoundaryType("float", 0.5, "Infinity", True, False),
        T.BoundaryType("int", 0, 10, False, True),
        T.BoundaryType("int", "NegativeInfinity", 10, False, False),
    ]


SEQ = [T.UnionType, T.ListType, T.SetType, T.TupleType]


def grow(pool, max_arity=2, limit=None, rng=None):
    """one more level of constructors over `pool`"""
    out = []
    for n in range(0, max_arity + 1):
        for args in itertools.product(pool, repeat=n):
            for c in SEQ:
                out.append(c(list(args)))
            out.append(T.NamedSequenceType("G", "p.G", list(args)))
    for a in pool:
        out.append(T.FinalType(a))
        out.append(T.TypeVarType("T", a))
        out.append(T.CallableType([], a))
    for a, b in itertools.product(pool, repeat=2):
        out.append(T.DictType(a, b))
        out.append(T.CallableType([a], b))
    if limit is not None and len(out) > limit:
        rng = rng or random.Random(0)
        out = rng.sample(out, limit)
    return out


def random_type(rng: random.Random, depth: int):
    if depth <= 0 or rng.random() < 0.25:
        k = rng.randrange(8)
        if k == 0:
            return T.UnknownType()
        if k in (1, 2):
            n = rng.choice(["a", "b", "C", "int", "str", "None", "_P"])
            return T.NamedType(n, rng.choice(["builtins.", "p.", "p.q."]) + n)
        if k == 3:
            return T.LiteralType([rng.choice(LITS) for _ in range(rng.randrange(0, 4))])
        if k == 4:
            return T.TypeVarType(rng.choice(["T", "U"]))
        if k == 5:
            return T.EnumType(frozenset(rng.sample(["x", "y", "z", "a b"], rng.randrange(0, 4))))
        if k == 6:
            return T.BoundaryType(rng.choice(["int", "float"]), rng.choice([0, 1, 0.5, "NegativeInfinity"]),
                                  rng.choice([5, 2.5, "Infinity"]), rng.random() < 0.5, rng.random() < 0.5)
        return T.NamedType("a", "p.a")
    k = rng.randrange(9)
    sub = lambda: random_type(rng, depth - 1)  # noqa: E731
    subs = lambda: [sub() for _ in range(rng.randrange(0, 4))]  # noqa: E731
    if k < 4:
        return SEQ[k](subs())
    if k == 4:
        return T.NamedSequenceType(rng.choice(["G", "H"]), "p.G", subs())
    if k == 5:
        return T.DictType(sub(), sub())
    if k == 6:
        return T.CallableType(subs(), sub())
    if k == 7:
        return T.FinalType(sub())
    return T.TypeVarType(rng.choice(["T", "U"]), sub() if rng.random() < 0.7 else None)


def shuffled(rng: random.Random, t):
    """a copy of t with the element order of every sequence-like node permuted"""
    def sh(l):
        l = [shuffled(rng, x) for x in l]
        rng.shuffle(l)
        return l
    if isinstance(t, T.UnionType | T.ListType | T.SetType | T.TupleType):
        return type(t)(sh(t.types))
    if isinstance(t, T.NamedSequenceType):
        return T.NamedSequenceType(t.name, t.qname, sh(t.types))
    if isinstance(t, T.CallableType):
        return T.CallableType(sh(t.parameter_types), shuffled(rng, t.return_type))
    if isinstance(t, T.LiteralType):
        l = list(t.literals)
        rng.shuffle(l)
        return T.LiteralType(l)
    if isinstance(t, T.DictType):
        return T.DictType(shuffled(rng, t.key_type), shuffled(rng, t.value_type))
    if isinstance(t, T.FinalType):
        return T.FinalType(shuffled(rng, t.type_))
    if isinstance(t, T.TypeVarType) and t.upper_bound is not None:
        return T.TypeVarType(t.name, shuffled(rng, t.upper_bound))
    return t


def nontrivial(t) -> bool:
    return not isinstance(t, T.UnknownType | T.NamedType | T.EnumType | T.BoundaryType | T.LiteralType) and not (
        isinstance(t, T.TypeVarType) and t.upper_bound is None)
