#!/bin/bash
# usage: collect_seeded.sh <Cnn> <suffix> [reverify]
#  collect the mutant left in /tmp/wt_<Cnn> into /verif/seeded/<Cnn>_<suffix>/ and confirm it (no git stash: the stash is shared by all worktrees)
id=$1; suf=$2; wt=/tmp/wt_$id; dst=/verif/seeded/${id}_$suf
mkdir -p $dst
cd $wt
if [ "$3" = "reverify" ]; then
  git checkout -q -- . ; git clean -fdxq
  cp -r $dst/demo $wt/demo
  git apply $dst/patch.diff || { echo "$dst: patch does not apply"; exit 1; }
else
  git diff -- src > $dst/patch.diff
  rm -rf $dst/demo; cp -r $wt/demo $dst/demo 2>/dev/null
  find $dst/demo \( -name "__pycache__" -o -name ".mypy_cache*" \) -type d | xargs rm -rf 2>/dev/null
fi
export PYTHONPATH=$wt/src PYTHONSAFEPATH=1 MYPY_CACHE_DIR=$wt/.mypy_cache_x
/venv/bin/python demo/demo.py > $dst/demo_with_patch.log 2>&1; rc_with=$?
/venv/bin/python -m pytest -q -p no:cacheprovider --timeout=900 -q tests --junitxml=$dst/junit_with_patch.xml > /dev/null 2>&1
git apply -R $dst/patch.diff
/venv/bin/python demo/demo.py > $dst/demo_without_patch.log 2>&1; rc_without=$?
git apply $dst/patch.diff
python3 - $dst $rc_with $rc_without <<'PY'
import sys, json, xml.etree.ElementTree as ET
dst, rc_with, rc_without = sys.argv[1], int(sys.argv[2]), int(sys.argv[3])
ok = set()
for tc in ET.parse(dst + "/junit_with_patch.xml").iter("testcase"):
    if not list(tc):
        ok.add(tc.get("classname") + "::" + tc.get("name"))
base = set(json.load(open("/root/.vp/BASELINE.json"))["stable_pass"])
print(dst, "demo with patch rc", rc_with, "without", rc_without, "baseline tests still passing:", len(base & ok), "/", len(base), "total passing", len(ok))
json.dump({"demo_rc_with_patch": rc_with, "demo_rc_without_patch": rc_without, "baseline_pass_kept": len(base & ok), "baseline_total": len(base), "passing_with_patch": len(ok)}, open(dst + "/confirm.json", "w"))
PY
rm -f $dst/junit_with_patch.xml
