"""Property predicates evaluated on the implementation's output for generated packages (the search for failing inputs).

Ground truth comes from the abstract package description (gen_pkg), never from the tool's own intermediate data,
except where the property itself is stated relative to the API JSON (C20: features of the API element)."""
from __future__ import annotations

import json

import gen_pkg
import sdsparse
from corpus import Case, impl_files, parsed_files


def is_private_name(n: str) -> bool:
    return n.startswith("_") and not (n.startswith("__") and n.endswith("__"))


# ---------------------------------------------------------------------------------------------------------
def truth_decls(pkg: gen_pkg.Package):
    """yield dicts: kind, name, owner (dotted python path of the container), module, public(bool), obj, cls_chain"""
    reexp = {}
    stay = set()
    for init in pkg.inits:
        for kind, mod, name, alias in init.reexports:
            if kind == "stay":
                stay.add((mod, name))
            else:
                reexp[(mod, name)] = (init.dotted, alias)
    for m in pkg.modules:
        mod_public = not any(is_private_name(seg) for seg in m.dotted.split("."))

        def cls_rec(c: gen_pkg.Cls, owner: str, owner_public: bool, top: bool):
            pub = (owner_public and not is_private_name(c.name)) or (top and (m.dotted, c.name) in stay)
            rx = reexp.get((m.dotted, c.name)) if top else None
            yield {"kind": "class", "name": c.name, "owner": owner, "module": m.dotted, "public": pub or bool(rx), "obj": c,
                   "reexport": rx}
            me = owner + "." + c.name
            cpub = pub or bool(rx)
            for a in c.attrs:
                yield {"kind": "attr", "name": a.name, "owner": me, "module": m.dotted,
                       "public": cpub and not is_private_name(a.name), "obj": a, "reexport": None}
            for f in c.methods:
                yield {"kind": "property" if f.deco == "prop" else "method", "name": f.name, "owner": me, "module": m.dotted,
                       "public": cpub and not is_private_name(f.name), "obj": f, "reexport": None}
            for ic in c.inner:
                yield from cls_rec(ic, me, cpub, False)

        for f in m.funcs:
            rx = reexp.get((m.dotted, f.name))
            yield {"kind": "function", "name": f.name, "owner": m.dotted, "module": m.dotted,
                   "public": (mod_public and not is_private_name(f.name)) or (rx is not None and not is_private_name(rx[1] or f.name)),
                   "obj": f, "reexport": rx}
        for c in m.classes:
            yield from cls_rec(c, m.dotted, mod_public, True)
        for e in m.enums:
            yield {"kind": "enum", "name": e.name, "owner": m.dotted, "module": m.dotted,
                   "public": mod_public and not is_private_name(e.name), "obj": e, "reexport": None}


def index_stubs(files: dict[str, str]):
    """(owner dotted python path, python name, kind) -> list of (path, decl); plus parse errors"""
    idx: dict[tuple, list] = {}
    errors = []
    for path, (mod, err) in parsed_files(files).items():
        if mod is None:
            errors.append((path, err))
            continue
        for owner, d in sdsparse.walk_decls(mod):
            own = mod["python_module"] + ("." + owner if owner else "")
            kind = d["kind"]
            idx.setdefault((own, d["pyname"], kind), []).append((path, d))
            if kind == "enum":
                for mem in d["members"]:
                    idx.setdefault((own + "." + d["pyname"], mem["pyname"], "member"), []).append((path, mem))
    return idx, errors


STUB_KIND = {"function": "fun", "method": "fun", "property": "attr", "attr": "attr", "class": "class", "enum": "enum"}


def expected_location(t) -> tuple[str, str]:
    """(owner python path, python name) under which the declaration has to be found"""
    if t["reexport"]:
        pkg, alias = t["reexport"]
        return pkg, alias or t["name"]
    return t["owner"], t["name"]


def inherits_private(pkg: gen_pkg.Package, t) -> bool:
    return False


# ---------------------------------------------------------------------------------------------------------
def c03_c04(case: Case):
    """C03: every public declaration exactly once; C04: no private declaration, JSON flags"""
    v3, v4 = [], []
    if case.answer.get("exc"):
        return v3, v4
    idx, errors = index_stubs(impl_files(case))
    if errors:
        return v3, v4   # syntax problems are C02's business
    api = case.answer["api"]
    cls_public = {c["id"]: c["is_public"] for c in api["classes"]}
    fn_public = {f["id"]: f["is_public"] for f in api["functions"]}
    at_public = {a["id"]: a["is_public"] for a in api["attributes"]}
    moved = {}   # class owner path -> new owner path when a class is re-exported (members move with it)
    truths = list(truth_decls(case.pkg))
    for t in truths:
        if t["kind"] == "class" and t["reexport"]:
            pkg, alias = t["reexport"]
            moved[t["owner"] + "." + t["name"]] = pkg + "." + (alias or t["name"])
    def relocate(owner: str) -> str:
        for old, new in moved.items():
            if owner == old or owner.startswith(old + "."):
                return new + owner[len(old):]
        return owner
    exception_classes = set()
    for t in truths:
        owner, name = expected_location(t)
        owner = relocate(owner)
        kind = STUB_KIND[t["kind"]]
        hits = idx.get((owner, name, kind), [])
        # declarations nested in a class whose owner chain is hidden are looked up under the chain's stub path
        if t["public"]:
            if len(hits) != 1:
                finding = None
                if t["kind"] == "attr" and t["obj"].ann is not None and t["obj"].ann.kind == "typevar" and not hits:
                    finding = "typevar_typed_attribute_dropped"
                v3.append({"what": f"public {t['kind']} {t['owner']}.{t['name']} appears {len(hits)} times in the stubs",
                           "decl": f"{t['owner']}.{t['name']}", "finding": finding})
        else:
            if hits:
                v4.append({"what": f"private {t['kind']} {t['owner']}.{t['name']} appears in {hits[0][0]}",
                           "decl": f"{t['owner']}.{t['name']}", "finding": "enum_without_publicity_test" if t["kind"] == "enum" else None})
        # JSON flags
        jid = (t["owner"] + "." + t["name"]).replace(".", "/")
        flag = None
        if t["kind"] == "class":
            flag = cls_public.get(jid)
        elif t["kind"] in ("function", "method", "property"):
            flag = fn_public.get(jid)
        elif t["kind"] == "attr":
            flag = at_public.get(jid)
        if flag is not None and flag != t["public"]:
            v4.append({"what": f"JSON is_public={flag} for {t['kind']} {jid}, expected {t['public']}", "decl": jid, "finding": None})
        if t["kind"] == "enum" and t["public"]:
            for mname in t["obj"].members:
                if len(idx.get((owner + "." + name, mname, "member"), [])) != 1:
                    v3.append({"what": f"enum member {jid}/{mname} not exactly once", "decl": jid, "finding": None})
    # nothing is emitted that is not a declaration of the package
    known = set()
    for t in truths:
        owner, name = expected_location(t)
        known.add((relocate(owner), name, STUB_KIND[t["kind"]]))
    # classes of other libraries that the package derives from get a placeholder stub (C10, C11): not declarations of the package
    foreign_bases = {(mod, nm) for m_ in case.pkg.modules for c_ in _all_classes(m_) for nm, mod, _p in c_.base_refs
                     if mod.split(".")[0] != case.pkg.name}
    for (own, name, kind), hits in idx.items():
        if kind == "member":
            continue
        if kind == "class" and (own, name) in foreign_bases:
            continue
        if (own, name, kind) not in known and not _is_inlined(case, own, name, kind):
            finding = "class_attribute_list_items_by_name" if own == "typing" else None
            v3.append({"what": f"stub declaration {own}.{name} ({kind}) has no source declaration", "decl": f"{own}.{name}", "finding": finding})
    return v3, v4


def _is_inlined(case: Case, own: str, name: str, kind: str) -> bool:
    """members of private superclasses are shown in public subclasses (C17): not a leak, not an invention"""
    for m in case.pkg.modules:
        for c in _all_classes(m):
            if any(isinstance(f, gen_pkg.Func) and f.name == name for f in c.methods) and is_private_name(c.name):
                return True
            if any(ic.name == name for ic in c.inner) and is_private_name(c.name):
                return True
    return False


def _all_classes(m: gen_pkg.Module):
    def rec(c):
        yield c
        for ic in c.inner:
            if isinstance(ic, gen_pkg.Cls):
                yield from rec(ic)
    for c in m.classes:
        yield from rec(c)


# ---------------------------------------------------------------------------------------------------------
def _ref_norm(t):
    """normal form of a reference type tree modulo what the statement allows: union order/duplicates, Optional as union with
    Nothing?, one-member union = member, literal members merged"""
    k = t[0]
    if k == "named":
        return ("named", t[1])
    if k == "app":
        return ("app", t[1], tuple(_ref_norm(a) for a in t[2]))
    if k == "literal":
        return ("literal", frozenset(_lit_key(x) for x in t[1]))
    if k == "callable":
        r = t[2]
        if r == ("named", "Nothing?"):
            rets = ()
        elif r[0] == "app" and r[1] == "Tuple":
            rets = tuple(_ref_norm(a) for a in r[2])
        else:
            rets = (_ref_norm(r),)
        return ("callable", tuple(_ref_norm(a) for a in t[1]), rets)
    if k == "union":
        members = set()
        lits = set()
        def add(x):
            x = _ref_norm(x)
            if x[0] == "union":
                for y in x[1]:
                    add_n(y)
            else:
                add_n(x)
        def add_n(x):
            if x[0] == "literal":
                lits.update(x[1])
            else:
                members.add(x)
        for a in t[1]:
            add(a)
        if lits:
            members.add(("literal", frozenset(lits)))
        if len(members) == 1:
            return next(iter(members))
        return ("union", frozenset(members))
    raise ValueError(t)


def _lit_key(x):
    if isinstance(x, bool):
        return "true" if x else "false"
    if x is None:
        return "null"
    if isinstance(x, str) and not (x.startswith('"')):
        return '"' + x + '"' if not x.lstrip("-").replace(".", "").isdigit() and x not in ("true", "false", "null") else x
    return str(x)


def _stub_norm(t):
    """the same normal form computed from a parsed stub type"""
    if t is None:
        return None
    k = t[0]
    if k == "named":
        name = t[1]
        if t[2] is None:
            return ("named", name)
        return ("app", name, tuple(_stub_norm(a) for a in t[2]))
    if k == "nullable":
        inner = t[1]
        if inner == ("named", "Nothing", None):
            return ("named", "Nothing?")
        return _union_of([_stub_norm(inner), ("named", "Nothing?")])
    if k == "union":
        return _union_of([_stub_norm(a) for a in t[1]])
    if k == "literal":
        return ("literal", frozenset(t[1]))
    if k == "unknown":
        return ("named", "unknown")
    if k == "callable":
        return ("callable", tuple(_stub_norm(p["type"]) for p in t[1]), tuple(_stub_norm(r["type"]) for r in t[2]))
    raise ValueError(t)


def _union_of(ms):
    members, lits = set(), set()
    for m in ms:
        if m[0] == "union":
            for y in m[1]:
                (lits.update(y[1]) if y[0] == "literal" else members.add(y))
        elif m[0] == "literal":
            lits.update(m[1])
        else:
            members.add(m)
    if lits:
        members.add(("literal", frozenset(lits)))
    if len(members) == 1:
        return next(iter(members))
    return ("union", frozenset(members))


BASE_SIMPLE = ("int", "str", "bool", "float", "Any", "None", "ref")


def ann_in_domain(a: gen_pkg.Ann) -> bool:
    """annotation terms on which the documented mapping is expected to hold (outside: recorded findings)"""
    for x in a.walk():
        if x.kind in ("union", "bar", "optional"):
            kinds = [y.kind for y in x.args]
            if "literal" in kinds:
                return False     # literal + named member: A15 region
    return True


def c05(case: Case):
    out = []
    if case.answer.get("exc"):
        return out
    idx, errors = index_stubs(impl_files(case))
    if errors:
        return out
    moved = {}
    truths = list(truth_decls(case.pkg))
    n = 0
    for t in truths:
        if t["kind"] not in ("function", "method", "attr", "property", "class") or not t["public"]:
            continue
        owner, name = expected_location(t)
        hits = idx.get((owner, name, STUB_KIND[t["kind"]]), [])
        if len(hits) != 1:
            continue
        d = hits[0][1]
        obj = t["obj"]
        checks = []
        if t["kind"] in ("function", "method"):
            sp = {p["pyname"]: p for p in d["params"]}
            for p in obj.params:
                if p.ann is not None and p.name in sp and p.kind not in ("varpos", "varkw"):
                    checks.append((f"parameter {p.name}", p.ann, sp[p.name]["type"]))
            if obj.ret is not None and obj.ret.kind != "tuple" and len(d["results"]) == 1:
                checks.append(("result", obj.ret, d["results"][0]["type"]))
        elif t["kind"] == "attr" and obj.ann is not None:
            checks.append(("attribute", obj.ann, d["type"]))
        elif t["kind"] == "property" and obj.ret is not None:
            checks.append(("property", obj.ret, d["type"]))
        elif t["kind"] == "class" and obj.init is not None and d.get("params") is not None:
            sp = {p["pyname"]: p for p in d["params"]}
            for p in obj.init.params:
                if p.ann is not None and p.name in sp and p.kind not in ("varpos", "varkw"):
                    checks.append((f"constructor parameter {p.name}", p.ann, sp[p.name]["type"]))
        for what, ann, sty in checks:
            if not ann_in_domain(ann):
                continue
            n += 1
            exp = _ref_norm(ann.ref())
            got = _stub_norm(sty)
            dup = _duplicate_union_member(sty)
            if dup is not None:
                out.append({"what": f"type of {what} of {t['owner']}.{t['name']}: union {sdsparse.type_str(sty)!r} repeats the member {dup}",
                            "decl": f"{t['owner']}.{t['name']}", "finding": None})
            if exp != got:
                finding = None
                if what == "property" and ann.kind == "tuple":
                    finding = "property_tuple_as_union"
                if what == "attribute" and ann.kind == "callable" and sty is None:
                    finding = "callable_attribute_untyped"
                if what == "attribute" and ann.kind == "list" and (any(a.kind not in BASE_SIMPLE for a in ann.args)
                                                                   or any(a.kind == "ref" for a in ann.args)):
                    # the element types of an annotated list attribute come from the unanalysed annotation and are resolved by
                    # bare name: composite elements lose their structure, a class that is declared further down (or imported
                    # under another name) is not found and becomes `unknown`
                    finding = "class_attribute_list_items_by_name"
                out.append({"what": f"type of {what} of {t['owner']}.{t['name']}: annotation {ann.src()} rendered as "
                                    f"{sdsparse.type_str(sty)!r}", "decl": f"{t['owner']}.{t['name']}", "finding": finding})
    return out, n


# ---------------------------------------------------------------------------------------------------------
def _default_repr(p: gen_pkg.Param):
    v = p.default_value
    if isinstance(v, bool):
        return "true" if v else "false"
    if v is None:
        return "null"
    if isinstance(v, str):
        return '"' + v + '"'
    if isinstance(v, int | float):
        s = repr(v)
        return "- " + s[1:] if s.startswith("-") else s
    return None


KIND_JSON = {"posonly": "POSITION_ONLY", "pos": "POSITION_OR_NAME", "varpos": "POSITIONAL_VARARG", "kwonly": "NAME_ONLY",
             "varkw": "NAMED_VARARG"}


def c06(case: Case):
    out = []
    n = 0
    if case.answer.get("exc"):
        return out, n
    idx, errors = index_stubs(impl_files(case))
    if errors:
        return out, n
    api = case.answer["api"]
    params_json = {p["id"]: p for p in api["parameters"]}
    for t in truth_decls(case.pkg):
        if t["kind"] not in ("function", "method", "class"):
            continue
        obj = t["obj"] if t["kind"] != "class" else t["obj"].init
        if obj is None:
            continue
        fid = (t["owner"] + "." + t["name"]).replace(".", "/") + ("/__init__" if t["kind"] == "class" else "")
        # JSON: passing kinds (private declarations included)
        recv = []
        if t["kind"] == "class" or (t["kind"] == "method" and obj.deco in ("plain", "prop")):
            recv = [("self", "IMPLICIT")]
        elif t["kind"] == "method" and obj.deco == "classm":
            recv = [("cls", "IMPLICIT")]
        for pname, kind in recv + [(p.name, KIND_JSON[p.kind]) for p in obj.params]:
            pj = params_json.get(f"{fid}/{pname}")
            n += 1
            if pj is None:
                out.append({"what": f"parameter {fid}/{pname} missing from the API JSON", "decl": fid, "finding": None})
            elif pj["assigned_by"] != kind:
                out.append({"what": f"parameter {fid}/{pname}: assigned_by {pj['assigned_by']}, expected {kind}", "decl": fid, "finding": None})
        if not t["public"] or case.job.get("tsp") == "docstring":
            continue
        owner, name = expected_location(t)
        hits = idx.get((owner, name, STUB_KIND[t["kind"]]), [])
        if len(hits) != 1:
            continue
        d = hits[0][1]
        sp = d.get("params")
        if sp is None:
            continue
        if [p["pyname"] for p in sp] != [p.name for p in obj.params]:
            out.append({"what": f"parameter names of {fid}: stub {[p['pyname'] for p in sp]}, source {[p.name for p in obj.params]}",
                        "decl": fid, "finding": None})
            continue
        for p, s in zip(obj.params, sp, strict=True):
            n += 1
            if p.default is not None and p.default_is_literal:
                if s["type"] is None:
                    continue   # an untyped parameter is rendered without its default (noted in DESIGN)
                if s["default"] != _default_repr(p):
                    out.append({"what": f"default of {fid}/{p.name}: stub {s['default']!r}, source {p.default}", "decl": fid, "finding": None})
            elif p.default is None and s["default"] is not None:
                out.append({"what": f"parameter {fid}/{p.name} has no default in the source but {s['default']!r} in the stub",
                            "decl": fid, "finding": None})
    return out, n


# ---------------------------------------------------------------------------------------------------------
def _lit_type_name(v):
    if isinstance(v, bool):
        return "Boolean"
    if isinstance(v, int):
        return "Int"
    if isinstance(v, float):
        return "Float"
    if isinstance(v, str):
        return "String"
    return "Nothing?"


def _covers(sty, lit_name: str) -> bool:
    n = _stub_norm(sty)
    if n is None:
        return False
    members = n[1] if n[0] == "union" else [n]
    return ("named", lit_name) in members


def c07(case: Case):
    out = []
    n = 0
    if case.answer.get("exc") or case.job.get("tsp") == "docstring" or case.pkg.style != "plaintext":
        return out, n
    idx, errors = index_stubs(impl_files(case))
    if errors:
        return out, n
    for t in truth_decls(case.pkg):
        if t["kind"] not in ("function", "method") or not t["public"]:
            continue
        f = t["obj"]
        owner, name = expected_location(t)
        hits = idx.get((owner, name, "fun"), [])
        if len(hits) != 1:
            continue
        d = hits[0][1]
        rs = d["results"]
        qn = f"{t['owner']}.{t['name']}"
        n += 1
        if f.ret_none:
            if rs:
                out.append({"what": f"{qn} is annotated -> None but has results {rs}", "decl": qn, "finding": None})
        elif f.ret is not None:
            want = len(f.ret.args) if f.ret.kind == "tuple" else 1
            if len(rs) != want:
                out.append({"what": f"{qn}: {len(rs)} results for annotation {f.ret.src()}", "decl": qn, "finding": None})
            elif [r["name"] for r in rs] != [f"result{i + 1}" if case.job.get("nc") else f"result_{i + 1}" for i in range(want)]:
                out.append({"what": f"{qn}: result names {[r['name'] for r in rs]}", "decl": qn, "finding": None})
        elif f.inferred is not None:
            if not f.inferred:
                if rs:
                    out.append({"what": f"{qn} has neither annotation nor return statements but results {rs}", "decl": qn, "finding": None})
            else:
                # every literal at every tuple position is covered by the result at that position
                if any(v == (None,) for v in f.inferred) and len({len(v) for v in f.inferred}) == 1 and all(len(v) == 1 for v in f.inferred) \
                        and all(v == (None,) for v in f.inferred):
                    continue   # only `return None`: rendered without results
                for tup in f.inferred:
                    for i, v in enumerate(tup):
                        if i >= len(rs) or not _covers(rs[i]["type"], _lit_type_name(v)):
                            out.append({"what": f"{qn}: returned value {v!r} at position {i} is not covered by the results "
                                                f"{[sdsparse.type_str(r['type']) for r in rs]}", "decl": qn,
                                        "finding": "none_result_suppresses_list" if not rs and any(
                                            y is None for x in f.inferred for y in x) else (
                                            "tuple_returns_equal_up_to_order" if _permuted_tuples(f.inferred) else None)})
                            break
    return out, n


def c07_names(case: Case):
    """results take the names the docstring gives them and are otherwise named result_1, result_2, ... in order
    (numpydoc lists one entry per result; decided only when there are as many entries as results)"""
    out = []
    n = 0
    if case.answer.get("exc") or case.pkg.style != "numpydoc" or case.job.get("nc"):
        return out, n
    idx, errors = index_stubs(impl_files(case))
    if errors:
        return out, n
    for t in truth_decls(case.pkg):
        if t["kind"] not in ("function", "method") or not t["public"]:
            continue
        f = t["obj"]
        if f.ret is None or f.deco == "prop":
            continue
        owner, name = expected_location(t)
        hits = idx.get((owner, name, "fun"), [])
        if len(hits) != 1:
            continue
        rs = hits[0][1]["results"]
        want_n = len(f.ret.args) if f.ret.kind == "tuple" else 1
        docs = list(f.result_docs or [])
        if len(rs) != want_n or len(docs) != want_n:
            continue
        n += 1
        k = 0
        want = []
        for dn, _t, _d in docs:
            if dn:
                want.append(dn)
            else:
                k += 1
                want.append(f"result_{k}")
        got = [r["pyname"] if "pyname" in r else r["name"] for r in rs]
        if got != want:
            out.append({"what": f"{t['owner']}.{t['name']}: result names {got}, the docstring and the numbering rule give {want}",
                        "decl": f"{t['owner']}.{t['name']}", "finding": None})
    return out, n


# ---------------------------------------------------------------------------------------------------------
TODO = {
    "param": "// TODO Some parameter have no type information.",
    "result": "// TODO Result type information missing.",
    "attr": "// TODO Attribute has no type information.",
    "tuple": "// TODO Safe-DS does not support tuple types.",
    "set": "// TODO Safe-DS does not support set types.",
    "list_many": "// TODO List type has to many type arguments.",
    "set_many": "// TODO Set type has to many type arguments.",
    "variadic": "// TODO Safe-DS does not support variadic parameters.",
    "classmethod": "// TODO Safe-DS does not support class methods.",
    "opt_pos_only": "// TODO Safe-DS does not support optional but position only parameter assignments.",
    "req_name_only": "// TODO Safe-DS does not support required but name only parameter assignments.",
    "multi_inherit": "// TODO Safe-DS does not support multiple inheritance.",
    "unknown_value": "// TODO Unknown value - Value could not be parsed.",
}
SPEC_TODOS = set(TODO.values())


def _type_features(t, acc: set, top=True):
    """features of an API type dictionary as the statement lists them"""
    if t is None:
        return
    k = t["kind"]
    if k == "TupleType":
        acc.add("tuple")
    if k == "SetType":
        acc.add("set")
        if len(t["types"]) >= 2:
            acc.add("set_many")
    if k == "ListType" and len(t["types"]) >= 2:
        acc.add("list_many")
    for key in ("types", "parameter_types"):
        for x in t.get(key, []) or []:
            _type_features(x, acc, False)
    for key in ("key_type", "value_type", "return_type", "type"):
        if isinstance(t.get(key), dict):
            sub = t[key]
            if key == "return_type" and sub["kind"] == "TupleType":
                # a callable returning a tuple is rendered with several results, not with a tuple type
                for x in sub["types"]:
                    _type_features(x, acc, False)
            else:
                _type_features(sub, acc, False)


def _union_short_circuits(t) -> bool:
    """types whose rendering takes the 'literal + named' shortcut do not render their members (recorded finding A15)"""
    if t is None:
        return False
    if t["kind"] == "UnionType":
        kinds = [x["kind"] for x in t["types"]]
        if "LiteralType" in kinds:
            return True
    return any(_union_short_circuits(x) for key in ("types", "parameter_types") for x in (t.get(key) or [])) or any(
        _union_short_circuits(t[key]) for key in ("key_type", "value_type", "return_type", "type") if isinstance(t.get(key), dict))


def c20(case: Case):
    """markers in front of each function / method / attribute / class vs. the features of its API element"""
    out = []
    n = 0
    if case.answer.get("exc"):
        return out, n
    idx, errors = index_stubs(impl_files(case))
    if errors:
        return out, n
    api = case.answer["api"]
    params = {p["id"]: p for p in api["parameters"]}
    results = {r["id"]: r for r in api["results"]}
    funcs = {f["id"]: f for f in api["functions"]}
    attrs = {a["id"]: a for a in api["attributes"]}
    classes = {c["id"]: c for c in api["classes"]}
    for t in truth_decls(case.pkg):
        if not t["public"] or t["kind"] in ("enum",):
            continue
        jid = (t["owner"] + "." + t["name"]).replace(".", "/")
        owner, name = expected_location(t)
        hits = idx.get((owner, name, STUB_KIND[t["kind"]]), [])
        if len(hits) != 1:
            continue
        d = hits[0][1]
        exp: set[str] = set()
        skip = False
        if t["kind"] in ("function", "method"):
            fj = funcs.get(jid)
            if fj is None:
                continue
            is_method = t["kind"] == "method"
            plist = [params[i] for i in fj["parameters"]]
            if is_method and not fj["is_static"]:
                plist = plist[1:]
            for p in plist:
                if p["type"] is None:
                    exp.add("param")
                else:
                    ty = dict(p["type"])
                    if p["assigned_by"] == "POSITIONAL_VARARG" and ty["kind"] == "TupleType":
                        ty = {**ty, "kind": "ListType"}
                    _type_features(ty, exp)
                    skip = skip or _union_short_circuits(ty)
                    if p["is_optional"] and p["default_value"] == "UnknownValue":
                        exp.add("unknown_value")
                if p["assigned_by"] in ("POSITIONAL_VARARG", "NAMED_VARARG"):
                    exp.add("variadic")
                if p["assigned_by"] == "POSITION_ONLY" and p["default_value"] is not None:
                    exp.add("opt_pos_only")
                if p["assigned_by"] == "NAME_ONLY" and not p["is_optional"]:
                    exp.add("req_name_only")
            if fj["is_class_method"]:
                exp.add("classmethod")
            rl = [results[i] for i in fj["results"]]
            none_result = any(r["type"] and r["type"]["kind"] == "NamedType" and r["type"]["qname"] == "builtins.None" for r in rl)
            if not none_result:
                typed = [r for r in rl if r["type"] is not None]
                if not typed:
                    exp.add("result")
                for r in typed:
                    _type_features(r["type"], exp)
                    skip = skip or _union_short_circuits(r["type"])
        elif t["kind"] == "attr":
            aj = attrs.get(jid)
            if aj is None:
                continue
            if aj["type"] is None:
                exp.add("attr")
            else:
                _type_features(aj["type"], exp)
                skip = skip or _union_short_circuits(aj["type"])
        elif t["kind"] == "property":
            continue   # A29: recorded separately
        elif t["kind"] == "class":
            cj = classes.get(jid)
            if cj is None:
                continue
            pubsupers = [s for s in cj["superclasses"] if not s.split(".")[-1].startswith("_")]
            if len(pubsupers) >= 2 and "abc.ABC" not in cj["superclasses"]:
                exp.add("multi_inherit")
            if cj["constructor"] is not None and "abc.ABC" not in cj["superclasses"]:
                plist = [params[i] for i in cj["constructor"]["parameters"]][1:]
                for p in plist:
                    if p["type"] is None:
                        exp.add("param")
                    else:
                        ty = dict(p["type"])
                        if p["assigned_by"] == "POSITIONAL_VARARG" and ty["kind"] == "TupleType":
                            ty = {**ty, "kind": "ListType"}
                        _type_features(ty, exp)
                        skip = skip or _union_short_circuits(ty)
                        if p["is_optional"] and p["default_value"] == "UnknownValue":
                            exp.add("unknown_value")
                    if p["assigned_by"] in ("POSITIONAL_VARARG", "NAMED_VARARG"):
                        exp.add("variadic")
                    if p["assigned_by"] == "POSITION_ONLY" and p["default_value"] is not None:
                        exp.add("opt_pos_only")
                    if p["assigned_by"] == "NAME_ONLY" and not p["is_optional"]:
                        exp.add("req_name_only")
            for tp in cj["type_parameters"]:
                if tp["type"] is not None:
                    _type_features(tp["type"], exp)
        if skip:
            continue
        n += 1
        got = {x for x in d["todos"] if x in SPEC_TODOS}
        want = {TODO[k] for k in exp}
        if got != want:
            out.append({"what": f"markers of {jid}: missing {sorted(want - got)}, unexpected {sorted(got - want)}", "decl": jid, "finding": None})
    return out, n


# ---------------------------------------------------------------------------------------------------------
def c12(case: Case):
    """internal consistency of the API JSON + completeness w.r.t. the package description"""
    out = []
    if case.answer.get("exc"):
        return out, 0
    text = case.answer.get("json_text")
    try:
        api = json.loads(text, parse_constant=lambda c: (_ for _ in ()).throw(ValueError(c)))
    except Exception as e:  # noqa: BLE001
        return [{"what": f"API file is not valid JSON: {e}", "decl": "", "finding": None}], 1
    if api.get("schemaVersion") != 1:
        out.append({"what": f"schemaVersion {api.get('schemaVersion')}", "decl": "", "finding": None})
    lists = ["modules", "classes", "functions", "results", "enums", "enum_instances", "attributes", "parameters"]
    ids = {}
    for k in lists:
        l = [x["id"] for x in api[k]]
        if l != sorted(l):
            out.append({"what": f"list {k} is not sorted by id", "decl": k, "finding": None})
        if len(set(l)) != len(l):
            out.append({"what": f"list {k} has duplicate ids", "decl": k, "finding": None})
        ids[k] = set(l)
    owners: dict[str, int] = {}
    def ref(kind, i, owner):
        if i not in ids[kind]:
            out.append({"what": f"{owner} references unknown {kind} id {i}", "decl": owner, "finding": None})
        owners[(kind, i)] = owners.get((kind, i), 0) + 1
        if i.rsplit("/", 1)[0] != owner:
            out.append({"what": f"id {i} is not of the form <owner id>/<name> for owner {owner}", "decl": owner, "finding": None})
    for m in api["modules"]:
        for i in m["classes"]:
            ref("classes", i, m["id"])
        for i in m["functions"]:
            ref("functions", i, m["id"])
        for i in m["enums"]:
            ref("enums", i, m["id"])
    ctor_ids = set()
    for c in api["classes"]:
        for i in c["attributes"]:
            ref("attributes", i, c["id"])
        for i in c["methods"]:
            ref("functions", i, c["id"])
        for i in c["classes"]:
            ref("classes", i, c["id"])
        if c["constructor"] is not None:
            ctor_ids.add(c["constructor"]["id"])
            owners[("functions", c["constructor"]["id"])] = owners.get(("functions", c["constructor"]["id"]), 0) + 1
    for f in api["functions"]:
        for i in f["parameters"]:
            ref("parameters", i, f["id"])
        for i in f["results"]:
            ref("results", i, f["id"])
    for e in api["enums"]:
        for i in e["instances"]:
            ref("enum_instances", i, e["id"])
    for k in lists[1:]:
        for i in ids[k]:
            if owners.get((k, i), 0) != 1:
                out.append({"what": f"{k} entry {i} is referenced by {owners.get((k, i), 0)} owners", "decl": i, "finding": None})
    # completeness (private ones included)
    fn = {f["id"]: f for f in api["functions"]}
    cl = {c["id"]: c for c in api["classes"]}
    n = 0
    for t in truth_decls(case.pkg):
        jid = (t["owner"] + "." + t["name"]).replace(".", "/")
        n += 1
        if t["kind"] in ("function", "method", "property"):
            fj = fn.get(jid)
            if fj is None:
                out.append({"what": f"function {jid} missing from the inventory", "decl": jid, "finding": None})
                continue
            f = t["obj"]
            if (fj["is_static"], fj["is_class_method"], fj["is_property"]) != (f.deco == "static", f.deco == "classm", f.deco == "prop"):
                out.append({"what": f"flags of {jid}: static/classmethod/property = {fj['is_static'], fj['is_class_method'], fj['is_property']}",
                            "decl": jid, "finding": None})
        elif t["kind"] == "class":
            cj = cl.get(jid)
            if cj is None:
                out.append({"what": f"class {jid} missing from the inventory", "decl": jid, "finding": None})
                continue
            want = [f"{mod}.{nm}" for nm, mod, _ in t["obj"].base_refs]
            if cj["superclasses"] != want:
                out.append({"what": f"superclasses of {jid}: {cj['superclasses']}, source {want}", "decl": jid, "finding": None})
        elif t["kind"] == "attr":
            if jid not in ids["attributes"]:
                out.append({"what": f"attribute {jid} missing from the inventory", "decl": jid, "finding": None})
        elif t["kind"] == "enum":
            if jid not in ids["enums"]:
                out.append({"what": f"enum {jid} missing from the inventory", "decl": jid, "finding": None})
            for mname in t["obj"].members:
                if f"{jid}/{mname}" not in ids["enum_instances"]:
                    out.append({"what": f"enum member {jid}/{mname} missing", "decl": jid, "finding": None})
    return out, n


# ---------------------------------------------------------------------------------------------------------
def c02(case: Case):
    """every stub file parses as a Safe-DS stub module (strict reading: keywords only back-quoted, closed strings/comments)"""
    out = []
    n = 0
    if case.answer.get("exc"):
        return out, n
    for path, text in impl_files(case).items():
        n += 1
        mod, err = sdsparse.parse(text, strict=True)
        if err:
            out.append({"what": f"{path} is not a valid stub file: {err}", "decl": path, "text": text[:1500],
                        "finding": "non_ascii_identifier" if "non-ASCII identifier" in str(err) else None})
    return out, n


BUILTIN_SDS = {"Int", "String", "Boolean", "Float", "Nothing", "List", "Map", "Set", "Tuple", "Any"}


def _type_names(t, acc: set):
    if t is None:
        return
    k = t[0]
    if k == "named":
        acc.add(t[1])
        for a in t[2] or []:
            _type_names(a, acc)
    elif k == "nullable":
        _type_names(t[1], acc)
    elif k == "union":
        for a in t[1]:
            _type_names(a, acc)
    elif k == "callable":
        for p in t[1]:
            _type_names(p["type"], acc)
        for r in t[2]:
            _type_names(r["type"], acc)


def c10(case: Case):
    out = []
    n = 0
    if case.answer.get("exc"):
        return out, n
    files = case.answer.get("stubs", {})
    pkgname = case.job["src"].rstrip("/").split("/")[-1]
    if f"{pkgname}__api.json" not in files:
        out.append({"what": f"{pkgname}__api.json is missing from the output directory", "decl": "", "finding": None})
    for path, (mod, err) in parsed_files(impl_files(case)).items():
        n += 1
        segs = path.split("/")
        if ".." in segs or path.startswith("/"):
            out.append({"what": f"{path} is not inside the output directory", "decl": path, "finding": None})
        if mod is None:
            continue
        if segs[:-1] != mod["python_module"].split("."):
            out.append({"what": f"{path}: directory does not spell the announced module path {mod['python_module']}", "decl": path, "finding": None})
        base = segs[-1][: -len(".sdsstub")]
        names = {segs[-2].lstrip("_")} if len(segs) >= 2 else set()
        names |= {d["pyname"].lstrip("_") for d in mod["decls"]}
        if base.startswith("_") or base not in names:
            out.append({"what": f"{path}: base name is neither its module nor a declaration it contains (without leading underscores)",
                        "decl": path, "finding": None})
    return out, n


def c11(case: Case):
    out = []
    n = 0
    if case.answer.get("exc"):
        return out, n
    parsed = parsed_files(impl_files(case))
    declared_in_pkg: dict[str, set] = {}
    for path, (mod, err) in parsed.items():
        if mod is not None:
            declared_in_pkg.setdefault(mod["package"], set()).update(d["name"] for d in mod["decls"])
    for path, (mod, err) in parsed.items():
        if mod is None:
            continue
        n += 1
        imported = {name for _, name in mod["imports"]}
        for frm, name in mod["imports"]:
            if name not in declared_in_pkg.get(frm, set()):
                finding = None
                if case.job.get("nc") and name.lower() in {x.lower() for x in declared_in_pkg.get(frm, set())}:
                    finding = "nc_class_reference_not_converted"   # imported in lowerCamelCase, declared in UpperCamelCase
                elif _reexported_not_above(case, frm, name):
                    finding = "reexport_by_package_not_above"
                out.append({"what": f"{path}: import of {name} from {frm} does not resolve to a generated stub", "decl": path, "finding": finding})
        for owner, d in sdsparse.walk_decls(mod):
            local = {x["name"] for x in mod["decls"]}
            refs: set = set()
            tps = {t["name"] for t in d.get("tparams", [])}
            if d["kind"] in ("fun", "class"):
                for p in d.get("params") or []:
                    _type_names(p["type"], refs)
                for r in d.get("results", []):
                    _type_names(r["type"], refs)
                for s_ in d.get("supers", []):
                    _type_names(s_, refs)
            if d["kind"] == "attr":
                _type_names(d["type"], refs)
            for r in refs:
                head = r.split(".")[0]
                if head in BUILTIN_SDS or head in local or head in imported or head in tps:
                    continue
                # type parameters of enclosing classes and nested class names
                encl = _enclosing_names(mod, owner)
                if head in encl:
                    continue
                finding = None
                if head.startswith("_"):
                    finding = "private_class_as_type"
                elif case.job.get("nc") and head in ({x["pyname"] for x in mod["decls"]} | {nm for _, nm in _py_imports(case, mod)}):
                    finding = "nc_class_reference_not_converted"
                elif any(head in m_.typevars for m_ in case.pkg.modules):
                    finding = "stale_class_generics"
                out.append({"what": f"{path}: {head} used in {d['pyname']} is neither built in, declared nor imported", "decl": path,
                            "finding": finding})
    return out, n


def _reexported_not_above(case: Case, frm: str, name: str) -> bool:
    """the import names the shallowest package whose __init__ re-exports the class, and that package is not above the
    class's module: the tool leaves the class in its module's stub but imports it from the package"""
    def loose(x: str) -> str:
        return x.replace("_", "").lower()
    for m in case.pkg.modules:
        for c in m.classes:
            if loose(c.name) != loose(name):
                continue
            by = [i for i in case.pkg.inits if any(m.dotted in ln and c.name in ln for ln in i.lines)]
            if not by:
                continue
            least = min(len(i.dotted.split(".")) for i in by)
            shallowest = [i for i in by if len(i.dotted.split(".")) == least]
            if len(shallowest) == 1 and loose(shallowest[0].dotted) == loose(frm) and least >= len(m.dotted.split(".")):
                return True
    return False


def _enclosing_names(mod, owner: str) -> set:
    names: set = set()
    def rec(d, chain):
        if d["kind"] == "class":
            here = chain + [d["pyname"]]
            names_here = {t["name"] for t in d.get("tparams", [])} | {m["name"] for m in d["members"] if m["kind"] == "class"}
            if ".".join(here).startswith(owner) or owner.startswith(".".join(here)):
                names.update(names_here)
            for m in d["members"]:
                rec(m, here)
    for d in mod["decls"]:
        rec(d, [])
    return names


def c13(case: Case):
    """descriptions reach the comment of their own element and of no other (descriptions carry the element's name)"""
    out = []
    n = 0
    if case.answer.get("exc"):
        return out, n
    idx, errors = index_stubs(impl_files(case))
    if errors:
        return out, n
    for t in truth_decls(case.pkg):
        obj = t["obj"]
        doc = getattr(obj, "doc", "")
        if not t["public"] or not doc or t["kind"] == "attr":
            continue
        owner, name = expected_location(t)
        hits = idx.get((owner, name, STUB_KIND[t["kind"]]), [])
        if len(hits) != 1:
            continue
        d = hits[0][1]
        n += 1
        lines = [ln for dt in d["doc"] for ln in sdsparse.doc_lines(dt)]
        want = [ln.strip() for ln in doc.strip("\n").split("\n")]
        got = [ln.strip() for ln in lines[: len(want)]]
        if got != want:
            out.append({"what": f"description of {t['owner']}.{t['name']} is not reproduced line for line: {lines[:4]} vs {want[:4]}",
                        "decl": f"{t['owner']}.{t['name']}", "finding": None})
    # module descriptions: the stub of a module starts with the module's docstring (and nothing else's)
    parsed = parsed_files(impl_files(case))
    for m in case.pkg.modules:
        d_ = m.path[:-3]
        stub = parsed.get(f"{d_}/{d_.split('/')[-1].lstrip('_')}.sdsstub")
        if stub is None or stub[0] is None:
            continue
        n += 1
        got = [ln for dt in stub[0]["doc"] for ln in sdsparse.doc_lines(dt)]
        want = [ln.strip() for ln in m.doc.strip("\n").split("\n")] if m.doc else []
        if [g.strip() for g in got] != want:
            out.append({"what": f"module comment of {m.dotted}: {got[:3]} instead of {want[:3]}", "decl": m.dotted, "finding": None})
    # no comment carries the description of another element
    for (own, name, kind), hits in idx.items():
        if kind == "member":
            continue
        for path, d in hits:
            for dt in d.get("doc", []):
                for ln in sdsparse.doc_lines(dt):
                    if "Init value " in ln and " of " in ln:
                        # a constructor parameter's text (written in the class docstring) belongs to that class's comment
                        mentioned = ln.rsplit(" of ", 1)[1].rstrip(".").strip()
                        if not (kind == "class" and mentioned == name) and not _alias_of(case, mentioned, name):
                            out.append({"what": f"comment of {own}.{name} carries a constructor parameter text of {mentioned}", "decl": f"{own}.{name}", "finding": None})
                    if "re-initialisation of " in ln and name != "re__init__":
                        out.append({"what": f"comment of {own}.{name} carries a parameter text of a re__init__ method", "decl": f"{own}.{name}", "finding": None})
                    if ln.startswith("Doc of "):
                        mentioned = ln[len("Doc of "):].split(".")[0].replace("class ", "").strip()
                        if mentioned != name and not _alias_of(case, mentioned, name):
                            out.append({"what": f"comment of {own}.{name} carries the description of {mentioned}", "decl": f"{own}.{name}", "finding": None})
    return out, n


def _alias_of(case: Case, original: str, alias: str) -> bool:
    return any(r[2] == original and r[3] == alias for i in case.pkg.inits for r in i.reexports)


def c17(case: Case):
    out = []
    n = 0
    if case.answer.get("exc"):
        return out, n
    idx, errors = index_stubs(impl_files(case))
    if errors:
        return out, n
    by_name = {}
    for m in case.pkg.modules:
        for c in m.classes:          # bases refer to module-level classes; nested classes may reuse their names
            by_name[c.name] = c
    for t in truth_decls(case.pkg):
        if t["kind"] != "class" or not t["public"] or not t["obj"].base_refs:
            continue
        c = t["obj"]
        owner, name = expected_location(t)
        hits = idx.get((owner, name, "class"), [])
        if len(hits) != 1:
            continue
        d = hits[0][1]
        n += 1
        pub_supers = [nm for nm, mod, priv in c.base_refs if not priv]
        got_supers = [sdsparse.type_str(s_).split("<")[0] for s_ in d["supers"]]
        if got_supers != pub_supers:
            out.append({"what": f"sub clause of {t['owner']}.{t['name']}: {got_supers}, expected {pub_supers}", "decl": t["name"], "finding": None})
        # expected member functions: own public ones, then those of private ancestors (nearest first) not yet defined
        defined = [f.name for f in c.methods if not is_private_name(f.name)] + [a.name for a in c.attrs if not is_private_name(a.name)]
        expected = [f.name for f in c.methods if not is_private_name(f.name)]
        stack = [by_name[nm] for nm, mod, priv in c.base_refs if priv and nm in by_name]
        while stack:
            anc = stack.pop(0)
            for f in anc.methods:
                if not is_private_name(f.name) and f.name not in defined:
                    expected.append(f.name)
                    defined.append(f.name)
            stack = [by_name[nm] for nm, mod, priv in anc.base_refs if priv and nm in by_name] + stack
        got = [m["pyname"] for m in d["members"] if m["kind"] == "fun" or (m["kind"] == "attr" and m["pyname"] in expected and
               m["pyname"] not in [a.name for a in c.attrs])]
        if sorted(got) != sorted(expected):
            out.append({"what": f"members of {t['owner']}.{t['name']}: {sorted(got)}, expected {sorted(expected)}", "decl": t["name"], "finding": None})
    return out, n


def _py_imports(case: Case, mod) -> list:
    """imports of the stub with their Python spelling (a converted import `from p import FooBar` imports foo_bar)"""
    out = []
    for m in case.pkg.modules:
        for c in _all_classes(m):
            out.append((m.dotted, c.name))
    return out


def _duplicate_union_member(t):
    """a union (at any depth) two of whose members are the same type"""
    if t is None:
        return None
    k = t[0]
    if k == "union":
        seen = []
        for m in t[1]:
            nm = _stub_norm(m)
            if nm in seen:
                return sdsparse.type_str(m)
            seen.append(nm)
        for m in t[1]:
            d = _duplicate_union_member(m)
            if d:
                return d
    elif k == "named":
        for a in t[2] or []:
            d = _duplicate_union_member(a)
            if d:
                return d
    elif k == "nullable":
        return _duplicate_union_member(t[1])
    elif k == "callable":
        for x in [p["type"] for p in t[1]] + [r["type"] for r in t[2]]:
            d = _duplicate_union_member(x)
            if d:
                return d
    return None


# ---------------------------------------------------------------------------------------------------------
# output-only predicates (usable on any set of stub files, e.g. those generated from API objects)
def files_c02(files: dict) -> list:
    out = []
    for path, text in files.items():
        if not path.endswith(".sdsstub"):
            continue
        mod, err = sdsparse.parse(text, strict=True)
        if err:
            out.append({"what": f"{path} is not a valid stub file: {err}", "decl": path, "finding": None, "text": text[:1200]})
    return out


def writes_c10(writes) -> list:
    """two different stub texts are never written to the same path: a path opened for (over)writing twice in one run, with
    different texts, has lost the first one"""
    out = []
    first: dict = {}
    for rel, mode, text in writes or []:
        if "w" in mode:
            if rel in first and first[rel] != text:
                out.append({"what": f"{rel} is written twice in one run with different texts (the first text is lost)", "decl": rel,
                            "finding": None})
            first[rel] = text
        elif "a" in mode and rel in first:
            first[rel] = first[rel] + text
    return out


def files_c10(files: dict, module_names=None) -> list:
    """module_names: names (and aliases) under which modules of the package may be re-exported as a whole"""
    out = []
    extra = {m.lstrip("_") for m in (module_names or [])}
    for path, text in files.items():
        if not path.endswith(".sdsstub"):
            continue
        mod, err = sdsparse.parse(text)
        segs = path.split("/")
        if ".." in segs or path.startswith("/"):
            out.append({"what": f"{path} is not inside the output directory", "decl": path, "finding": None})
        if mod is None:
            continue
        if segs[:-1] != mod["python_module"].split("."):
            out.append({"what": f"{path}: directory does not spell the announced module path {mod['python_module']}", "decl": path, "finding": None})
        base = segs[-1][: -len(".sdsstub")]
        names = ({segs[-2].lstrip("_")} if len(segs) >= 2 else set()) | {d["pyname"].lstrip("_") for d in mod["decls"]}
        if base.startswith("_") or (mod["decls"] and base not in names | extra):
            out.append({"what": f"{path}: base name is neither its module nor a declaration it contains (without leading underscores)",
                        "decl": path, "finding": None})
    return out


def _name_records(files: dict):
    """(path, owner, kind, python name, rendered name, annotated?) for every named thing in the stubs"""
    recs = []
    for path, (mod, err) in sorted(parsed_files(files).items()):
        if mod is None:
            continue
        recs.append((path, "", "package", mod["python_module"], mod["package"], "PythonModule" in mod["file_annotations"]))
        for owner, d in sdsparse.walk_decls(mod):
            recs.append((path, owner, d["kind"], d["pyname"], d["name"], "PythonName" in d["annotations"]))
            for p in d.get("params") or []:
                recs.append((path, owner + "." + d["pyname"], "param", p["pyname"], p["name"], p["pyname"] != p["name"]))
            if d["kind"] == "enum":
                for m in d["members"]:
                    recs.append((path, owner + "." + d["pyname"], "member", m["pyname"], m["name"], m["pyname"] != m["name"]))
    return recs


def names_relation(files_off: dict, files_on: dict) -> list:
    """C09: verbatim names without conversion; with it, annotation iff renamed, no underscores, same letters; the Python names
    recoverable from both outputs coincide"""
    out = []
    off, on = _name_records(files_off), _name_records(files_on)
    for path, owner, kind, py, name, ann in off:
        if name != py or ann:
            out.append({"what": f"{path}: {kind} {owner}.{py} is not emitted verbatim without naming conversion ({name})", "decl": py, "finding": None})
    key = lambda r: (r[0], r[1], r[2], r[3])  # noqa: E731
    if sorted(map(key, off)) != sorted(map(key, on)):
        only_off = sorted(set(map(key, off)) - set(map(key, on)))[:3]
        only_on = sorted(set(map(key, on)) - set(map(key, off)))[:3]
        out.append({"what": f"the Python names recoverable from the stubs differ between the two settings: only without conversion {only_off}, "
                            f"only with conversion {only_on}", "decl": "", "finding": None})
    for path, owner, kind, py, name, ann in on:
        if kind == "package":
            segs_py, segs = py.split("."), name.split(".")
            ok = len(segs_py) == len(segs) and all("_" not in b or b == "_" for b in segs)
            if (py != name) != ann:
                out.append({"what": f"{path}: @PythonModule present={ann} although package {name} vs module {py}", "decl": py, "finding": None})
            continue
        if kind == "enum":
            if "_" in name.strip("_"):
                out.append({"what": f"{path}: enum name {name} is not converted", "decl": py, "finding": "enum_name_not_converted"})
            continue
        if (py != name) != ann:
            out.append({"what": f"{path}: {kind} {owner}.{py}: annotation present={ann} but rendered name is {name}", "decl": py, "finding": None})
        kept = py == "_" or not py.strip("_") or py.strip("_")[0].isdigit()    # no identifier would be left: the name stays
        if kept and name != py:
            out.append({"what": f"{path}: {kind} {py} cannot be converted to an identifier but is rendered as {name}", "decl": py, "finding": None})
        if not kept and ("_" in name or name.lower() != py.replace("_", "").lower()):
            out.append({"what": f"{path}: {kind} {py} is rendered as {name}", "decl": py, "finding": None})
        if kind == "class" and name[:1].islower():
            out.append({"what": f"{path}: class {py} is rendered as {name} (not UpperCamelCase)", "decl": py, "finding": None})
    return out


def _permuted_tuples(inferred) -> bool:
    """two returned tuples with the same multiset of element types in a different order"""
    tys = [tuple(_lit_type_name(v) for v in t) for t in inferred if len(t) > 1]
    return any(a != b and sorted(a) == sorted(b) for a in tys for b in tys)


def files_c11_imports(files: dict, nc: bool = False) -> list:
    """every import names a package and a declaration that exist in the generated stub set (placeholders included)"""
    out = []
    parsed = parsed_files({k: v for k, v in files.items() if k.endswith(".sdsstub")})
    declared: dict[str, set] = {}
    for path, (mod, err) in parsed.items():
        if mod is not None:
            declared.setdefault(mod["package"], set()).update(d["name"] for d in mod["decls"])
    for path, (mod, err) in parsed.items():
        if mod is None:
            continue
        for frm, name in mod["imports"]:
            if name not in declared.get(frm, set()):
                finding = None
                if nc and name.lower() in {x.lower() for x in declared.get(frm, set())}:
                    finding = "nc_class_reference_not_converted"
                out.append({"what": f"{path}: import of {name} from {frm} does not resolve to a generated stub", "decl": path, "finding": finding})
    return out


# ---------------------------------------------------------------------------------------------------------------------------
# L1: the API object is the ground truth
def l1_api(it: dict):
    """the API object of an L1 item, regenerated from its seed (or shape name)"""
    import random as _r
    import gen_api
    seed = it["api_seed"]
    if isinstance(seed, str) and seed.startswith("shape:"):
        return next(f for f in gen_api.SHAPES if f.__name__ == seed[6:])()
    return gen_api.gen_api(_r.Random(seed), it["api_idx"]) if "api_idx" in it else None


def l1_c03(it: dict) -> list:
    """module-level inventory: every public class, public function and enum of the API object is declared exactly once
    (by kind and Python name) in the stub set of the package, and nothing else is declared at the top level"""
    from collections import Counter
    api = l1_api(it)
    if api is None:
        return []
    want: Counter = Counter()
    aliased: Counter = Counter()      # declarations that some package re-exports under another name: the stub may use that name

    def is_aliased(t) -> bool:
        return any(q.alias and q.qualified_name.split(".")[-1].endswith(t.name) for r in t.reexported_by for q in r.qualified_imports)
    for m in api.modules.values():
        for c in m.classes:
            if c.is_public:
                (aliased if is_aliased(c) else want)[("class", c.name)] += 1
        for f in m.global_functions:
            if f.is_public:
                (aliased if is_aliased(f) else want)[("fun", f.name)] += 1
        for e in m.enums:
            want[("enum", e.name)] += 1
    have: Counter = Counter()
    root = api.package
    for path, (mod, err) in parsed_files({k: v for k, v in it["impl"]["stubs"].items() if k.endswith(".sdsstub")}).items():
        if mod is None or not (mod["python_module"] == root or mod["python_module"].startswith(root + ".")):
            continue
        for d in mod["decls"]:
            if d["kind"] in ("class", "fun", "enum"):
                have[(d["kind"], d["pyname"])] += 1
    out = []
    extra = 0
    for k in sorted(set(want) | set(have) | set(aliased)):
        if k in aliased:
            # under its own name or under the alias: counted below
            extra += want[k] + aliased[k] - have[k]
            continue
        if want[k] > have[k]:
            out.append({"what": f"API object declares {want[k]} public {k[0]} named {k[1]} at module level, the stubs declare {have[k]}",
                        "decl": k[1], "finding": None})
        elif want[k] < have[k]:
            extra -= have[k] - want[k]
    if extra != 0 and not out:
        out.append({"what": f"the stubs declare {-extra if extra < 0 else extra} module-level declaration(s) {'more' if extra < 0 else 'fewer'} than the API object has public ones (aliases counted)",
                    "decl": api.package, "finding": None})
    return out


def l1_c11(it: dict) -> list:
    """every class name used as a type or superclass in a stub file is built in, declared in that file, imported in it, a type
    parameter or an enclosing/nested class name; private names and the names of the generator's type variables are left to
    the recorded findings (private_class_as_type, stale_class_generics)"""
    out = []
    if not str(it["api_seed"]).startswith("shape:"):
        return out      # the random API objects refer to classes that exist nowhere: only the hand-made shapes are closed
    files = {k: v for k, v in it["impl"]["stubs"].items() if k.endswith(".sdsstub")}
    for path, (mod, err) in parsed_files(files).items():
        if mod is None:
            continue
        imported = {name for _, name in mod["imports"]}
        local = {x["name"] for x in mod["decls"]} | {x["pyname"] for x in mod["decls"]}
        for owner, d in sdsparse.walk_decls(mod):
            refs: set = set()
            tps = {t["name"] for t in d.get("tparams", [])}
            if d["kind"] in ("fun", "class"):
                for p in d.get("params") or []:
                    _type_names(p["type"], refs)
                for r in d.get("results", []):
                    _type_names(r["type"], refs)
                for s_ in d.get("supers", []):
                    _type_names(s_, refs)
            if d["kind"] == "attr":
                _type_names(d["type"], refs)
            for r in refs:
                head = r.split(".")[0]
                if head in BUILTIN_SDS or head in local or head in imported or head in tps or head in _enclosing_names(mod, owner):
                    continue
                if head.startswith("_") or head in ("T", "T_co", "in_", "`in`", "TCo", "In", "`in_`"):
                    continue
                out.append({"what": f"{path}: {head} used in {d['pyname']} is neither built in, declared nor imported", "decl": path, "finding": None})
    return out
