(* One entry point for the correspondence harness: run_line parses a case, runs the model, prints the answer. *)
From Coq Require Import List Ascii String Bool Arith ZArith.
From SV Require Import Lib.Str Lib.Sexp Model.Types Model.Naming Model.Discover Model.Api Model.Back Model.Layout Model.FrontSmall Model.Doc Spec.Sds Model.View Model.Front Driver.Codec Driver.ApiCodec Driver.ViewCodec.
Import ListNotations.

Definition bad : sexp := L [T"bad-case"].

Definition run_types_roundtrip (t : ty) : sexp :=
  let d := to_dict t in
  L [sx_of_jv d;
     match from_dict (S (depth t)) d with
     | Ok t' => L [T"ok"; sx_of_jv (to_dict t'); of_bool (py_eq t t'); of_bool (py_eq t' t)]
     | Err e => L [T"err"; sx_of_err e]
     end;
     of_bool (py_eq t t)].

Definition run_types_pair (a b : ty) : sexp :=
  L [of_bool (py_eq a b); of_bool (py_eq b a); of_bool (hk_eqb (hkey a) (hkey b))].

Fixpoint gnode_of_sx_f (fuel : nat) (x : sexp) : option gnode :=
  match fuel with O => None | S fu =>
  match x with
  | L [A n; A k; d; L ms] =>
    let kind := if tag_is "module" k then Some GModule else if tag_is "class" k then Some GClass
                else if tag_is "function" k then Some GFunction else if tag_is "attribute" k then Some GAttribute else None in
    match kind, sx_opt sx_str d, sx_list (gnode_of_sx_f fu) ms with
    | Some k', Some d', Some ms' => Some (GNode n k' d' ms')
    | _, _, _ => None
    end
  | _ => None
  end end.

Definition run_case (x : sexp) : sexp :=
  match x with
  | L (A cmd :: args) =>
    if tag_is "types_roundtrip" cmd then
      match args with [t] => match ty_of_sx t with Some t' => run_types_roundtrip t' | None => bad end | _ => bad end
    else if tag_is "types_pair" cmd then
      match args with
      | [a; b] => match ty_of_sx a, ty_of_sx b with Some a', Some b' => run_types_pair a' b' | _, _ => bad end
      | _ => bad end
    else if tag_is "convert" cmd then
      match args with
      | [nc; c; A n] => match sx_bool nc, sx_bool c with
                        | Some nc', Some c' => L [A (convert nc' c' n); A (escape (convert nc' c' n)); of_bool (is_internal n)]
                        | _, _ => bad end
      | _ => bad end
    else if tag_is "discover" cmd then
      match args with
      | [tr; L files] =>
        match sx_bool tr, sx_list sx_str files with
        | Some tr', Some fs =>
          match get_api_files tr' fs with
          | NoFiles => L [T"nofiles"]
          | Files w p => L [T"files"; of_list A w; of_list A p]
          end
        | _, _ => bad end
      | _ => bad end
    else if tag_is "order_asts" cmd then
      match args with
      | [L g; L w; L p] =>
        match sx_list sx_str g, sx_list sx_str w, sx_list sx_str p with
        | Some g', Some w', Some p' => of_list A (order_asts g' w' p')
        | _, _, _ => bad end
      | _ => bad end
    else if tag_is "back" cmd then
      match args with
      | [nc; ax; L fs0] =>
        match sx_bool nc, api_of_sx ax, sx_list (fun y => match y with L [A p; A c] => Some (p, c) | _ => None end) fs0 with
        | Some nc', Some a, Some fs => sx_of_back (back_run a nc' fs)
        | _, _, _ => bad end
      | _ => bad end
    else if tag_is "front" cmd then
      match args with [v] => run_front v | _ => bad end
    else if tag_is "run" cmd then
      match args with [nc; v] => run_pipeline nc v | _ => bad end
    else if tag_is "doc_sections" cmd then run_doc_sections args
    else if tag_is "doc_type" cmd then
      match args with [n; e] => run_doc_type n e | _ => bad end
    else if tag_is "type_string" cmd then
      match args with
      | [nc; ax; t] =>
        match sx_bool nc, api_of_sx ax, ty_of_sx t with
        | Some nc', Some a, Some t' =>
          match type_string (api_classes a) (api_reexport_map a) nc' t' init_gst with
          | Ok (s, st) => L [T"ok"; A s; of_list A (g_todos st); of_list A (g_imports st); of_list A (g_outside st)]
          | Err e => L [T"err"; sx_of_err e]
          end
        | _, _, _ => bad end
      | _ => bad end
    else if tag_is "reconcile" cmd then
      match args with
      | [pd; w; A fid; L ps; L rs; L rds] =>
        match sx_bool pd, sx_bool w, sx_list param_of_sx ps, sx_list result_of_sx rs, sx_list rdoc_of_sx rds with
        | Some pd', Some w', Some ps', Some rs', Some rds' =>
          let pr := map (reconcile_param pd' w') ps' in
          let rr := reconcile_results pd' w' fid rs' rds' in
          L [of_list (fun x : param * bool =>
                        L [of_opt (fun t => sx_of_jv (to_dict t)) (p_type (fst x)); of_bool (p_optional (fst x));
                           match p_default (fst x) with
                           | DNone => L [T"none"] | DStr v => L [T"s"; A v] | DBool b => L [T"b"; of_bool b]
                           | DInt z => L [T"i"; of_Z z] | DFloat r => L [T"f"; A r] | DUnknown => L [T"u"]
                           end]) pr;
             of_nat (List.length (filter (fun x : param * bool => snd x) pr));
             of_list (fun r : result => L [A (r_id r); A (r_name r); of_opt (fun t => sx_of_jv (to_dict t)) (r_type r)]) (fst rr);
             of_nat (snd rr)]
        | _, _, _, _, _ => bad end
      | _ => bad end
    else if tag_is "doc_cache" cmd then
      match args with
      | [tree; L qs] =>
        match gnode_of_sx_f (sexp_depth tree) tree, sx_list sx_str qs with
        | Some root, Some qs' =>
          let render := fun (r : res (list (option str))) =>
            match r with Ok ds => L [T"ok"; of_list (of_opt A) ds] | Err e => L [T"err"; sx_of_err e] end in
          L [render (cached_run root init_cstate qs'); render (uncached_run root qs')]
        | _, _ => bad end
      | _ => bad end
    else if tag_is "lex" cmd then
      match args with
      | [A text] => let s := scan st0 text in
                    L [of_bool (lex_ok text); of_bool (s_err s); of_bool (in_code s)]
      | _ => bad end
    else if tag_is "escapes" cmd then
      match args with
      | [A text] => L [A (escape_comment_text text); A (escape_string_content text);
                       of_bool (lex_ok (K"/**" ++ NL ++ escape_comment_text text ++ K" */"));
                       of_bool (lex_ok (quoted (escape_string_content text)))]
      | _ => bad end
    else if tag_is "container" cmd then
      match args with
      | [L ops] =>
        match sx_list (fun y => match y with L [A k; A v] => Some (k, v) | _ => None end) ops with
        | Some ops' => of_list (fun kv : str * str => L [A (fst kv); A (snd kv)]) (sorted_entries (add_all ops'))
        | None => bad end
      | _ => bad end
    else if tag_is "arg_kind" cmd then
      match args with
      | [r; po; A k] =>
        let kind := if tag_is "ARG_POS" k then Some ARG_POS else if tag_is "ARG_OPT" k then Some ARG_OPT
                    else if tag_is "ARG_STAR" k then Some ARG_STAR else if tag_is "ARG_NAMED" k then Some ARG_NAMED
                    else if tag_is "ARG_STAR2" k then Some ARG_STAR2 else if tag_is "ARG_NAMED_OPT" k then Some ARG_NAMED_OPT else None in
        match sx_bool r, sx_bool po, kind with
        | Some r', Some po', Some k' =>
          match get_argument_kind r' po' k' with
          | Some IMPLICIT => T"IMPLICIT" | Some POSITION_ONLY => T"POSITION_ONLY" | Some POSITION_OR_NAME => T"POSITION_OR_NAME"
          | Some POSITIONAL_VARARG => T"POSITIONAL_VARARG" | Some NAME_ONLY => T"NAME_ONLY" | Some NAMED_VARARG => T"NAMED_VARARG"
          | None => T"ValueError"
          end
        | _, _, _ => bad end
      | _ => bad end
    else bad
  | _ => bad
  end.

Definition run_line (s : str) : str :=
  match parse_sexp s with
  | Some x => print_sexp (run_case x)
  | None => print_sexp (L [T"parse-error"])
  end.
