(* One entry point for the correspondence harness: run_line parses a case, runs the model, prints the answer. *)
From Coq Require Import List Ascii String Bool Arith ZArith.
From SV Require Import Lib.Str Lib.Sexp Model.Types Model.Naming Model.Discover Model.Api Model.Back Model.Layout Driver.Codec Driver.ApiCodec.
Import ListNotations.

Definition bad : sexp := L [T"bad-case"].

Definition run_types_roundtrip (t : ty) : sexp :=
  let d := to_dict t in
  L [sx_of_jv d;
     match from_dict (S (depth t)) d with
     | Ok t' => L [T"ok"; sx_of_jv (to_dict t'); of_bool (py_eq t t'); of_bool (py_eq t' t)]
     | Err e => L [T"err"; sx_of_err e]
     end;
     of_bool (py_eq t t)].

Definition run_types_pair (a b : ty) : sexp :=
  L [of_bool (py_eq a b); of_bool (py_eq b a); of_bool (hk_eqb (hkey a) (hkey b))].

Definition run_case (x : sexp) : sexp :=
  match x with
  | L (A cmd :: args) =>
    if tag_is "types_roundtrip" cmd then
      match args with [t] => match ty_of_sx t with Some t' => run_types_roundtrip t' | None => bad end | _ => bad end
    else if tag_is "types_pair" cmd then
      match args with
      | [a; b] => match ty_of_sx a, ty_of_sx b with Some a', Some b' => run_types_pair a' b' | _, _ => bad end
      | _ => bad end
    else if tag_is "convert" cmd then
      match args with
      | [nc; c; A n] => match sx_bool nc, sx_bool c with
                        | Some nc', Some c' => L [A (convert nc' c' n); A (escape (convert nc' c' n)); of_bool (is_internal n)]
                        | _, _ => bad end
      | _ => bad end
    else if tag_is "discover" cmd then
      match args with
      | [tr; L files] =>
        match sx_bool tr, sx_list sx_str files with
        | Some tr', Some fs =>
          match get_api_files tr' fs with
          | NoFiles => L [T"nofiles"]
          | Files w p => L [T"files"; of_list A w; of_list A p]
          end
        | _, _ => bad end
      | _ => bad end
    else if tag_is "order_asts" cmd then
      match args with
      | [L g; L w; L p] =>
        match sx_list sx_str g, sx_list sx_str w, sx_list sx_str p with
        | Some g', Some w', Some p' => of_list A (order_asts g' w' p')
        | _, _, _ => bad end
      | _ => bad end
    else if tag_is "back" cmd then
      match args with
      | [nc; ax; L fs0] =>
        match sx_bool nc, api_of_sx ax, sx_list (fun y => match y with L [A p; A c] => Some (p, c) | _ => None end) fs0 with
        | Some nc', Some a, Some fs => sx_of_back (back_run a nc' fs)
        | _, _, _ => bad end
      | _ => bad end
    else if tag_is "type_string" cmd then
      match args with
      | [nc; ax; t] =>
        match sx_bool nc, api_of_sx ax, ty_of_sx t with
        | Some nc', Some a, Some t' =>
          match type_string (api_classes a) (api_reexport_map a) nc' t' init_gst with
          | Ok (s, st) => L [T"ok"; A s; of_list A (g_todos st); of_list A (g_imports st); of_list A (g_outside st)]
          | Err e => L [T"err"; sx_of_err e]
          end
        | _, _, _ => bad end
      | _ => bad end
    else bad
  | _ => bad
  end.

Definition run_line (s : str) : str :=
  match parse_sexp s with
  | Some x => print_sexp (run_case x)
  | None => print_sexp (L [T"parse-error"])
  end.
