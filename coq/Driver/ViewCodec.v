(* Decoder for the view written by tools/viewdump.py, encoder for the analyzer model's outcome. *)
From Coq Require Import List Ascii String Bool Arith ZArith.
From SV Require Import Lib.Str Lib.Sexp Model.Types Model.Api Model.Back Model.Layout Model.FrontSmall Model.View Model.Front Model.Json Model.Run Driver.Codec Driver.ApiCodec.
Import ListNotations.

Fixpoint mt_of_sx_f (fuel : nat) (x : sexp) : option mtype :=
  match fuel with O => None | S fu =>
  let rec := mt_of_sx_f fu in
  match x with
  | L [A t] => if tag_is "None" t then Some MNone else None
  | L [A t; y] =>
    if tag_is "Tu" t then option_map MTuple (sx_listof rec y)
    else if tag_is "Un" t then option_map MUnion (sx_listof rec y)
    else if tag_is "Lit" t then option_map MLit (lit_of_sx y)
    else if tag_is "Raw" t then option_map MRaw (sx_bool y)
    else None
  | L [A t; A n; y] =>
    if tag_is "TV" t then option_map (MTypeVar n) (rec y)
    else if tag_is "Ub" t then option_map (MUnbound n) (sx_listof rec y)
    else if tag_is "Any" t then option_map (MAny n) (sx_opt sx_str y)
    else None
  | L [A t; a; b; c] =>
    if tag_is "I" t then
      match a, b with A n, A q => option_map (MInst n q) (sx_listof rec c) | _, _ => None end
    else if tag_is "C" t then
      odo args <- sx_listof rec a; odo r <- rec b; odo cn <- sx_opt sx_str c; Some (MCallable args r cn)
    else if tag_is "O" t then
      match a with
      | A cls => odo n <- sx_opt sx_str b; odo args <- sx_opt (sx_listof rec) c; Some (MOther cls n args)
      | _ => None
      end
    else None
  | _ => None
  end end.
Definition mt_of_sx (x : sexp) : option mtype := mt_of_sx_f (sexp_depth x) x.

Definition vnode_of_sx (x : sexp) : option vnode :=
  match x with
  | L [A t] => if tag_is "none" t then Some VNone else None
  | L [A t; A c] => if tag_is "other" t then Some (VOther c) else None
  | L [A t; A f; ty_; es; inf; sf] =>
    if tag_is "var" t then
      odo ty' <- sx_opt mt_of_sx ty_; odo es' <- sx_bool es; odo inf' <- sx_bool inf; odo sf' <- sx_bool sf;
      Some (VVar f ty' es' inf' sf')
    else None
  | _ => None
  end.

Fixpoint expr_of_sx_f (fuel : nat) (x : sexp) : option expr :=
  match fuel with O => None | S fu =>
  let rec := expr_of_sx_f fu in
  match x with
  | L [A t] => if tag_is "call" t then Some ECall else None
  | L [A t; y] =>
    if tag_is "int" t then option_map EInt (sx_Z y)
    else if tag_is "float" t then option_map EFloat (sx_str y)
    else if tag_is "str" t then option_map EStr (sx_str y)
    else if tag_is "tuple" t then option_map ETuple (sx_listof rec y)
    else None
  | L [A t; a; b] =>
    if tag_is "unary" t then match a with A op => option_map (EUnary op) (rec b) | _ => None end
    else if tag_is "cond" t then odo a' <- rec a; odo b' <- rec b; Some (ECond a' b')
    else if tag_is "items" t then match a with A c => option_map (EItems c) (sx_listof rec b) | _ => None end
    else if tag_is "other" t then match a with A c => option_map (EOther c) (sx_opt sx_str b) | _ => None end
    else None
  | L [A t; A n; A f; nd] =>
    if tag_is "name" t then option_map (EName n f) (vnode_of_sx nd)
    else if tag_is "member" t then option_map (EMember n f) (vnode_of_sx nd)
    else None
  | _ => None
  end end.
Definition expr_of_sx (x : sexp) : option expr := expr_of_sx_f (sexp_depth x) x.

(* statements of a function body; definitions nested in a body are not looked at by the analyzer *)
Fixpoint bstmt_of_sx_f (fuel : nat) (x : sexp) : option bstmt :=
  match fuel with O => None | S fu =>
  let rec := bstmt_of_sx_f fu in
  let block := sx_listof rec in
  match x with
  | L (A t :: args) =>
    if tag_is "if" t then
      match args with [bs; els] => odo bs' <- sx_listof block bs; odo e <- sx_opt block els; Some (BIf bs' e) | _ => None end
    else if tag_is "block" t then match args with [b] => option_map BBlock (block b) | _ => None end
    else if tag_is "try" t then
      match args with [b; hs] => odo b' <- block b; odo hs' <- sx_listof block hs; Some (BTry b' hs') | _ => None end
    else if tag_is "match" t then match args with [bs] => option_map BMatch (sx_listof block bs) | _ => None end
    else if tag_is "loop" t then match args with [b] => option_map BLoop (block b) | _ => None end
    else if tag_is "ret" t then match args with [e] => option_map BRet (sx_opt expr_of_sx e) | _ => None end
    else if tag_is "assign" t then
      match args with [lvs; ut] => odo l <- sx_listof expr_of_sx lvs; odo u <- sx_opt mt_of_sx ut; Some (BAssign l u) | _ => None end
    else Some BOther
  | _ => None
  end end.
Definition bstmt_of_sx (x : sexp) : option bstmt := bstmt_of_sx_f (sexp_depth x) x.

Definition argkind_of_sx (x : sexp) : option argkind :=
  match x with
  | A k => if tag_is "ARG_POS" k then Some ARG_POS else if tag_is "ARG_OPT" k then Some ARG_OPT
           else if tag_is "ARG_STAR" k then Some ARG_STAR else if tag_is "ARG_NAMED" k then Some ARG_NAMED
           else if tag_is "ARG_STAR2" k then Some ARG_STAR2 else if tag_is "ARG_NAMED_OPT" k then Some ARG_NAMED_OPT else None
  | _ => None
  end.

Definition arg_of_sx (x : sexp) : option arg :=
  match x with
  | L [A n; vt; sf; cl; an; k; po; ini] =>
    odo vt' <- sx_opt mt_of_sx vt; odo sf' <- sx_bool sf; odo cl' <- sx_bool cl; odo an' <- sx_opt mt_of_sx an;
    odo k' <- argkind_of_sx k; odo po' <- sx_bool po; odo ini' <- sx_opt expr_of_sx ini;
    Some {| ar_name := n; ar_vtype := vt'; ar_is_self := sf'; ar_is_cls := cl'; ar_annot := an'; ar_kind := k';
            ar_pos_only := po'; ar_init := ini' |}
  | _ => None
  end.

Definition fty_of_sx (x : sexp) : option fty :=
  match x with
  | L [A t] => if tag_is "noret" t then Some FNoRet else None
  | L [A t; r; u] => if tag_is "ret" t then odo r' <- mt_of_sx r; odo u' <- sx_opt mt_of_sx u; Some (FRet r' u') else None
  | _ => None
  end.

Definition fdef_of_sx (x : sexp) : option fdef :=
  match x with
  | L [A n; A f; st; cm; pr; args; ft; body] =>
    odo st' <- sx_bool st; odo cm' <- sx_bool cm; odo pr' <- sx_bool pr; odo args' <- sx_opt (sx_listof arg_of_sx) args;
    odo ft' <- sx_opt fty_of_sx ft; odo body' <- sx_listof bstmt_of_sx body;
    Some {| fn_name := n; fn_fullname := f; fn_static := st'; fn_class := cm'; fn_property := pr'; fn_args := args';
            fn_type := ft'; fn_body := body' |}
  | _ => None
  end.

Definition tvnode_of_sx (x : sexp) : option tvnode :=
  match x with
  | L [A t] => if tag_is "bad" t then Some TvBad else None
  | L [A t; A n; v; vals; ub] =>
    if tag_is "tv" t then odo v' <- sx_Z v; odo vals' <- sx_listof mt_of_sx vals; odo ub' <- mt_of_sx ub; Some (Tv n v' vals' ub') else None
  | _ => None
  end.

Definition bindex_of_sx (x : sexp) : option bindex :=
  match x with
  | L [A t] => if tag_is "other" t then Some IxOther else None
  | L [A t; y] =>
    if tag_is "tuple" t then option_map IxTuple (sx_listof (sx_opt tvnode_of_sx) y)
    else if tag_is "name" t then option_map IxName (tvnode_of_sx y)
    else None
  | _ => None
  end.

Definition bexpr_of_sx (x : sexp) : option bexpr :=
  match x with
  | L [f; e; b; ix] =>
    odo f' <- sx_opt sx_str f; odo e' <- sx_bool e; odo b' <- sx_opt sx_str b; odo ix' <- bindex_of_sx ix;
    Some {| be_fullname := f'; be_exc := e'; be_base_name := b'; be_index := ix' |}
  | _ => None
  end.

(* a definition as the implementation of an overloaded definition / as its first item *)
Definition oimpl_of_sx (x : sexp) : option oimpl :=
  match x with
  | L [] => Some OINone
  | L [L [A t; f]] => if tag_is "func" t then option_map OIFunc (fdef_of_sx f) else Some OIOther
  | L [_] => Some OIOther
  | _ => None
  end.
Definition oitem_of_sx (items : sexp) : option oitem :=
  match items with
  | L [] => Some OTNone
  | L (L [A t; f] :: _) => if tag_is "deco" t then option_map OTDeco (fdef_of_sx f) else Some OTOther
  | L (_ :: _) => Some OTOther
  | _ => None
  end.
Definition over_name (impl items : sexp) : str :=
  let of_def := fun d => match d with
                         | L [A t; L (A n :: _)] => if tag_is "func" t || tag_is "deco" t then Some n else None
                         | _ => None
                         end in
  match items with
  | L (d :: _) => match of_def d with Some n => n | None => [] end
  | _ => match impl with L [d] => match of_def d with Some n => n | None => [] end | _ => [] end
  end.

Fixpoint cmember_of_sx_f (fuel : nat) (x : sexp) : option cmember :=
  match fuel with O => None | S fu =>
  match x with
  | L [A t; a] =>
    if tag_is "func" t then option_map CMFunc (fdef_of_sx a)
    else if tag_is "deco" t then option_map CMDeco (fdef_of_sx a)
    else if tag_is "over" t then
      match a with
      | L [pr; impl; items] =>
        odo pr' <- sx_bool pr; odo impl' <- oimpl_of_sx impl; odo it' <- oitem_of_sx items;
        Some (CMOver (over_name impl items) pr' impl' it')
      | _ => None
      end
    else if tag_is "class" t then
      match a with
      | L [A n; A f; bs; rs; defs] =>
        odo bs' <- sx_listof bexpr_of_sx bs; odo rs' <- sx_listof bexpr_of_sx rs; odo defs' <- sx_listof (cmember_of_sx_f fu) defs;
        Some (CMClass (mkcdef n f bs' rs' defs'))
      | _ => None
      end
    else if tag_is "strstmt" t then Some (CMOther (K"ExpressionStmt") None)
    else None
  | L [A t; a; b] =>
    if tag_is "assign" t then odo l <- sx_listof expr_of_sx a; odo u <- sx_opt mt_of_sx b; Some (CMAssign l u)
    else if tag_is "other" t then match a with A c => option_map (CMOther c) (sx_opt sx_str b) | _ => None end
    else None
  | L (A t :: _) => Some (CMOther t None)        (* statements that only occur in bodies (if, try, ...) at class level *)
  | _ => None
  end end.
Definition cmember_of_sx (x : sexp) : option cmember := cmember_of_sx_f (sexp_depth x) x.

Definition names_of_sx (x : sexp) : option (list (str * option str)) :=
  sx_listof (fun y => match y with L [A n; a] => odo a' <- sx_opt sx_str a; Some (n, a') | _ => None end) x.

Definition import_of_sx (x : sexp) : option import_ :=
  match x with
  | L [A t] => if tag_is "otherimport" t then Some ImpOther else None
  | L [A t; y] =>
    if tag_is "imp" t then option_map Imp (names_of_sx y)
    else if tag_is "all" t then option_map ImpAll (sx_str y)
    else None
  | L [A t; A id; y] => if tag_is "from" t then option_map (ImpFrom id) (names_of_sx y) else None
  | _ => None
  end.

Definition mfile_of_sx (x : sexp) : option mfile :=
  match x with
  | L [A p; A f; A n; imps; first; defs] =>
    odo imps' <- sx_listof import_of_sx imps; odo first' <- sx_opt sx_str first; odo defs' <- sx_listof cmember_of_sx defs;
    Some {| mf_path := p; mf_fullname := f; mf_name := n; mf_imports := imps'; mf_first_doc := first'; mf_defs := defs' |}
  | _ => None
  end.

Definition gentry_of_sx (x : sexp) : option gentry :=
  match x with
  | L [A t; y] =>
    if tag_is "mod" t then option_map GMod (mfile_of_sx y)
    else if tag_is "notree" t then option_map GNoTree (sx_str y)
    else None
  | L [A t; A p; A f] => if tag_is "ext" t then Some (GExt p f) else None
  | _ => None
  end.

Definition aentry_of_sx (x : sexp) : option aentry :=
  match x with
  | L [A k; n; f; nd; ti; tv] =>
    odo k' <- (if tag_is "name" k then Some AKName else if tag_is "member" k then Some AKMember
               else if tag_is "tvexpr" k then Some AKTypeVarExpr else None);
    odo n' <- sx_opt sx_str n; odo f' <- sx_opt sx_str f;
    odo nd' <- (match nd with
                | L [A t] => if tag_is "other" t then Some ANOther else None
                | L [A t; A y] => if tag_is "alias" t then Some (ANAlias y) else if tag_is "var" t then Some (ANVar y) else None
                | _ => None
                end);
    odo ti' <- sx_opt (fun y => match y with L [A a; A b] => Some (a, b) | _ => None end) ti;
    odo tv' <- (match tv with
                | L [A t; a; b; c] =>
                  if tag_is "callable" t then odo a' <- sx_bool a; odo b' <- sx_bool b; odo c' <- sx_opt sx_str c; Some (ATCallable a' b' c')
                  else None
                | L [A t; A y] => if tag_is "instance" t then Some (ATInstance y) else if tag_is "othertype" t then Some ATOther else None
                | _ => None
                end);
    Some {| ae_kind := k'; ae_name := n'; ae_fullname := f'; ae_node := nd'; ae_tinfo := ti'; ae_tv := tv' |}
  | _ => None
  end.

Definition err_of_name (s : str) : err :=
  if tag_is "KeyError" s then KeyError else if tag_is "ValueError" s then ValueError else if tag_is "TypeError" s then TypeError
  else if tag_is "IndexError" s then IndexError else if tag_is "LookupError" s then LookupError
  else if tag_is "AttributeError" s then AttributeError else if tag_is "AssertionError" s then AssertionError else OtherError.

Definition answer_of_sx {T} (f : sexp -> option T) (x : sexp) : option (res T) :=
  match x with
  | L [A t; y] =>
    if tag_is "ok" t then option_map Ok (f y)
    else if tag_is "exc" t then match y with A n => Some (Err (err_of_name n)) | _ => None end
    else None
  | _ => None
  end.

Definition oty_of_sx := sx_opt ty_of_sx.

Definition docs_of_sx (x : sexp) : option docs :=
  match x with
  | L [cd; fd; pd; ad; rd] =>
    odo cd' <- sx_listof (fun y => match y with L [A q; a] => odo a' <- answer_of_sx doc_of_sx a; Some (q, a') | _ => None end) cd;
    odo fd' <- sx_listof (fun y => match y with L [A q; a] => odo a' <- answer_of_sx doc_of_sx a; Some (q, a') | _ => None end) fd;
    odo pd' <- sx_listof (fun y => match y with
                                   | L [A q; A p; A c; a] =>
                                     odo a' <- answer_of_sx (fun z => match z with
                                                                      | L [t; A dv; A ds] => odo t' <- oty_of_sx t; Some {| pd_type := t'; pd_default := dv; pd_desc := ds |}
                                                                      | _ => None end) a;
                                     Some (q, p, c, a')
                                   | _ => None end) pd;
    odo ad' <- sx_listof (fun y => match y with
                                   | L [A c; A n; a] =>
                                     odo a' <- answer_of_sx (fun z => match z with
                                                                      | L [t; A ds] => odo t' <- oty_of_sx t; Some {| ad_type := t'; ad_desc := ds |}
                                                                      | _ => None end) a;
                                     Some (c, n, a')
                                   | _ => None end) ad;
    odo rd' <- sx_listof (fun y => match y with L [A q; a] => odo a' <- answer_of_sx (sx_listof rdoc_of_sx) a; Some (q, a') | _ => None end) rd;
    Some {| dc_class := cd'; dc_func := fd'; dc_param := pd'; dc_attr := ad'; dc_result := rd' |}
  | _ => None
  end.

Definition view_of_sx (x : sexp) : option view :=
  match x with
  | L [A pkg; A _style; tr; pd; w; gl; al; gr; dc] =>
    odo tr' <- sx_bool tr; odo pd' <- sx_bool pd; odo w' <- sx_bool w; odo gl' <- sx_listof sx_str gl;
    odo al' <- sx_listof aentry_of_sx al; odo gr' <- sx_listof gentry_of_sx gr; odo dc' <- docs_of_sx dc;
    Some {| v_package := pkg; v_test_run := tr'; v_pref_doc := pd'; v_warn := w'; v_glob := gl'; v_aliases := al';
            v_graph := gr'; v_docs := dc' |}
  | _ => None
  end.

(* ---- encoders: the same trees tools/apienc.py builds from the real API object ---- *)
Definition sx_of_lit (l : lit) : sexp :=
  match l with
  | LStr s => L [T"s"; A s] | LInt z => L [T"i"; of_Z z] | LBool b => L [T"b"; of_bool b] | LFloat r => L [T"f"; A r] | LNone => L [T"n"]
  end.

Fixpoint sx_of_ty (t : ty) : sexp :=
  match t with
  | TUnknown => L [T"U"]
  | TNamed n q => L [T"N"; A n; A q]
  | TNamedSeq n q ts => L [T"NS"; A n; A q; L (map sx_of_ty ts)]
  | TEnum vs => L [T"E"; L (map A vs)]
  | TBoundary b mn mx i1 i2 => L [T"B"; A b; sx_of_lit mn; sx_of_lit mx; of_bool i1; of_bool i2]
  | TUnion ts => L [T"Un"; L (map sx_of_ty ts)]
  | TList ts => L [T"Li"; L (map sx_of_ty ts)]
  | TSet ts => L [T"S"; L (map sx_of_ty ts)]
  | TTuple ts => L [T"T"; L (map sx_of_ty ts)]
  | TLiteral ls => L [T"Lit"; L (map sx_of_lit ls)]
  | TFinal t' => L [T"F"; L [sx_of_ty t']]
  | TDict k v => L [T"D"; L [sx_of_ty k]; L [sx_of_ty v]]
  | TCallable ps r => L [T"C"; L (map sx_of_ty ps); L [sx_of_ty r]]
  | TTypeVar n ub => L [T"TV"; A n; match ub with Some u => L [sx_of_ty u] | None => L [] end]
  end.
Definition sx_of_oty (o : option ty) : sexp := of_opt sx_of_ty o.

Definition sx_of_doc (d : docstring) : sexp := L [A (d_desc d); A (d_full d); L (map A (d_examples d))].
Definition sx_of_dval (v : dval) : sexp :=
  match v with
  | DNone => L [T"none"] | DUnknown => L [T"u"] | DBool b => L [T"b"; of_bool b] | DInt z => L [T"i"; of_Z z]
  | DFloat r => L [T"f"; A r] | DStr s => L [T"s"; A s]
  end.
Definition sx_of_passign (k : passign) : sexp :=
  T (match k with IMPLICIT => "IMPLICIT" | POSITION_ONLY => "POSITION_ONLY" | POSITION_OR_NAME => "POSITION_OR_NAME"
              | POSITIONAL_VARARG => "POSITIONAL_VARARG" | NAME_ONLY => "NAME_ONLY" | NAMED_VARARG => "NAMED_VARARG" end).
Definition sx_of_param (p : param) : sexp :=
  L [A (p_id p); A (p_name p); of_bool (p_optional p); sx_of_dval (p_default p); sx_of_passign (p_assigned p);
     sx_of_oty (p_doc_type p); A (p_doc_default p); A (p_doc_desc p); sx_of_oty (p_type p)].
Definition sx_of_result (r : result) : sexp := L [A (r_id r); A (r_name r); sx_of_oty (r_type r)].
Definition sx_of_rdoc (r : rdoc) : sexp := L [sx_of_oty (rd_type r); A (rd_desc r); A (rd_name r)].
Definition sx_of_qimport (q : qimport) : sexp := L [A (qi_name q); of_opt A (qi_alias q)].
Definition sx_of_rmod (m : rmod) : sexp := L [A (rm_id m); L (map sx_of_qimport (rm_qimports m)); L (map A (rm_wimports m))].
Definition sx_of_func (f : func) : sexp :=
  L [A (f_id f); A (f_name f); sx_of_doc (f_doc f); of_bool (f_public f); of_bool (f_static f); of_bool (f_classm f);
     of_bool (f_prop f); L (map sx_of_rdoc (f_rdocs f)); L (map (fun tv : str * option ty => L [A (fst tv); sx_of_oty (snd tv)]) (f_tvars f));
     L (map sx_of_result (f_results f)); L (map sx_of_rmod (f_reexported_by f)); L (map sx_of_param (f_params f))].
Definition sx_of_attr (a : attr) : sexp :=
  L [A (a_id a); A (a_name a); of_bool (a_public a); of_bool (a_static a); sx_of_oty (a_type a); sx_of_oty (a_doc_type a); A (a_doc_desc a)].
Definition sx_of_variance (v : variance) : sexp :=
  T (match v with INVARIANT => "INVARIANT" | COVARIANT => "COVARIANT" | CONTRAVARIANT => "CONTRAVARIANT" end).
Fixpoint sx_of_cls (c : cls) : sexp :=
  match c with
  | mkcls id name sups pub doc ctor cfd exc reex attrs methods classes tparams =>
    L [A id; A name; L (map A sups); of_bool pub; sx_of_doc doc; of_opt sx_of_func ctor; A cfd; of_bool exc;
       L (map sx_of_rmod reex); L (map sx_of_attr attrs); L (map sx_of_func methods); L (map sx_of_cls classes);
       L (map (fun tp => L [A (tp_name tp); sx_of_oty (tp_type tp); sx_of_variance (tp_variance tp)]) tparams)]
  end.
Definition sx_of_enum (e : enum_) : sexp :=
  L [A (e_id e); A (e_name e); sx_of_doc (e_doc e); L (map (fun i : str * str => L [A (fst i); A (snd i)]) (e_instances e))].
Definition sx_of_module (m : module_) : sexp :=
  L [A (m_id m); A (m_name m); A (m_doc m); L (map sx_of_qimport (m_qimports m)); L (map A (m_wimports m));
     L (map sx_of_cls (m_classes m)); L (map sx_of_func (m_functions m)); L (map sx_of_enum (m_enums m))].
Definition sx_of_api (a : api) : sexp :=
  L [A (api_package a); L (map sx_of_module (api_modules a)); L (map (fun ic : str * cls => L [A (fst ic); sx_of_cls (snd ic)]) (api_classes a));
     L (map (fun km : str * list rmod => L [A (fst km); L (map sx_of_rmod (sort_by_key rm_id (snd km)))]) (api_reexport_map a))].

Definition sx_of_logrec (l : logrec) : sexp :=
  match l with
  | LParamMismatch f => L [T"param"; A f] | LResultMismatch f => L [T"result"; A f] | LCallDefault f => L [T"call"; A f]
  | LUnaryDefault f => L [T"unary"; A f]
  end.

Definition sx_of_outcome (r : res outcome) : sexp :=
  match r with
  | Err e => L [T"err"; sx_of_err e]
  | Ok o => L [T"ok"; sx_of_api (o_api o); L (map (fun l => L (map A l)) (o_flat o)); L (map sx_of_logrec (o_log o)); of_bool (o_amb o);
               sx_of_jv (api_json [] [] o)]
  end.

Definition run_front (x : sexp) : sexp :=
  match view_of_sx x with
  | Some v => sx_of_outcome (front v)
  | None => L [T"bad-view"]
  end.

(* the whole pipeline on a view: same answer format as the `back` command, preceded by the order-dependence flag of the analyzer *)
Definition run_pipeline (nc : sexp) (x : sexp) : sexp :=
  match sx_bool nc, view_of_sx x with
  | Some nc', Some v =>
    match run v nc' [] with
    | Err e => L [T"err"; sx_of_err e]
    | Ok o => L [T"ok"; of_bool (out_amb o); sx_of_back (Ok (out_data o, out_gst o, out_files o))]
    end
  | _, _ => L [T"bad-view"]
  end.

(* ---- docstring types (Model/DocTypes.v) ---- *)
From SV Require Import Model.DocTypes.

Fixpoint gexpr_of_sx_f (fuel : nat) (x : sexp) : option gexpr :=
  match fuel with O => None | S fu =>
  let rec := gexpr_of_sx_f fu in
  match x with
  | L [A t] => if tag_is "other" t then Some GOther else None
  | L [A t; y] =>
    if tag_is "list" t then option_map GList (sx_listof rec y)
    else if tag_is "boolop" t then option_map GBoolOp (sx_listof rec y)
    else if tag_is "tuple" t then
      option_map GTuple (sx_listof (fun z => match z with L [cp; e] => odo cp' <- sx_opt sx_str cp; odo e' <- rec e; Some (cp', e') | _ => None end) y)
    else None
  | L [A t; a; b] =>
    if tag_is "name" t then match a, b with A cn, A cp => Some (GName cn cp) | _, _ => None end
    else if tag_is "binop" t then odo l <- rec a; odo r <- rec b; Some (GBinOp l r)
    else if tag_is "str" t then match a with A s => option_map (GStr s) (rec b) | _ => None end
    else None
  | L [A t; A cn; A cp; sl] => if tag_is "sub" t then option_map (GSub cn cp) (rec sl) else None
  | _ => None
  end end.
Definition gexpr_of_sx (x : sexp) : option gexpr := gexpr_of_sx_f (sexp_depth x) x.

Definition run_doc_type (numpy e : sexp) : sexp :=
  match sx_bool numpy, gexpr_of_sx e with
  | Some n, Some g => of_opt sx_of_ty (doc_type n g)
  | _, _ => L [T"bad-case"]
  end.

(* ---- docstring sections (Model/DocSections.v) ---- *)
From SV Require Import Model.DocSections.

Definition ditem_of_sx (x : sexp) : option ditem :=
  match x with
  | L [A n; an; A ds; df; na] =>
    odo an' <- sx_opt gexpr_of_sx an; odo df' <- sx_opt sx_str df; odo na' <- sx_opt gexpr_of_sx na;
    Some {| di_name := n; di_annot := an'; di_desc := ds; di_default := df'; di_name_annot := na' |}
  | _ => None
  end.
Definition dsection_of_sx (x : sexp) : option dsection :=
  match x with
  | L [A t] => if tag_is "other" t then Some SOtherSection else None
  | L [A t; y] =>
    if tag_is "text" t then option_map SText (sx_str y)
    else if tag_is "examples" t then option_map SExamples (sx_listof sx_str y)
    else if tag_is "params" t then option_map SParams (sx_listof ditem_of_sx y)
    else if tag_is "attrs" t then option_map SAttrs (sx_listof ditem_of_sx y)
    else if tag_is "returns" t then option_map SReturns (sx_listof ditem_of_sx y)
    else None
  | _ => None
  end.
Definition gdoc_of_sx (x : sexp) : option gdoc :=
  match x with
  | L [A v; secs] => odo s <- sx_listof dsection_of_sx secs; Some {| gd_value := v; gd_sections := s |}
  | _ => None
  end.
Definition style_of_sx (x : sexp) : option style :=
  match x with
  | A t => if tag_is "numpydoc" t then Some Numpy else if tag_is "google" t then Some Google else if tag_is "rest" t then Some Sphinx else None
  | _ => None
  end.

(* (doc_sections style kind class_doc func_doc name flags) *)
Definition run_doc_sections (args : list sexp) : sexp :=
  match args with
  | [stx; A kind; cd; fd; A name; f1; f2] =>
    match style_of_sx stx, sx_opt gdoc_of_sx cd, sx_opt gdoc_of_sx fd, sx_bool f1, sx_bool f2 with
    | Some st, Some cd', Some fd', Some b1, Some b2 =>
      if tag_is "general" kind then sx_of_doc (general_doc fd')
      else if tag_is "param" kind then
        let p := param_doc st b1 cd' fd' b2 name in L [sx_of_oty (pd_type p); A (pd_default p); A (pd_desc p)]
      else if tag_is "attr" kind then
        let a := attr_doc st cd' fd' name in L [sx_of_oty (ad_type a); A (ad_desc a)]
      else if tag_is "results" kind then
        match result_docs st fd' with Ok l => L (map sx_of_rdoc l) | Err e => L [T"err"; sx_of_err e] end
      else L [T"bad-case"]
    | _, _, _, _, _ => L [T"bad-case"]
    end
  | _ => L [T"bad-case"]
  end.
