(* Decoders / encoders between S-expressions and model values. *)
From Coq Require Import List Ascii String Bool Arith ZArith.
From SV Require Import Lib.Str Lib.Sexp Model.Types.
Import ListNotations.

Definition tag_is (t : string) (s : str) : bool := str_eqb s (K t).

Definition lit_of_sx (x : sexp) : option lit :=
  match x with
  | L [A t; A v] =>
    if tag_is "s" t then Some (LStr v)
    else if tag_is "i" t then option_map LInt (dec_to_Z v)
    else if tag_is "b" t then option_map LBool (sx_bool (A v))
    else if tag_is "f" t then Some (LFloat v)
    else None
  | L [A t] => if tag_is "n" t then Some LNone else None
  | _ => None
  end.

Fixpoint sexp_depth (x : sexp) : nat :=
  match x with
  | A _ => 1
  | L l => S ((fix mx (l : list sexp) : nat := match l with [] => 0 | y :: r => Nat.max (sexp_depth y) (mx r) end) l)
  end.

Fixpoint ty_of_sx_f (fuel : nat) (x : sexp) : option ty :=
  match fuel with O => None | S fu =>
  let ty_of_sx := ty_of_sx_f fu in
  match x with
  | L [A t] => if tag_is "U" t then Some TUnknown else None
  | L [A t; A n; A q] => if tag_is "N" t then Some (TNamed n q) else None
  | L [A t; A n; A q; L ts] =>
    if tag_is "NS" t then option_map (TNamedSeq n q) (sx_list ty_of_sx ts) else None
  | L [A t; L l] =>
    if tag_is "E" t then option_map TEnum (sx_list sx_str l)
    else if tag_is "Un" t then option_map TUnion (sx_list ty_of_sx l)
    else if tag_is "Li" t then option_map TList (sx_list ty_of_sx l)
    else if tag_is "S" t then option_map TSet (sx_list ty_of_sx l)
    else if tag_is "T" t then option_map TTuple (sx_list ty_of_sx l)
    else if tag_is "Lit" t then option_map TLiteral (sx_list lit_of_sx l)
    else if tag_is "F" t then match l with [y] => option_map TFinal (ty_of_sx y) | _ => None end
    else None
  | L [A t; A b; mn; mx; i1; i2] =>
    if tag_is "B" t then
      match lit_of_sx mn, lit_of_sx mx, sx_bool i1, sx_bool i2 with
      | Some a, Some c, Some d, Some e => Some (TBoundary b a c d e)
      | _, _, _, _ => None
      end
    else None
  | L [A t; L k; L v] =>
    if tag_is "D" t then
      match k, v with
      | [k'], [v'] => match ty_of_sx k', ty_of_sx v' with Some a, Some b => Some (TDict a b) | _, _ => None end
      | _, _ => None
      end
    else if tag_is "C" t then
      match v with
      | [r] => match sx_list ty_of_sx k, ty_of_sx r with Some ps, Some r' => Some (TCallable ps r') | _, _ => None end
      | _ => None
      end
    else None
  | L [A t; A n; L ub] =>
    if tag_is "TV" t then
      match ub with
      | [] => Some (TTypeVar n None)
      | [u] => option_map (fun u' => TTypeVar n (Some u')) (ty_of_sx u)
      | _ => None
      end
    else None
  | _ => None
  end end.
Definition ty_of_sx (x : sexp) : option ty := ty_of_sx_f (sexp_depth x) x.

Definition T (s : string) : sexp := A (K s).

Fixpoint sx_of_jv (j : jv) : sexp :=
  match j with
  | JNone => L [T"none"]
  | JBool b => L [T"b"; of_bool b]
  | JInt z => L [T"i"; of_Z z]
  | JFloat r => L [T"f"; A r]
  | JStr s => L [T"s"; A s]
  | JList l => L (T"l" :: map sx_of_jv l)
  | JSet l => L (T"set" :: map sx_of_jv l)
  | JDict d => L (T"d" :: map (fun kv => L [A (fst kv); sx_of_jv (snd kv)]) d)
  end.

Definition sx_of_err (e : err) : sexp :=
  T (match e with
     | KeyError => "KeyError" | ValueError => "ValueError" | TypeError => "TypeError" | IndexError => "IndexError"
     | LookupError => "LookupError" | AttributeError => "AttributeError" | AssertionError => "AssertionError"
     | OutOfFuel => "OutOfFuel" | NoFilesFound => "NoFilesFound" | OracleMiss => "OracleMiss" | OtherError => "OtherError"
     end).

Definition sx_of_res {X} (f : X -> sexp) (r : res X) : sexp :=
  match r with Ok a => L [T"ok"; f a] | Err e => L [T"err"; sx_of_err e] end.
