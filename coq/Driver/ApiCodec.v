(* Decoders for API objects and encoders for generator results. *)
From Coq Require Import List Ascii String Bool Arith ZArith.
From SV Require Import Lib.Str Lib.Sexp Model.Types Model.Api Model.Back Model.Layout Driver.Codec.
Import ListNotations.

Notation "'odo' x <- m ; k" := (match m with Some x => k | None => None end) (at level 200, x name, m at level 100, k at level 200).

Definition doc_of_sx (x : sexp) : option docstring :=
  match x with
  | L [A d; A f; L ex] => odo e <- sx_list sx_str ex; Some {| d_desc := d; d_full := f; d_examples := e |}
  | _ => None
  end.

Definition dval_of_sx (x : sexp) : option dval :=
  match x with
  | L [A t] => if tag_is "none" t then Some DNone else if tag_is "u" t then Some DUnknown else None
  | L [A t; A v] =>
    if tag_is "s" t then Some (DStr v)
    else if tag_is "b" t then option_map DBool (sx_bool (A v))
    else if tag_is "i" t then option_map DInt (dec_to_Z v)
    else if tag_is "f" t then Some (DFloat v)
    else None
  | _ => None
  end.

Definition passign_of_sx (x : sexp) : option passign :=
  match x with
  | A t => if tag_is "IMPLICIT" t then Some IMPLICIT else if tag_is "POSITION_ONLY" t then Some POSITION_ONLY
           else if tag_is "POSITION_OR_NAME" t then Some POSITION_OR_NAME
           else if tag_is "POSITIONAL_VARARG" t then Some POSITIONAL_VARARG
           else if tag_is "NAME_ONLY" t then Some NAME_ONLY else if tag_is "NAMED_VARARG" t then Some NAMED_VARARG else None
  | _ => None
  end.

Definition param_of_sx (x : sexp) : option param :=
  match x with
  | L [A id; A name; opt; dv; asg; dt; A dd; A ddesc; ty_] =>
    odo o <- sx_bool opt; odo d <- dval_of_sx dv; odo k <- passign_of_sx asg;
    odo dt' <- sx_opt ty_of_sx dt; odo t <- sx_opt ty_of_sx ty_;
    Some {| p_id := id; p_name := name; p_optional := o; p_default := d; p_assigned := k; p_doc_type := dt';
            p_doc_default := dd; p_doc_desc := ddesc; p_type := t |}
  | _ => None
  end.

Definition result_of_sx (x : sexp) : option result :=
  match x with
  | L [A id; A name; t] => odo t' <- sx_opt ty_of_sx t; Some {| r_id := id; r_name := name; r_type := t' |}
  | _ => None
  end.
Definition rdoc_of_sx (x : sexp) : option rdoc :=
  match x with
  | L [t; A d; A n] => odo t' <- sx_opt ty_of_sx t; Some {| rd_type := t'; rd_desc := d; rd_name := n |}
  | _ => None
  end.
Definition qimport_of_sx (x : sexp) : option qimport :=
  match x with
  | L [A n; al] => odo a <- sx_opt sx_str al; Some {| qi_name := n; qi_alias := a |}
  | _ => None
  end.
Definition rmod_of_sx (x : sexp) : option rmod :=
  match x with
  | L [A id; L q; L w] => odo q' <- sx_list qimport_of_sx q; odo w' <- sx_list sx_str w;
                          Some {| rm_id := id; rm_qimports := q'; rm_wimports := w' |}
  | _ => None
  end.
Definition tvar_of_sx (x : sexp) : option (str * option ty) :=
  match x with
  | L [A n; ub] => odo u <- sx_opt ty_of_sx ub; Some (n, u)
  | _ => None
  end.

Definition func_of_sx (x : sexp) : option func :=
  match x with
  | L [A id; A name; doc; pub; st; cm; pr; L rdocs; L tvars; L results; L reex; L params] =>
    odo d <- doc_of_sx doc; odo pub' <- sx_bool pub; odo st' <- sx_bool st; odo cm' <- sx_bool cm; odo pr' <- sx_bool pr;
    odo rd <- sx_list rdoc_of_sx rdocs; odo tv <- sx_list tvar_of_sx tvars; odo rs <- sx_list result_of_sx results;
    odo rx <- sx_list rmod_of_sx reex; odo ps <- sx_list param_of_sx params;
    Some {| f_id := id; f_name := name; f_doc := d; f_public := pub'; f_static := st'; f_classm := cm'; f_prop := pr';
            f_rdocs := rd; f_tvars := tv; f_results := rs; f_reexported_by := rx; f_params := ps |}
  | _ => None
  end.

Definition attr_of_sx (x : sexp) : option attr :=
  match x with
  | L [A id; A name; pub; st; t; dt; A dd] =>
    odo pub' <- sx_bool pub; odo st' <- sx_bool st; odo t' <- sx_opt ty_of_sx t; odo dt' <- sx_opt ty_of_sx dt;
    Some {| a_id := id; a_name := name; a_public := pub'; a_static := st'; a_type := t'; a_doc_type := dt'; a_doc_desc := dd |}
  | _ => None
  end.

Definition variance_of_sx (x : sexp) : option variance :=
  match x with
  | A t => if tag_is "INVARIANT" t then Some INVARIANT else if tag_is "COVARIANT" t then Some COVARIANT
           else if tag_is "CONTRAVARIANT" t then Some CONTRAVARIANT else None
  | _ => None
  end.
Definition tparam_of_sx (x : sexp) : option tparam :=
  match x with
  | L [A n; t; v] => odo t' <- sx_opt ty_of_sx t; odo v' <- variance_of_sx v;
                     Some {| tp_name := n; tp_type := t'; tp_variance := v' |}
  | _ => None
  end.

Fixpoint cls_of_sx_f (fuel : nat) (x : sexp) : option cls :=
  match fuel with O => None | S fu =>
  match x with
  | L [A id; A name; L supers; pub; doc; ctor; A cfd; exc; L reex; L attrs; L methods; L classes; L tparams] =>
    odo su <- sx_list sx_str supers; odo pub' <- sx_bool pub; odo d <- doc_of_sx doc; odo k <- sx_opt func_of_sx ctor;
    odo exc' <- sx_bool exc; odo rx <- sx_list rmod_of_sx reex; odo ats <- sx_list attr_of_sx attrs;
    odo ms <- sx_list func_of_sx methods; odo cs <- sx_list (cls_of_sx_f fu) classes; odo tps <- sx_list tparam_of_sx tparams;
    Some (mkcls id name su pub' d k cfd exc' rx ats ms cs tps)
  | _ => None
  end end.
Definition cls_of_sx (x : sexp) : option cls := cls_of_sx_f (sexp_depth x) x.

Definition enum_of_sx (x : sexp) : option enum_ :=
  match x with
  | L [A id; A name; doc; L insts] =>
    odo d <- doc_of_sx doc;
    odo is_ <- sx_list (fun y => match y with L [A i; A n] => Some (i, n) | _ => None end) insts;
    Some {| e_id := id; e_name := name; e_doc := d; e_instances := is_ |}
  | _ => None
  end.

Definition module_of_sx (x : sexp) : option module_ :=
  match x with
  | L [A id; A name; A doc; L q; L w; L cs; L fs; L es] =>
    odo q' <- sx_list qimport_of_sx q; odo w' <- sx_list sx_str w; odo cs' <- sx_list cls_of_sx cs;
    odo fs' <- sx_list func_of_sx fs; odo es' <- sx_list enum_of_sx es;
    Some {| m_id := id; m_name := name; m_doc := doc; m_qimports := q'; m_wimports := w'; m_classes := cs';
            m_functions := fs'; m_enums := es' |}
  | _ => None
  end.

Definition api_of_sx (x : sexp) : option api :=
  match x with
  | L [A pkg; L ms; L cs; L rm] =>
    odo ms' <- sx_list module_of_sx ms;
    odo cs' <- sx_list (fun y => match y with L [A i; c] => odo c' <- cls_of_sx c; Some (i, c') | _ => None end) cs;
    odo rm' <- sx_list (fun y => match y with L [A k; L mods] => odo m <- sx_list rmod_of_sx mods; Some (k, m) | _ => None end) rm;
    Some {| api_package := pkg; api_modules := ms'; api_classes := cs'; api_reexport_map := rm' |}
  | _ => None
  end.

Definition sx_of_entry (e : entry) : sexp :=
  let '(dir, name, text, pk) := e in L [A dir; A name; A text; of_bool pk].

Definition sx_of_back (r : res (list entry * gst * fsys)) : sexp :=
  match r with
  | Err e => L [T"err"; sx_of_err e]
  | Ok (data, s, fs) =>
    L [T"ok"; of_list sx_of_entry data; of_list A (g_outside s);
       of_list (fun kv : str * str => L [A (fst kv); A (snd kv)]) (g_renames s); of_bool (g_tie s);
       of_list (fun kv : str * str => L [A (fst kv); A (snd kv)]) fs]
  end.
