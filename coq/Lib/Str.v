(* Strings as byte lists, with the Python string operations the tool uses.
   Definitions only (plus the tiny facts needed to make them usable); proofs live in Proofs/. *)
From Coq Require Import List Ascii String Bool Arith ZArith Lia.
Import ListNotations.

Definition str := list ascii.
Notation "$ s" := (list_ascii_of_string s%string) (at level 0, only parsing).

Definition K (s : string) : str := list_ascii_of_string s.
Definition ch_eqb := Ascii.eqb.

Fixpoint str_eqb (a b : str) : bool :=
  match a, b with
  | [], [] => true
  | x :: a', y :: b' => Ascii.eqb x y && str_eqb a' b'
  | _, _ => false
  end.

Definition nonempty {A} (l : list A) : bool := match l with [] => false | _ => true end.

Fixpoint mem_str (x : str) (l : list str) : bool :=
  match l with [] => false | y :: r => str_eqb x y || mem_str x r end.

Fixpoint mem_ch (c : ascii) (l : str) : bool :=
  match l with [] => false | y :: r => Ascii.eqb c y || mem_ch c r end.

(* ---- prefix / suffix / substring ---- *)
Fixpoint starts_with (p s : str) : bool :=
  match p, s with
  | [], _ => true
  | x :: p', y :: s' => Ascii.eqb x y && starts_with p' s'
  | _ :: _, [] => false
  end.

Definition ends_with (p s : str) : bool := starts_with (rev p) (rev s).

Fixpoint contains (p s : str) : bool :=   (* Python: p in s *)
  starts_with p s || match s with [] => false | _ :: s' => contains p s' end.

(* ---- strip (character-set semantics, as Python's lstrip/rstrip with an argument) ---- *)
Fixpoint lstrip_chars (cs s : str) : str :=
  match s with c :: r => if mem_ch c cs then lstrip_chars cs r else s | [] => [] end.
Definition rstrip_chars (cs s : str) : str := rev (lstrip_chars cs (rev s)).
Definition strip_chars (cs s : str) : str := rstrip_chars cs (lstrip_chars cs s).

(* ---- split / join ---- *)
(* Python s.split(c) for a one-character separator: never returns [] *)
Fixpoint split_ch (c : ascii) (s : str) : list str :=
  match s with
  | [] => [[]]
  | x :: r =>
    if Ascii.eqb x c then [] :: split_ch c r
    else match split_ch c r with
         | p :: ps => (x :: p) :: ps
         | [] => [[x]]
         end
  end.

(* Python s.split(sep) for a non-empty multi-character separator; fuel = length s + 1 *)
Fixpoint skipn_str (n : nat) (s : str) : str :=
  match n, s with O, _ => s | S n', _ :: r => skipn_str n' r | S _, [] => [] end.

Fixpoint split_str_go (fuel : nat) (sep s cur : str) : list str :=
  match fuel with
  | O => [rev cur ++ s]
  | S f =>
    match s with
    | [] => [rev cur]
    | x :: r =>
      if starts_with sep s then rev cur :: split_str_go f sep (skipn_str (List.length sep) s) []
      else split_str_go f sep r (x :: cur)
    end
  end.
Definition split_str (sep s : str) : list str := split_str_go (S (List.length s)) sep s [].

Fixpoint join (sep : str) (l : list str) : str :=
  match l with
  | [] => []
  | [x] => x
  | x :: r => x ++ sep ++ join sep r
  end.

Definition replace_all (old new s : str) : str :=
  match old with [] => s | _ => join new (split_str old s) end.

(* str.replace for one- and two-character patterns, by structural recursion (leftmost, non-overlapping) *)
Fixpoint replace1 (c : ascii) (new s : str) : str :=
  match s with
  | [] => []
  | x :: r => if Ascii.eqb x c then new ++ replace1 c new r else x :: replace1 c new r
  end.

Fixpoint replace2 (a b : ascii) (new s : str) : str :=
  match s with
  | x :: t =>
    match t with
    | y :: r => if Ascii.eqb x a && Ascii.eqb y b then new ++ replace2 a b new r else x :: replace2 a b new t
    | [] => s
    end
  | [] => s
  end.

Definition replace_pat (old new s : str) : str :=
  match old with
  | [c] => replace1 c new s
  | [a; b] => replace2 a b new s
  | _ => replace_all old new s
  end.

(* text.replace(a1, b1).replace(a2, b2)... *)
Definition replace_chain (pairs : list (str * str)) (s : str) : str :=
  fold_left (fun acc p => replace_pat (fst p) (snd p) acc) pairs s.

Definition last_or {A} (d : A) (l : list A) : A := List.last l d.

(* l[:-1] *)
Definition drop_last {A} (l : list A) : list A := removelast l.

(* ---- case ---- *)
Definition is_lower (c : ascii) : bool := let n := nat_of_ascii c in (97 <=? n) && (n <=? 122).
Definition is_upper (c : ascii) : bool := let n := nat_of_ascii c in (65 <=? n) && (n <=? 90).
Definition is_digit (c : ascii) : bool := let n := nat_of_ascii c in (48 <=? n) && (n <=? 57).
Definition upper (c : ascii) : ascii := if is_lower c then ascii_of_nat (nat_of_ascii c - 32) else c.
Definition lower (c : ascii) : ascii := if is_upper c then ascii_of_nat (nat_of_ascii c + 32) else c.
Definition is_alpha (c : ascii) : bool := is_lower c || is_upper c.
Definition is_ident_start (c : ascii) : bool := is_alpha c || Ascii.eqb c "_"%char.
Definition is_ident_char (c : ascii) : bool := is_ident_start c || is_digit c.
Definition ascii_ident (s : str) : bool := forallb is_ident_char s.
Definition is_ident (s : str) : bool :=
  match s with [] => false | c :: r => is_ident_start c && forallb is_ident_char r end.

(* ---- ordering (byte-wise lexicographic = code-point order on UTF-8) and sorting ---- *)
Fixpoint str_leb (a b : str) : bool :=
  match a, b with
  | [], _ => true
  | _ :: _, [] => false
  | x :: a', y :: b' =>
    let nx := nat_of_ascii x in let ny := nat_of_ascii y in
    if nx <? ny then true else if ny <? nx then false else str_leb a' b'
  end.

Section Sort.
  Context {A : Type} (leb : A -> A -> bool).
  (* stable insertion sort: x (earlier in the list than everything in l) goes before the first y with x <= y *)
  Fixpoint insert_front (x : A) (l : list A) : list A :=
    match l with
    | [] => [x]
    | y :: r => if leb x y then x :: l else y :: insert_front x r
    end.
  Fixpoint isort (l : list A) : list A :=
    match l with [] => [] | x :: r => insert_front x (isort r) end.
End Sort.

Definition sort_str (l : list str) : list str := isort str_leb l.
Definition sort_by_key {A} (key : A -> str) (l : list A) : list A :=
  isort (fun a b => str_leb (key a) (key b)) l.

Fixpoint dedupe (l : list str) : list str :=   (* keeps first occurrences *)
  match l with
  | [] => []
  | x :: r => x :: filter (fun y => negb (str_eqb x y)) (dedupe r)
  end.

(* ---- numbers ---- *)
Definition digit_ch (n : nat) : ascii := ascii_of_nat (48 + n).
Fixpoint nat_dec_go (fuel n : nat) (acc : str) : str :=
  match fuel with
  | O => acc
  | S f => let acc' := digit_ch (n mod 10) :: acc in
           if n / 10 =? 0 then acc' else nat_dec_go f (n / 10) acc'
  end.
Definition nat_dec (n : nat) : str := nat_dec_go (S n) n [].

Fixpoint pos_dec_go (fuel : nat) (p : Z) (acc : str) : str :=
  match fuel with
  | O => acc
  | S f => let acc' := digit_ch (Z.to_nat (p mod 10)) :: acc in
           if (p / 10 =? 0)%Z then acc' else pos_dec_go f (p / 10)%Z acc'
  end.
Definition Z_dec (z : Z) : str :=
  let a := Z.abs z in
  let ds := pos_dec_go (S (Z.to_nat (Z.log2 a))) a [] in
  if (z <? 0)%Z then "-"%char :: ds else ds.

Fixpoint dec_to_Z_go (s : str) (acc : Z) : option Z :=
  match s with
  | [] => Some acc
  | c :: r => if is_digit c then dec_to_Z_go r (acc * 10 + Z.of_nat (nat_of_ascii c - 48))%Z else None
  end.
Definition dec_to_Z (s : str) : option Z :=
  match s with
  | [] => None
  | c :: r => if Ascii.eqb c "-"%char then
                match r with [] => None | _ => option_map Z.opp (dec_to_Z_go r 0%Z) end
              else dec_to_Z_go s 0%Z
  end.

Definition nl : ascii := ascii_of_nat 10.
Definition NL : str := [nl].
