(* Interchange format between the Python harness and the model: S-expressions whose atoms are
   '#' followed by the hex digits of the atom's bytes.  Parser and printer are Gallina, so the same
   input line can be evaluated by the extracted OCaml and by vm_compute inside Coq. *)
From Coq Require Import List Ascii String Bool Arith ZArith.
From SV Require Import Lib.Str.
Import ListNotations.

Inductive sexp := A (s : str) | L (l : list sexp).

Definition hexval (c : ascii) : option nat :=
  let n := nat_of_ascii c in
  if (48 <=? n) && (n <=? 57) then Some (n - 48)
  else if (97 <=? n) && (n <=? 102) then Some (n - 87)
  else None.

Definition hexdigit (n : nat) : ascii :=
  if n <? 10 then ascii_of_nat (48 + n) else ascii_of_nat (87 + n).

(* parser state: stack of open lists, current list (reversed), atom under construction *)
Record pstate := { p_stack : list (list sexp); p_cur : list sexp;
                   p_atom : option (list ascii * option nat); p_err : bool }.

Definition close_atom (st : pstate) : pstate :=
  match p_atom st with
  | None => st
  | Some (bytes, None) => {| p_stack := p_stack st; p_cur := A (rev bytes) :: p_cur st; p_atom := None; p_err := p_err st |}
  | Some (_, Some _) => {| p_stack := p_stack st; p_cur := p_cur st; p_atom := None; p_err := true |}
  end.

Definition pstep (st : pstate) (c : ascii) : pstate :=
  match p_atom st with
  | Some (bytes, pend) =>
    match hexval c with
    | Some v =>
      match pend with
      | None => {| p_stack := p_stack st; p_cur := p_cur st; p_atom := Some (bytes, Some v); p_err := p_err st |}
      | Some hi => {| p_stack := p_stack st; p_cur := p_cur st;
                      p_atom := Some (ascii_of_nat (16 * hi + v) :: bytes, None); p_err := p_err st |}
      end
    | None =>
      let st' := close_atom st in
      if Ascii.eqb c "("%char then {| p_stack := p_cur st' :: p_stack st'; p_cur := []; p_atom := None; p_err := p_err st' |}
      else if Ascii.eqb c ")"%char then
        match p_stack st' with
        | top :: rest => {| p_stack := rest; p_cur := L (rev (p_cur st')) :: top; p_atom := None; p_err := p_err st' |}
        | [] => {| p_stack := []; p_cur := []; p_atom := None; p_err := true |}
        end
      else if Ascii.eqb c "#"%char then {| p_stack := p_stack st'; p_cur := p_cur st'; p_atom := Some ([], None); p_err := p_err st' |}
      else st'
    end
  | None =>
    if Ascii.eqb c "("%char then {| p_stack := p_cur st :: p_stack st; p_cur := []; p_atom := None; p_err := p_err st |}
    else if Ascii.eqb c ")"%char then
      match p_stack st with
      | top :: rest => {| p_stack := rest; p_cur := L (rev (p_cur st)) :: top; p_atom := None; p_err := p_err st |}
      | [] => {| p_stack := []; p_cur := []; p_atom := None; p_err := true |}
      end
    else if Ascii.eqb c "#"%char then {| p_stack := p_stack st; p_cur := p_cur st; p_atom := Some ([], None); p_err := p_err st |}
    else st
  end.

Definition parse_sexp (s : str) : option sexp :=
  let st := close_atom (fold_left pstep s {| p_stack := []; p_cur := []; p_atom := None; p_err := false |}) in
  if p_err st then None else
  match p_stack st, p_cur st with
  | [], [x] => Some x
  | _, _ => None
  end.

Fixpoint hex_of (s : str) : str :=
  match s with
  | [] => []
  | c :: r => let n := nat_of_ascii c in hexdigit (n / 16) :: hexdigit (n mod 16) :: hex_of r
  end.

Fixpoint print_sexp (x : sexp) : str :=
  match x with
  | A s => "#"%char :: hex_of s
  | L l => "("%char :: (fix go (l : list sexp) : str :=
                          match l with
                          | [] => [")"%char]
                          | [y] => print_sexp y ++ [")"%char]
                          | y :: r => print_sexp y ++ " "%char :: go r
                          end) l
  end.

(* ---- decoding helpers ---- *)
Definition sx_str (x : sexp) : option str := match x with A s => Some s | _ => None end.
Definition sx_bool (x : sexp) : option bool :=
  match x with A [c] => if Ascii.eqb c "1"%char then Some true else if Ascii.eqb c "0"%char then Some false else None | _ => None end.
Definition sx_Z (x : sexp) : option Z := match x with A s => dec_to_Z s | _ => None end.
Definition sx_nat (x : sexp) : option nat := match sx_Z x with Some z => Some (Z.to_nat z) | None => None end.

Fixpoint sx_list {T} (f : sexp -> option T) (l : list sexp) : option (list T) :=
  match l with
  | [] => Some []
  | x :: r => match f x, sx_list f r with Some y, Some ys => Some (y :: ys) | _, _ => None end
  end.
Definition sx_listof {T} (f : sexp -> option T) (x : sexp) : option (list T) :=
  match x with L l => sx_list f l | _ => None end.
Definition sx_opt {T} (f : sexp -> option T) (x : sexp) : option (option T) :=
  match x with
  | L [] => Some None
  | L [y] => match f y with Some v => Some (Some v) | None => None end
  | _ => None
  end.

(* ---- encoding helpers ---- *)
Definition of_bool (b : bool) : sexp := A (if b then $"1" else $"0").
Definition of_Z (z : Z) : sexp := A (Z_dec z).
Definition of_nat (n : nat) : sexp := A (nat_dec n).
Definition of_list {T} (f : T -> sexp) (l : list T) : sexp := L (map f l).
Definition of_opt {T} (f : T -> sexp) (o : option T) : sexp := match o with None => L [] | Some v => L [f v] end.
