(* The documented structural mapping from Python type hints (as mypy presents them) to Safe-DS type text, written
   directly on mypy types, without the API type in between.  Reading of property C05:
     int/str/bool/float -> Int/String/Boolean/Float, None -> Nothing?, list/Sequence/Collection -> List,
     dict/Mapping -> Map, set -> Set, tuple -> Tuple, unions -> union with duplicates removed ('T?' when the only
     other member is Nothing?), Literal -> literal, Callable -> callable type, classes and generic classes -> their
     names, type variables -> their names.
   The normal form of a union (sort, duplicates removed, Nothing? last, the T? shorthand) is the generator's own
   finish_union; that it depends only on the set of members is Properties/C05.v (C05_union_is_a_set). *)
From Coq Require Import List Ascii String Bool Arith ZArith.
From SV Require Import Lib.Str Model.Types Model.Naming Model.Api Model.Back Model.View.
Import ListNotations.

Definition spec_basic : list (str * str) :=
  [(K"int", K"Int"); (K"str", K"String"); (K"bool", K"Boolean"); (K"float", K"Float")].
Definition spec_list_like : list str := [K"list"; K"Sequence"; K"Collection"].
Definition spec_map_like : list str := [K"dict"; K"Mapping"].

Definition is_mlit (m : mtype) : bool := match m with MLit _ => true | _ => false end.

(* a union member that lets 'X | None' be written 'X?' : a class, a builtin scalar, a list, set, map or tuple *)
Definition nullable_member (m : mtype) : bool :=
  match m with
  | MInst n _ args =>
    if mem_str n (map fst spec_basic) || mem_str n spec_list_like || str_eqb n (K"set") || str_eqb n (K"tuple")
       || mem_str n spec_map_like then true
    else match args with [] => true | _ => false end
  | MTuple _ => true
  | MAny _ _ => true
  | _ => false
  end.

Section Ref.
  Variable nc : bool.
  Definition seq_text (name : str) (args : list str) : str :=
    match args with [] => name ++ K"<Any>" | _ => name ++ K"<" ++ join (K", ") args ++ K">" end.

  Fixpoint ref (m : mtype) : str :=
    let refs := fix refs (l : list mtype) : list str := match l with [] => [] | x :: r => ref x :: refs r end in
    match m with
    | MInst n _ args =>
      match lookup_pair n spec_basic with
      | Some t => t
      | None =>
        if mem_str n spec_list_like then seq_text (K"List") (refs args)
        else if str_eqb n (K"set") then seq_text (K"Set") (refs args)
        else if str_eqb n (K"tuple") then K"Tuple<" ++ join (K", ") (refs args) ++ K">"
        else if mem_str n spec_map_like then
          match args with k :: v :: _ => K"Map<" ++ ref k ++ K", " ++ ref v ++ K">" | _ => [] end
        else match args with [] => n | _ => seq_text n (refs args) end
      end
    | MTuple items => K"Tuple<" ++ join (K", ") (refs items) ++ K">"
    | MUnion items => finish_union (existsb nullable_member items) (refs items)
    | MNone => K"Nothing?"
    | MLit v => K"literal<" ++ render_lit v ++ K">"
    | MCallable args ret _ =>
      let params := numbered_names nc "param_" (refs args) in
      let multi := fun rs => K"(" ++ join (K", ") params ++ K") -> (" ++ join (K", ") (numbered_names nc "result_" (refs rs)) ++ K")" in
      match ret with
      | MTuple rs => multi rs
      | MInst n _ rs => if str_eqb n (K"tuple") then multi rs
                        else K"(" ++ join (K", ") params ++ K") -> " ++ conv nc (K"result_1") ++ K": " ++ ref ret
      | MNone => K"(" ++ join (K", ") params ++ K") -> ()"
      | _ => K"(" ++ join (K", ") params ++ K") -> " ++ conv nc (K"result_1") ++ K": " ++ ref ret
      end
    | MTypeVar n _ => conv_esc nc n
    | MAny _ _ => K"Any"
    | MUnbound _ _ | MRaw _ | MOther _ _ _ => K"unknown"
    end.
End Ref.

(* the annotations the statement of C05 quantifies over, as mypy presents them *)
Definition reserved_class_name (n : str) : bool :=
  mem_str n [K"int"; K"str"; K"bool"; K"float"; K"None"; K"list"; K"Sequence"; K"Collection"; K"dict"; K"Mapping"; K"set"; K"tuple"].

Definition is_object_inst_spec (m : mtype) : bool :=
  match m with MInst _ f _ => str_eqb f (K"builtins.object") | _ => false end.

Fixpoint c05_dom (m : mtype) : bool :=
  let all := fix all (l : list mtype) : bool := match l with [] => true | x :: r => c05_dom x && all r end in
  match m with
  | MInst n q args =>
    negb (str_eqb q (K"builtins.None")) &&
    (if mem_str n (map fst spec_basic) then true
     else if mem_str n spec_list_like || str_eqb n (K"set") || str_eqb n (K"tuple") then all args
     else if mem_str n spec_map_like then match args with [k; v] => c05_dom k && c05_dom v | _ => false end
     else negb (reserved_class_name n) && all args)
  | MTuple items => all items
  | MUnion items => all items && forallb (fun x => negb (is_mlit x)) items
  | MTypeVar n ub => negb (str_eqb n (K"Self")) && (is_object_inst_spec ub || c05_dom ub)
  | MCallable args ret _ => all args && c05_dom ret
  | MAny toa _ => negb (str_eqb toa (K"from_unimported_type"))
  | MNone | MLit _ => true
  | MUnbound _ _ | MRaw _ | MOther _ _ _ => false
  end.
