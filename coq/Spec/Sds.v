(* Specification side: the lexical structure of a Safe-DS stub file, written from the language definition and not
   from the generator.  A character scanner with the states code / line comment / block comment / string /
   back-quoted identifier, and bracket depths.  [lex_ok] = the text ends in code state with every bracket, brace,
   comment, string and back-quote closed. *)
From Coq Require Import List Ascii String Bool Arith.
From SV Require Import Lib.Str.
Import ListNotations.

Inductive mode :=
| MCode            (* ordinary code *)
| MSlash           (* code, a '/' has just been read *)
| MLine            (* inside // ... until end of line *)
| MBlock           (* inside /* ... *)
| MBlockStar       (* inside a block comment, a '*' has just been read *)
| MStr             (* inside "..." *)
| MStrEsc          (* inside a string, after a backslash *)
| MBq.             (* inside `...` *)

Record sstate := { s_mode : mode; s_paren : nat; s_brace : nat; s_angle : nat; s_minus : bool; s_err : bool }.

Definition st0 : sstate := {| s_mode := MCode; s_paren := 0; s_brace := 0; s_angle := 0; s_minus := false; s_err := false |}.

Definition with_mode (m : mode) (s : sstate) : sstate :=
  {| s_mode := m; s_paren := s_paren s; s_brace := s_brace s; s_angle := s_angle s; s_minus := false; s_err := s_err s |}.
Definition with_err (s : sstate) : sstate :=
  {| s_mode := s_mode s; s_paren := s_paren s; s_brace := s_brace s; s_angle := s_angle s; s_minus := false; s_err := true |}.

Definition is_c (c : ascii) (x : string) : bool := match x with String y EmptyString => Ascii.eqb c y | _ => false end.

(* one character in code state *)
Definition code_step (s : sstate) (c : ascii) : sstate :=
  if is_c c "/" then with_mode MSlash s
  else if is_c c """" then with_mode MStr s
  else if is_c c "`" then with_mode MBq s
  else if is_c c "(" then {| s_mode := MCode; s_paren := S (s_paren s); s_brace := s_brace s; s_angle := s_angle s; s_minus := false; s_err := s_err s |}
  else if is_c c ")" then
    match s_paren s with
    | O => with_err (with_mode MCode s)
    | S n => {| s_mode := MCode; s_paren := n; s_brace := s_brace s; s_angle := s_angle s; s_minus := false; s_err := s_err s |}
    end
  else if is_c c "{" then {| s_mode := MCode; s_paren := s_paren s; s_brace := S (s_brace s); s_angle := s_angle s; s_minus := false; s_err := s_err s |}
  else if is_c c "}" then
    match s_brace s with
    | O => with_err (with_mode MCode s)
    | S n => {| s_mode := MCode; s_paren := s_paren s; s_brace := n; s_angle := s_angle s; s_minus := false; s_err := s_err s |}
    end
  else if is_c c "<" then {| s_mode := MCode; s_paren := s_paren s; s_brace := s_brace s; s_angle := S (s_angle s); s_minus := false; s_err := s_err s |}
  else if is_c c ">" then
    if s_minus s then with_mode MCode s     (* the arrow -> is not a bracket *)
    else match s_angle s with
         | O => with_err (with_mode MCode s)
         | S n => {| s_mode := MCode; s_paren := s_paren s; s_brace := s_brace s; s_angle := n; s_minus := false; s_err := s_err s |}
         end
  else if is_c c "-" then {| s_mode := MCode; s_paren := s_paren s; s_brace := s_brace s; s_angle := s_angle s; s_minus := true; s_err := s_err s |}
  else with_mode MCode s.

Definition scan_step (s : sstate) (c : ascii) : sstate :=
  match s_mode s with
  | MCode => code_step s c
  | MSlash =>
    if is_c c "/" then with_mode MLine s
    else if is_c c "*" then with_mode MBlock s
    else code_step (with_mode MCode s) c
  | MLine => if Ascii.eqb c nl then with_mode MCode s else s
  | MBlock => if is_c c "*" then with_mode MBlockStar s else s
  | MBlockStar => if is_c c "/" then with_mode MCode s else if is_c c "*" then s else with_mode MBlock s
  | MStr =>
    if is_c c """" then with_mode MCode s
    else if is_c c "\" then with_mode MStrEsc s
    else if Ascii.eqb c nl then with_err s
    else s
  | MStrEsc => if Ascii.eqb c nl then with_err (with_mode MStr s) else with_mode MStr s
  | MBq => if is_c c "`" then with_mode MCode s else if Ascii.eqb c nl then with_err s else s
  end.

Definition scan (s : sstate) (text : str) : sstate := fold_left scan_step text s.

Definition in_code (s : sstate) : bool :=
  match s_mode s with MCode => true | MLine => true | _ => false end.   (* a trailing line comment needs no newline *)

Definition lex_ok (text : str) : bool :=
  let s := scan st0 text in
  in_code s && negb (s_err s) && Nat.eqb (s_paren s) 0 && Nat.eqb (s_brace s) 0 && Nat.eqb (s_angle s) 0.

(* a fragment is closed when, from any clean code state, it leads back to a code state with the same depths *)
Definition clean (s : sstate) : Prop := s_mode s = MCode /\ s_minus s = false.
Definition same_depth (a b : sstate) : Prop :=
  s_paren a = s_paren b /\ s_brace a = s_brace b /\ s_angle a = s_angle b /\ s_err a = s_err b.
Definition closed (frag : str) : Prop := forall s, clean s -> clean (scan s frag) /\ same_depth s (scan s frag).

(* a legal identifier token of the language: [_a-zA-Z][_a-zA-Z0-9]* that is not a keyword, or such a word between back-quotes *)
Definition legal_ident (keywords : list str) (s : str) : bool :=
  (is_ident s && negb (mem_str s keywords))
  || match s with
     | q :: r => Ascii.eqb q "`"%char &&
                 match rev r with
                 | q' :: m => Ascii.eqb q' "`"%char && is_ident (rev m)
                 | [] => false
                 end
     | [] => false
     end.
