(* Specification side: the 33 Safe-DS keywords, written by hand from the language definition
   (independent of the table the translator reads from the code). *)
From Coq Require Import List String.
From SV Require Import Lib.Str.
Import ListNotations.
Definition spec_keywords : list str :=
  [K"_"; K"and"; K"annotation"; K"as"; K"attr"; K"class"; K"const"; K"enum"; K"false"; K"from"; K"fun";
   K"import"; K"in"; K"internal"; K"literal"; K"not"; K"null"; K"or"; K"out"; K"package"; K"pipeline";
   K"private"; K"schema"; K"static"; K"segment"; K"sub"; K"this"; K"true"; K"union"; K"unknown"; K"val";
   K"where"; K"yield"].
