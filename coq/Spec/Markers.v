(* C20: which TODO markers a declaration must carry, as a function of the declaration alone (no generator state).
   The keys are the keys of the generator's message table; "internal class as type" depends on what has been imported so far
   and is not one of the features of the statement: the theorems allow it in addition (Proofs/MarkerProofs.v: covers). *)
From Coq Require Import List String Ascii Bool Arith. Import ListNotations.
From SV Require Import Lib.Str Gen.Tables Model.Types Model.Naming Model.Api Model.Back.

Definition INTERNAL : str := K"internal class as type".

(* a list or set with several type arguments *)
Definition seq_marks (name : str) (n : nat) : list str :=
  if (2 <=? n) && mem_str name t_many_args_names then [name] else [].

(* the early exit "one literal type and one named type": nothing else is rendered *)
Definition union_short (ts : list ty) : bool :=
  let lits := filter is_literal ts in
  let others := filter (fun x => negb (is_literal x)) ts in
  let merged := 2 <=? List.length lits in
  let n_members := if merged then S (List.length others) else List.length ts in
  Nat.eqb n_members 2 && nonempty lits &&
  (if merged then match others with [o] => is_named o | _ => false end
   else match ts with [x; y] => is_named x || is_named y | _ => false end).

(* markers of a type: every tuple, every set, every unknown, every sequence with several arguments, at any depth of the
   positions that are rendered (the result tuple of a callable is a result list, not a tuple type) *)
Fixpoint tmarks (t : ty) : list str :=
  match t with
  | TNamed _ _ => []
  | TFinal t' => tmarks t'
  | TCallable ps r =>
    flat_map tmarks ps ++
    match r with
    | TTuple rs => flat_map tmarks rs
    | TNamed rn _ => if str_eqb rn (K"None") then [] else tmarks r
    | _ => tmarks r
    end
  | TSet ts => flat_map tmarks ts ++ [K"no set support"] ++ seq_marks (K"Set") (List.length ts)
  | TList ts => flat_map tmarks ts ++ seq_marks (K"List") (List.length ts)
  | TNamedSeq name _ ts => flat_map tmarks ts ++ seq_marks name (List.length ts)
  | TUnknown => [K"unknown"]
  | TUnion ts =>
    if union_short ts then []
    else if 2 <=? List.length (filter is_literal ts)
         then flat_map (fun x => if is_literal x then [] else tmarks x) ts
         else flat_map tmarks ts
  | TTuple ts => K"no tuple support" :: flat_map tmarks ts
  | TDict k v => tmarks k ++ tmarks v
  | TLiteral _ | TTypeVar _ _ | TEnum _ | TBoundary _ _ _ _ _ => []
  end.

(* a parameter: missing type, unparsable default, its type, optional position-only, required keyword-only, variadic *)
Definition param_marks (p : param) : list str :=
  (match p_type p with
   | Some t =>
     (if p_optional p then match p_default p with DUnknown => [K"unknown value"] | _ => [] end else []) ++
     tmarks (match p_assigned p, t with POSITIONAL_VARARG, TTuple ts => TList ts | _, _ => t end)
   | None => [K"param without type"]
   end) ++
  (match p_assigned p with
   | POSITION_ONLY => if negb (default_is_none (p_default p)) then [K"OPT_POS_ONLY"] else []
   | NAME_ONLY => if negb (p_optional p) then [K"REQ_NAME_ONLY"] else []
   | _ => []
   end) ++
  (if is_vararg (p_assigned p) then [K"variadic"] else []).

(* results: those rendered before a `None` result (which ends the list) *)
Fixpoint result_marks (rs : list result) : list str :=
  match rs with
  | [] => []
  | r :: rest =>
    match r_type r with
    | None => result_marks rest
    | Some t => if is_none_result t then [] else tmarks t ++ result_marks rest
    end
  end.

Section WithNaming.
  Variable nc : bool.

  (* the rendered result items (None: a `None` result suppresses the list) *)
  Fixpoint result_texts (rs : list result) (acc : list str) : option (list str) :=
    match rs with
    | [] => Some acc
    | r :: rest =>
      match r_type r with
      | None => result_texts rest acc
      | Some t =>
        if is_none_result t then None
        else match tstr nc t with
             | [] => result_texts rest acc
             | ts => result_texts rest (acc ++ [conv_esc nc (r_name r) ++ K": " ++ ts])
             end
      end
    end.

  Definition results_marks (rs : list result) : list str :=
    result_marks rs ++ match result_texts rs [] with Some [] => [K"result without type"] | _ => [] end.

  (* the upper bounds of the type variables that are declared on the function (not those of the enclosing class) *)
  Definition tvar_marks (gens : list str) (is_method : bool) (tvs : list (str * option ty)) : list str :=
    flat_map (fun tv : str * option ty =>
                if negb is_method || negb (mem_str (conv_esc nc (fst tv)) gens)
                then match snd tv with Some ub => tmarks ub | None => [] end
                else []) tvs.

  Definition func_marks (gens : list str) (is_method : bool) (f : func) : list str :=
    (if f_classm f then [K"class_method"] else []) ++
    flat_map param_marks (if negb (f_static f) && is_method then tl (f_params f) else f_params f) ++
    tvar_marks gens is_method (f_tvars f) ++
    results_marks (f_results f).

  (* an attribute: the markers of its type, and "attr without type" when no type text is written *)
  Definition attr_text (a : attr) : str := match a_type a with Some t => tstr nc t | None => [] end.
  Definition attr_marks (a : attr) : list str :=
    (match a_type a with Some t => tmarks t | None => [] end) ++
    (match attr_text a with [] => [K"attr without type"] | _ => [] end).
  (* the attributes that are written: public ones whose type is not a bare type variable *)
  Definition attr_rendered (a : attr) : bool :=
    a_public a && negb (match a_type a with Some (TTypeVar _ _) => true | _ => false end).

  Definition property_marks (f : func) : list str :=
    tmarks (TUnion (flat_map (fun r => match r_type r with Some t => [t] | None => [] end) (f_results f))).
End WithNaming.

(* ---- the class header ---- *)
Definition MI : str := K"multiple_inheritance".
(* the names of the `sub` clause: the public superclasses in declaration order (none for an abstract class) *)
Definition class_super_names (c : cls) : list str :=
  if nonempty (c_supers c) && negb (is_abstract c)
  then map super_name (filter (fun sc => negb (is_internal (super_name sc))) (c_supers c)) else [].
Definition class_inheritance_marks (c : cls) : list str :=
  if 2 <=? List.length (class_super_names c) then [MI] else [].
(* first block: the constructor's parameters (without the receiver) and the bounds of the type parameters *)
Definition class_sig_marks (c : cls) : list str :=
  (if is_abstract c then [] else match c_ctor c with Some k => flat_map param_marks (tl (f_params k)) | None => [] end) ++
  (if nonempty (c_tparams c) || nonempty (match c_ctor c with Some k => f_tvars k | None => [] end)
   then flat_map (fun tp => match tp_type tp with Some t => tmarks t | None => [] end) (c_tparams c) else []).
