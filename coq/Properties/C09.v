(* C09  Naming conversion renames consistently and keeps Python names recoverable (function-level part). *)
From Coq Require Import List Ascii Bool.
From SV Require Import Lib.Str Model.Naming Proofs.NamingProofs.

Theorem C09_convert_off : forall c n, convert false c n = n.
Proof. exact convert_off. Qed.

Theorem C09_no_underscore : forall c name, keeps name = false -> no_us (convert true c name) = true.
Proof. exact convert_no_underscore. Qed.

(* modulo case, the converted name is the Python name without its underscores: letters and digits in order *)
Theorem C09_keeps_letters : forall c name,
  keeps name = false -> map lower (convert true c name) = map lower (remove_us name).
Proof. exact convert_keeps_letters. Qed.

Theorem C09_class_upper : forall name c r,
  keeps name = false -> convert true true name = c :: r -> is_lower c = false.
Proof. exact convert_class_upper. Qed.

Theorem C09_ident_chars : forall nc c name, ascii_ident name = true -> ascii_ident (convert nc c name) = true.
Proof. exact convert_ident_chars. Qed.

Print Assumptions C09_convert_off.
Print Assumptions C09_no_underscore.
Print Assumptions C09_keeps_letters.
Print Assumptions C09_class_upper.
Print Assumptions C09_ident_chars.
