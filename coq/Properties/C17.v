(* C17  Members of private ancestors surface once in public subclasses. *)
From Coq Require Import List String Ascii ZArith. Import ListNotations.
From Coq Require Import List Bool.
From SV Require Import Lib.Str Model.Types Model.Naming Model.Api Model.Back Proofs.GenProofs Proofs.ChainProofs.

(* the `sub` clause lists the public superclasses in declaration order and never a private one *)
Theorem C17_sub_clause : forall classes rmap inline sups names text s r s',
  super_loop classes rmap inline sups names text s = Ok (r, s') ->
  fst r = names ++ map super_name (filter (fun sc => negb (is_internal (super_name sc))) sups).
Proof. exact super_loop_names. Qed.

Theorem C17_no_private_in_sub : forall classes rmap inline sups s r s',
  super_loop classes rmap inline sups [] [] s = Ok (r, s') -> Forall (fun n => is_internal n = false) (fst r).
Proof. exact super_loop_no_private. Qed.

(* which methods of a class (own class, or inlined private ancestor) are rendered, each exactly once by name *)
Theorem C17_rendered_methods : forall classes rmap nc ms inner ic already props meths names s r s',
  class_methods classes rmap nc ms inner ic already props meths names s = Ok (r, s') ->
  snd r = fold_left (fun acc m => set_add (f_name m) acc) (filter (fun m => negb (method_skipped ic already m)) ms) names.
Proof. exact class_methods_names. Qed.

(* the subclass's own definition (and anything already shown) takes precedence over an inherited one *)
Theorem C17_own_definition_wins : forall classes rmap nc m rest inner ic already props meths names,
  mem_str (f_name m) already = true ->
  class_methods classes rmap nc (m :: rest) inner ic already props meths names =
  class_methods classes rmap nc rest inner ic already props meths names.
Proof. exact already_defined_not_inlined. Qed.

Theorem C17_private_named_members_stay_hidden : forall m ic already,
  f_public m = false -> is_internal (f_name m) = true -> method_skipped ic already m = true.
Proof. exact internal_named_method_skipped. Qed.

(* precedence along a chain of private ancestors: a level renders only names that neither the subclass nor a nearer ancestor has
   defined, every name it renders is reported (and handed on as `set_union already existing`), and whatever has been handed on is
   skipped farther up - so along a chain every name is shown at most once and by the nearest definition *)
Theorem C17_rendered_names_are_new : forall classes rmap nc ms inner ic already s r s',
  class_method_string classes rmap nc ms inner ic already s = Ok (r, s') ->
  forall n, In n (snd r) -> ~ In n already /\ exists m, In m ms /\ f_name m = n /\ method_skipped ic already m = false.
Proof. exact rendered_names_are_new. Qed.
Theorem C17_rendered_names_are_reported : forall classes rmap nc ms inner ic already s r s' m,
  class_method_string classes rmap nc ms inner ic already s = Ok (r, s') ->
  In m ms -> method_skipped ic already m = false -> In (f_name m) (snd r).
Proof. exact rendered_names_are_reported. Qed.
Theorem C17_nearer_definition_wins : forall ic already existing m,
  In (f_name m) already \/ In (f_name m) existing -> method_skipped ic (set_union already existing) m = true.
Proof. exact nearer_definition_wins. Qed.
Print Assumptions C17_sub_clause.
Print Assumptions C17_no_private_in_sub.
Print Assumptions C17_rendered_methods.
Print Assumptions C17_own_definition_wins.
Print Assumptions C17_private_named_members_stay_hidden.
Print Assumptions C17_rendered_names_are_new.
Print Assumptions C17_rendered_names_are_reported.
Print Assumptions C17_nearer_definition_wins.
