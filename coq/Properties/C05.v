(* C05  Type hints are translated faithfully and compositionally (back end: API type -> Safe-DS type text). *)
From Coq Require Import List String Ascii ZArith. Import ListNotations.
From Coq Require Import List Bool Permutation.
From SV Require Import Lib.Str Model.Types Model.Api Model.Back Model.View Model.Front Spec.TypeMap Proofs.BackProofs Proofs.OrderProofs
     Proofs.TypeMapProofs.

(* the text written for a type is the state-free structural function tstr of the type: the same in every position,
   at every nesting depth, whatever has been rendered before *)
Theorem C05_type_text_is_structural : forall classes rmap nc t s x s',
  type_string classes rmap nc t s = Ok (x, s') -> x = tstr nc t.
Proof. exact type_string_is_tstr. Qed.

(* compositionality, read off tstr *)
Theorem C05_compositional : forall nc t ts k v n q,
  tstr nc (TList (t :: ts)) = K"List<" ++ join (K", ") (map (tstr nc) (t :: ts)) ++ K">" /\
  tstr nc (TSet (t :: ts)) = K"Set<" ++ join (K", ") (map (tstr nc) (t :: ts)) ++ K">" /\
  tstr nc (TTuple ts) = K"Tuple<" ++ join (K", ") (map (tstr nc) ts) ++ K">" /\
  tstr nc (TDict k v) = K"Map<" ++ tstr nc k ++ K", " ++ tstr nc v ++ K">" /\
  tstr nc (TNamedSeq n q (t :: ts)) = n ++ K"<" ++ join (K", ") (map (tstr nc) (t :: ts)) ++ K">" /\
  tstr nc (TFinal t) = tstr nc t.
Proof. intros. repeat split; reflexivity. Qed.

(* unions: the result depends only on the set of rendered members (order and duplicates are irrelevant) *)
Theorem C05_union_is_a_set : forall b l l', (forall x, In x l <-> In x l') -> finish_union b l = finish_union b l'.
Proof. exact finish_union_set. Qed.

Theorem C05_union_single : forall b x, finish_union b [x] = x.
Proof. exact finish_union_single. Qed.

(* END TO END (analyzer and generator composed): for every annotation of the documented grammar (c05_dom: scalars, None,
   list/Sequence/Collection, set, tuple, dict/Mapping, unions without literal members, Literal, Callable, classes, generic
   classes, type variables, Any; at any nesting depth), the analyzer translates the mypy type without error and the
   generator writes exactly the documented mapping `ref` of the annotation (Spec/TypeMap.v), in every environment of
   imports and aliases and in every position *)
Theorem C05_annotation_to_text : forall env nc m, c05_dom m = true ->
  exists t, mt1 env m = Ok (t, false) /\ tstr nc t = ref nc m.
Proof. exact annotation_text. Qed.
Theorem C05_annotation_to_generated_text : forall classes rmap env nc m t amb s x s',
  c05_dom m = true -> mt1 env m = Ok (t, amb) -> type_string classes rmap nc t s = Ok (x, s') -> x = ref nc m.
Proof. exact annotation_text_generated. Qed.
Print Assumptions C05_type_text_is_structural.
Print Assumptions C05_annotation_to_text.
Print Assumptions C05_annotation_to_generated_text.
Print Assumptions C05_compositional.
Print Assumptions C05_union_is_a_set.
Print Assumptions C05_union_single.
