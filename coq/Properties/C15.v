(* C15  The test-run flag alone controls whether test and docs directories are analysed. *)
From Coq Require Import List Bool Permutation.
From SV Require Import Lib.Str Gen.Tables Model.Types Model.Api Model.Discover Model.View Model.Front Proofs.DiscoverProofs Proofs.WalkProofs.
From SV Require Import Model.Layout Model.Run Proofs.RunProofs.

(* a globbed file is analysed iff (flag or no path segment is one of the three names) and it is not an __init__ file *)
Theorem C15_filter_spec : forall tr files f,
  In f (fst (discover tr files)) <->
  In f files /\ (tr = true \/ in_excluded_dir f = false) /\ is_init_file f = false.
Proof. exact walkable_iff. Qed.

Theorem C15_package_spec : forall tr files d,
  In d (snd (discover tr files)) <->
  exists f, In f files /\ (tr = true \/ in_excluded_dir f = false) /\ is_init_file f = true /\ parent_dir f = d.
Proof. exact package_iff. Qed.

(* exclusion is exact segment equality against the statement's three names *)
Theorem C15_exact_segments : forall f,
  in_excluded_dir f = true <-> exists d, In d t_excluded_dirs /\ In d (parts f).
Proof. exact in_excluded_dir_spec. Qed.

Theorem C15_table_is_spec :
  forallb (fun d => mem_str d spec_excluded) t_excluded_dirs && forallb (fun d => mem_str d t_excluded_dirs) spec_excluded = true.
Proof. exact excluded_table_is_spec. Qed.

Theorem C15_flag_on_all : forall files f,
  In f files -> In f (fst (discover true files)) \/ In (parent_dir f) (snd (discover true files)).
Proof. exact flag_on_all. Qed.

Theorem C15_flag_irrelevant_outside : forall files,
  Forall (fun f => in_excluded_dir f = false) files -> discover true files = discover false files.
Proof. exact flag_irrelevant_outside. Qed.

(* a module is walked only if its file passed the filter, even when mypy loaded more *)
Theorem C15_walk_respects_filter : forall graph w p x,
  In x (order_asts graph w p) ->
  In x graph /\ ((ends_with t_init_file x = true /\ In (init_package_path x) p) \/
                 (ends_with t_init_file x = false /\ In x w)).
Proof. exact walk_respects_filter. Qed.

(* WHOLE ANALYZER: every module of the API object is a tree of the build graph whose file passed the discovery filter,
   whatever else mypy loaded; without the flag, none of them lies in a directory named test, tests or docs *)
Theorem C15_front_modules_are_filtered : forall v o md,
  front v = Ok o -> In md (api_modules (o_api o)) ->
  exists m, In (GMod m) (v_graph v) /\ m_id md = dots_to_slashes (mf_fullname m) /\
    let '(walkable, packages) := discover (v_test_run v) (v_glob v) in
    ((ends_with t_init_file (mf_path m) = true /\ In (init_package_path (mf_path m)) packages) \/
     (ends_with t_init_file (mf_path m) = false /\ In (mf_path m) walkable)).
Proof. exact front_modules_are_filtered. Qed.
Theorem C15_no_module_from_excluded_directories : forall v o md,
  front v = Ok o -> v_test_run v = false -> In md (api_modules (o_api o)) ->
  exists m, In (GMod m) (v_graph v) /\ m_id md = dots_to_slashes (mf_fullname m) /\
    ((ends_with t_init_file (mf_path m) = false /\ In (mf_path m) (v_glob v) /\ in_excluded_dir (mf_path m) = false) \/
     (ends_with t_init_file (mf_path m) = true /\
      exists f, In f (v_glob v) /\ in_excluded_dir f = false /\ is_init_file f = true /\ parent_dir f = init_package_path (mf_path m))).
Proof. exact no_module_from_excluded_directories. Qed.
Theorem C15_run_modules_are_filtered : forall v nc fs0 o md,
  run v nc fs0 = Ok o -> In md (api_modules (out_api o)) ->
  exists m, In (GMod m) (v_graph v) /\ m_id md = dots_to_slashes (mf_fullname m) /\
    let '(walkable, packages) := discover (v_test_run v) (v_glob v) in
    ((ends_with t_init_file (mf_path m) = true /\ In (init_package_path (mf_path m)) packages) \/
     (ends_with t_init_file (mf_path m) = false /\ In (mf_path m) walkable)).
Proof. exact run_modules_are_filtered. Qed.
Print Assumptions C15_filter_spec.
Print Assumptions C15_package_spec.
Print Assumptions C15_exact_segments.
Print Assumptions C15_table_is_spec.
Print Assumptions C15_flag_on_all.
Print Assumptions C15_flag_irrelevant_outside.
Print Assumptions C15_walk_respects_filter.
Print Assumptions C15_front_modules_are_filtered.
Print Assumptions C15_no_module_from_excluded_directories.
Print Assumptions C15_run_modules_are_filtered.
