(* C15  The test-run flag alone controls whether test and docs directories are analysed. *)
From Coq Require Import List Bool Permutation.
From SV Require Import Lib.Str Gen.Tables Model.Discover Proofs.DiscoverProofs.

(* a globbed file is analysed iff (flag or no path segment is one of the three names) and it is not an __init__ file *)
Theorem C15_filter_spec : forall tr files f,
  In f (fst (discover tr files)) <->
  In f files /\ (tr = true \/ in_excluded_dir f = false) /\ is_init_file f = false.
Proof. exact walkable_iff. Qed.

Theorem C15_package_spec : forall tr files d,
  In d (snd (discover tr files)) <->
  exists f, In f files /\ (tr = true \/ in_excluded_dir f = false) /\ is_init_file f = true /\ parent_dir f = d.
Proof. exact package_iff. Qed.

(* exclusion is exact segment equality against the statement's three names *)
Theorem C15_exact_segments : forall f,
  in_excluded_dir f = true <-> exists d, In d t_excluded_dirs /\ In d (parts f).
Proof. exact in_excluded_dir_spec. Qed.

Theorem C15_table_is_spec :
  forallb (fun d => mem_str d spec_excluded) t_excluded_dirs && forallb (fun d => mem_str d t_excluded_dirs) spec_excluded = true.
Proof. exact excluded_table_is_spec. Qed.

Theorem C15_flag_on_all : forall files f,
  In f files -> In f (fst (discover true files)) \/ In (parent_dir f) (snd (discover true files)).
Proof. exact flag_on_all. Qed.

Theorem C15_flag_irrelevant_outside : forall files,
  Forall (fun f => in_excluded_dir f = false) files -> discover true files = discover false files.
Proof. exact flag_irrelevant_outside. Qed.

(* a module is walked only if its file passed the filter, even when mypy loaded more *)
Theorem C15_walk_respects_filter : forall graph w p x,
  In x (order_asts graph w p) ->
  In x graph /\ ((ends_with t_init_file x = true /\ In (init_package_path x) p) \/
                 (ends_with t_init_file x = false /\ In x w)).
Proof. exact walk_respects_filter. Qed.

Print Assumptions C15_filter_spec.
Print Assumptions C15_package_spec.
Print Assumptions C15_exact_segments.
Print Assumptions C15_table_is_spec.
Print Assumptions C15_flag_on_all.
Print Assumptions C15_flag_irrelevant_outside.
Print Assumptions C15_walk_respects_filter.
