(* C04  Private declarations never leak into stubs (back-end filters). *)
From Coq Require Import List String Ascii ZArith. Import ListNotations.
From Coq Require Import List Bool.
From SV Require Import Lib.Str Model.Types Model.Naming Model.Api Model.Back Proofs.GenProofs.
From SV Require Import Model.FrontSmall Model.View Model.Front Proofs.FrontProofs.

(* a method whose is_public flag is off is never rendered in its own class *)
Theorem C04_private_method_not_rendered : forall m already, f_public m = false -> method_skipped false already m = true.
Proof. exact private_method_skipped. Qed.

(* not even when its class is inlined into a public subclass, if its name is private *)
Theorem C04_private_named_method_never_rendered : forall m ic already,
  f_public m = false -> is_internal (f_name m) = true -> method_skipped ic already m = true.
Proof. exact internal_named_method_skipped. Qed.

(* attributes: only those whose is_public flag is set are rendered *)
Theorem C04_only_public_attributes : forall classes rmap nc ats inner acc names s r s',
  class_attrs classes rmap nc ats inner acc names s = Ok (r, s') ->
  snd r = fold_left (fun a n => set_add n a) (map a_name (filter attr_rendered ats)) names /\
  List.length (fst r) = List.length acc + List.length (filter attr_rendered ats).
Proof. exact class_attrs_names. Qed.

(* a private superclass is never named in the `sub` clause *)
Theorem C04_no_private_superclass_named : forall classes rmap inline sups s r s',
  super_loop classes rmap inline sups [] [] s = Ok (r, s') -> Forall (fun n => is_internal n = false) (fst r).
Proof. exact super_loop_no_private. Qed.

(* ANALYZER SIDE: the is_public flag of the API object (what the JSON marks as non-public) *)
Theorem C04_front_private_name : forall st name qname parent rest,
  vs_stack st = parent :: rest -> check_publicity_in_reexports st name qname parent = false ->
  is_internal name = true -> ends_with (K"__") name = false ->
  forall b, is_public st name qname = Ok b -> b = false.
Proof. exact private_name_not_public. Qed.
Theorem C04_front_member_of_private_class : forall st name qname c rest,
  vs_stack st = FClass c :: rest -> c_public c = false ->
  check_publicity_in_reexports st name qname (FClass c) = false ->
  (str_eqb name (K"__init__") = true \/ is_internal name = false) ->
  forall b, is_public st name qname = Ok b -> b = false.
Proof. exact member_of_private_class_not_public. Qed.
Theorem C04_front_module_level : forall st name qname m rest,
  vs_stack st = FModule m :: rest -> is_internal name = false ->
  check_publicity_in_reexports st name qname (FModule m) = false ->
  is_public st name qname = Ok (forallb (fun it => negb (is_internal it)) (removelast (split_dot qname))).
Proof. exact module_level_publicity. Qed.
Theorem C04_front_reexport_only_publishes : forall st name qname parent rest,
  vs_stack st = parent :: rest -> check_publicity_in_reexports st name qname parent = true ->
  match parent with FModule _ | FClass _ => is_public st name qname = Ok true | _ => True end.
Proof. exact reexport_only_publishes. Qed.
Print Assumptions C04_private_method_not_rendered.
Print Assumptions C04_private_named_method_never_rendered.
Print Assumptions C04_only_public_attributes.
Print Assumptions C04_no_private_superclass_named.
Print Assumptions C04_front_private_name.
Print Assumptions C04_front_member_of_private_class.
Print Assumptions C04_front_module_level.
Print Assumptions C04_front_reexport_only_publishes.
