(* C04  Private declarations never leak into stubs (back-end filters). *)
From Coq Require Import List String Ascii ZArith. Import ListNotations.
From Coq Require Import List Bool.
From SV Require Import Lib.Str Model.Types Model.Naming Model.Api Model.Back Proofs.GenProofs.

(* a method whose is_public flag is off is never rendered in its own class *)
Theorem C04_private_method_not_rendered : forall m already, f_public m = false -> method_skipped false already m = true.
Proof. exact private_method_skipped. Qed.

(* not even when its class is inlined into a public subclass, if its name is private *)
Theorem C04_private_named_method_never_rendered : forall m ic already,
  f_public m = false -> is_internal (f_name m) = true -> method_skipped ic already m = true.
Proof. exact internal_named_method_skipped. Qed.

(* attributes: only those whose is_public flag is set are rendered *)
Theorem C04_only_public_attributes : forall classes rmap nc ats inner acc names s r s',
  class_attrs classes rmap nc ats inner acc names s = Ok (r, s') ->
  snd r = fold_left (fun a n => set_add n a) (map a_name (filter attr_rendered ats)) names /\
  List.length (fst r) = List.length acc + List.length (filter attr_rendered ats).
Proof. exact class_attrs_names. Qed.

(* a private superclass is never named in the `sub` clause *)
Theorem C04_no_private_superclass_named : forall classes rmap inline sups s r s',
  super_loop classes rmap inline sups [] [] s = Ok (r, s') -> Forall (fun n => is_internal n = false) (fst r).
Proof. exact super_loop_no_private. Qed.

Print Assumptions C04_private_method_not_rendered.
Print Assumptions C04_private_named_method_never_rendered.
Print Assumptions C04_only_public_attributes.
Print Assumptions C04_no_private_superclass_named.
