(* C08  Output is a deterministic function of package contents and options (order-insensitivity of the use sites). *)
From Coq Require Import List String Ascii ZArith. Import ListNotations.
From Coq Require Import List Bool Permutation.
From SV Require Import Lib.Str Model.Types Model.Api Model.Back Model.Discover
     Proofs.SortProofs Proofs.OrderProofs Proofs.DiscoverProofs.
From SV Require Import Model.Layout Model.View Model.Front Model.Run Proofs.RunProofs.

(* the shortest public re-export does not depend on the iteration order of the candidate set when no two candidates
   of the same depth exist *)
Theorem C08_shortest_reexport_order_free : forall l l', Permutation l l' -> tie_free l -> select l = select l'.
Proof. exact select_perm. Qed.

(* ... and it does when there is a tie: the recorded finding shortest_reexport_tie *)
Theorem C08_shortest_reexport_tie_refuted : exists l l', Permutation l l' /\ select l <> select l'.
Proof. exact select_tie_refuted. Qed.

(* imports, TODO lines and union members are sorted before emission: the emitted order does not depend on the
   iteration order of the underlying sets *)
Theorem C08_sorted_emission_order_free : forall l l', Permutation l l' -> sort_str l = sort_str l'.
Proof. exact sort_str_perm. Qed.

Theorem C08_union_members_order_free : forall b l l', Permutation l l' -> finish_union b l = finish_union b l'.
Proof. exact finish_union_perm. Qed.

(* the set of analysed files does not depend on the enumeration order of the directory listing *)
Theorem C08_discovery_order_free : forall tr files files',
  Permutation files files' ->
  Permutation (fst (discover tr files)) (fst (discover tr files')) /\
  Permutation (snd (discover tr files)) (snd (discover tr files')).
Proof. exact discover_perm. Qed.

(* WHOLE TOOL: the complete result of a run (API object, log, stub data, files, error) does not depend on the order in which
   the file system enumerates the files - only on the set of enumerated paths *)
Theorem C08_run_enumeration_order_free : forall v nc fs0 g g',
  Permutation g g' -> run (with_glob v g) nc fs0 = run (with_glob v g') nc fs0.
Proof. exact run_enumeration_order_free. Qed.
Print Assumptions C08_shortest_reexport_order_free.
Print Assumptions C08_shortest_reexport_tie_refuted.
Print Assumptions C08_sorted_emission_order_free.
Print Assumptions C08_union_members_order_free.
Print Assumptions C08_discovery_order_free.
Print Assumptions C08_run_enumeration_order_free.
