(* C06  Parameter lists are reproduced exactly (back-end rendering of one parameter list). *)
From Coq Require Import List String Ascii ZArith. Import ListNotations.
From Coq Require Import List Bool ZArith.
From SV Require Import Lib.Str Model.Types Model.Naming Model.Api Model.Back Proofs.BackProofs.
From SV Require Import Model.FrontSmall Model.View Model.Front Proofs.FrontProofs Proofs.RunProofs.

(* the implicit receiver is removed by dropping exactly the first parameter *)
Theorem C06_receiver_skip : forall classes rmap nc ps indent,
  parameter_string classes rmap nc ps indent true = parameter_string classes rmap nc (tl ps) indent false.
Proof. exact receiver_skip. Qed.

(* the rendered identifier is the escaped converted Python name, annotated with the Python name iff it was renamed *)
Theorem C06_param_name : forall classes rmap nc p s f s',
  param_fields classes rmap nc p s = Ok (f, s') ->
  let '(ann, nm, ts, v) := f in
  nm = escape (convert nc false (p_name p)) /\
  (ann = None <-> convert nc false (p_name p) = p_name p) /\
  (forall x, ann = Some x -> x = p_name p).
Proof. exact param_fields_name. Qed.

(* a default value is shown exactly for optional parameters that have a type *)
Theorem C06_param_default : forall classes rmap nc p s ann nm ts v s',
  param_fields classes rmap nc p s = Ok ((ann, nm, ts, v), s') ->
  (v <> [] -> p_optional p = true /\ p_type p <> None) /\
  (p_optional p = true -> p_type p <> None -> exists d, v = K" = " ++ d).
Proof. exact param_fields_default. Qed.

(* literal defaults keep their value *)
Theorem C06_default_value : forall p s d s',
  render_default p s = Ok (d, s') ->
  match p_default p with
  | DBool b => d = if b then K"true" else K"false"
  | DNone => d = K"null"
  | DInt z => d = Z_dec z
  | DFloat r => d = r
  | DUnknown => d = K"unknown"
  | DStr x => d = requote_default x \/ (p_assigned p = POSITIONAL_VARARG /\ x = K"()" /\ d = K"[]")
  end.
Proof. exact render_default_literal. Qed.

(* ANALYZER SIDE.  One parameter of the API object: Python name, id, passing kind as Python defines it; it is optional exactly
   when the initializer yields a value (or None); and the literal defaults of the statement (int, float, str, bool, None,
   signed numbers) are stored with their value *)
Theorem C06_front_parameter : forall env d st f fid a p tv lg amb,
  parse_parameter env d st f fid a = Ok (p, tv, lg, amb) ->
  p_name p = ar_name a /\ p_id p = fid ++ K"/" ++ ar_name a /\
  p_assigned p = spec_kind (ar_is_self a || ar_is_cls a) (ar_pos_only a) (ar_kind a) /\
  (p_optional p = true <-> exists e, ar_init a = Some e /\ (fst (fst (default_of fid e)) <> None \/ snd (fst (default_of fid e)) = true)) /\
  (forall e v, ar_init a = Some e -> signed_literal e = Some v -> p_default p = dval_of_pyval v).
Proof. exact parse_parameter_shape. Qed.
Theorem C06_front_literal_default : forall fid e v, signed_literal e = Some v ->
  default_of fid e = (v, match v with None => true | Some _ => false end, []).
Proof. exact default_of_literal. Qed.
(* END TO END: a parameter whose initializer is a literal of the statement (int, float, str, bool, None, signed number) is
   optional and the generator writes its default with the same value: the decimal / repr text of a number, true / false, null,
   and for a string the quoted text with its content escaped *)
Theorem C06_literal_default_end_to_end : forall env d st f fid a p tv lg amb e v s,
  parse_parameter env d st f fid a = Ok (p, tv, lg, amb) -> ar_init a = Some e -> signed_literal e = Some v ->
  p_assigned p <> POSITIONAL_VARARG ->
  p_optional p = true /\ render_default p s = Ok (literal_text v, s) /\
  (forall x, e = EStr x -> literal_text v = quoted (escape_string_content x)).
Proof. exact literal_default_end_to_end. Qed.
Print Assumptions C06_receiver_skip.
Print Assumptions C06_param_name.
Print Assumptions C06_param_default.
Print Assumptions C06_default_value.
Print Assumptions C06_front_parameter.
Print Assumptions C06_front_literal_default.
Print Assumptions C06_literal_default_end_to_end.
