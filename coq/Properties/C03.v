(* C03  Every public declaration appears in the stubs exactly once (back-end filters: what a class body contains). *)
From Coq Require Import List String Ascii ZArith. Import ListNotations.
From Coq Require Import List Bool.
From SV Require Import Lib.Str Model.Types Model.Naming Model.Api Model.Back Proofs.GenProofs.
From SV Require Import Model.FrontSmall Model.View Model.Front Proofs.WalkProofs Proofs.AttrProofs Proofs.WalkerTableProofs Proofs.ModuleProofs Model.Run Proofs.RunMoreProofs Proofs.ClassMarkerProofs Proofs.EnumProofs.

(* the attribute block contains one entry per public attribute (type-variable attributes excepted), no more *)
Theorem C03_class_attributes_once : forall classes rmap nc ats inner acc names s r s',
  class_attrs classes rmap nc ats inner acc names s = Ok (r, s') ->
  snd r = fold_left (fun a n => set_add n a) (map a_name (filter attr_rendered ats)) names /\
  List.length (fst r) = List.length acc + List.length (filter attr_rendered ats).
Proof. exact class_attrs_names. Qed.

(* the method block renders exactly the methods that are not skipped *)
Theorem C03_class_methods : forall classes rmap nc ms inner ic already props meths names s r s',
  class_methods classes rmap nc ms inner ic already props meths names s = Ok (r, s') ->
  snd r = fold_left (fun acc m => set_add (f_name m) acc) (filter (fun m => negb (method_skipped ic already m)) ms) names.
Proof. exact class_methods_names. Qed.

(* ANALYZER SIDE, for every module tree, every alias table, every docstring answer and every state of the walk: the module
   record holds the module's function definitions (plain and decorated), its classes and its enums - each exactly once,
   in source order, under its Python name.  (Module-level overloads, assignments and other statements are not walked:
   the walker's child filter, read off the source, is `module_child`.) *)
Theorem C03_front_module_inventory : forall al d pref_doc warn st m st' w,
  walk_module al d pref_doc warn st m = Ok (st', w) -> vs_stack st = [] ->
  exists md, vs_modules st' = dict_set (m_id md) md (vs_modules st) /\ m_id md = dots_to_slashes (mf_fullname m) /\
    map f_name (m_functions md) = map fn_name (member_funcs (walked m)) /\
    map f_id (m_functions md) = map (fun f => m_id md ++ K"/" ++ fn_name f) (member_funcs (walked m)) /\
    map c_name (m_classes md) = map cd_name (member_classes (walked m)) /\
    map c_id (m_classes md) = map (fun c => m_id md ++ K"/" ++ cd_name c) (member_classes (walked m)) /\
    map e_name (m_enums md) = map cd_name (member_enums (walked m)) /\
    map e_id (m_enums md) = map (fun c => m_id md ++ K"/" ++ cd_name c) (member_enums (walked m)).
Proof. exact module_inventory. Qed.
(* ... and the same for a class: the class record lists the functions its members stand for (definitions, decorated definitions,
   implementations of overloads, getters of properties with setters; the constructor is kept apart) and its nested classes
   (enums nested in classes are not registered: a defect outside the checked domain, DESIGN 0.5) exactly once, in order *)
Theorem C03_front_class_inventory : forall al d pref_doc warn st c st' w top rest,
  walk_member al d pref_doc warn st (CMClass c) = Ok (st', w) -> is_enum_def c = false -> vs_stack st = top :: rest ->
  exists cl, vs_stack st' = add_cls top cl :: rest /\ c_name cl = cd_name c /\ c_id cl = id_from_stack st (cd_name c) /\
    map f_name (c_methods cl) = map fn_name (class_method_defs (class_walked c)) /\
    map f_id (c_methods cl) = map (fun f => c_id cl ++ K"/" ++ fn_name f) (class_method_defs (class_walked c)) /\
    map c_name (c_classes cl) = map cd_name (member_classes (class_walked c)) /\
    map c_id (c_classes cl) = map (fun x => c_id cl ++ K"/" ++ cd_name x) (member_classes (class_walked c)).
Proof. exact class_inventory. Qed.
(* attributes: for every view, every class of the result - in the module trees and in the flat class dictionary, at any nesting
   depth (cls_ok is the deep predicate) - lists at most one attribute per name: the first definition wins across statements
   and within one statement (level = level = 1 was registered twice before fix e8e6187) *)
Theorem C03_front_attribute_names_unique : forall v o, front v = Ok o ->
  Forall (fun m => Forall cls_ok (m_classes m)) (api_modules (o_api o)) /\
  Forall (fun kv : str * cls => cls_ok (snd kv)) (api_classes (o_api o)).
Proof. exact front_attribute_names_unique. Qed.
(* what cls_ok says, one level unfolded *)
Theorem C03_cls_ok_unfolded : forall c, cls_ok c -> NoDup (map a_name (c_attrs c)) /\ Forall cls_ok (c_classes c).
Proof. exact cls_ok_unfolded. Qed.
(* the child filters of the inventory theorems (module_child, class_child, enum_child, is_enum_def) ARE the sets written in
   ASTWalker.__walk / __is_enum: the tables t_walker_* are regenerated from the source on every run *)
Theorem C03_module_child_is_the_source_set : forall m, other_ok m = true ->
  module_child m = mem_str (member_class m) Gen.Tables.t_walker_module_children.
Proof. exact module_child_is_table. Qed.
Theorem C03_class_child_is_the_source_set : forall m, other_ok m = true ->
  class_child m = mem_str (member_class m) Gen.Tables.t_walker_class_children.
Proof. exact class_child_is_table. Qed.
Theorem C03_enum_child_is_the_source_set : forall m, other_ok m = true ->
  enum_child m = mem_str (member_class m) Gen.Tables.t_walker_enum_children.
Proof. exact enum_child_is_table. Qed.
Theorem C03_enum_test_is_the_source_test : forall c,
  is_enum_def c = existsb (fun b => match be_fullname b with Some f => mem_str f Gen.Tables.t_enum_base_names | None => false end) (cd_bases c).
Proof. exact is_enum_def_is_table. Qed.
(* GENERATOR SIDE, module level: the text of a module stub is its comment, header and import block followed by exactly one piece per
   function, class and enum of the module record, in order; the piece of a function that is not public, and of a class that is
   not public or derives from an exception, is empty, every other piece is the rendering of that very declaration (C03 and C04) *)
Theorem C03_module_stub_inventory : forall classes rmap nc m s text pkg s',
  module_string classes rmap nc m s = Ok ((text, pkg), s') ->
  exists rx fs cs,
    Forall2 (function_piece classes rmap nc rx) (m_functions m) fs /\
    Forall2 (class_piece classes rmap nc rx) (m_classes m) cs /\
    text = (match sds_docstring_description (m_doc m) [] with [] => [] | d => d ++ NL end) ++
           module_header nc pkg ++ imports_string nc s' ++ cat fs ++ cat cs ++
           cat (map (fun e => NL ++ enum_string nc e ++ NL) (m_enums m)).
Proof. exact module_string_inventory. Qed.
(* ... of every completed run of the whole tool: the API object the stubs and the JSON file are made from *)
Theorem C03_run_attribute_names_unique : forall v nc fs0 out, run v nc fs0 = Ok out ->
  Forall (fun m => Forall cls_ok (m_classes m)) (api_modules (out_api out)) /\
  Forall (fun kv : str * cls => cls_ok (snd kv)) (api_classes (out_api out)).
Proof. exact run_attribute_names_unique. Qed.
(* a method is rendered in place (never moved to the stub of a re-exporting package: the branch that moves a declaration
   returns the empty text and is open to module-level functions and classes only) *)
Theorem C03_method_is_rendered_in_place : forall classes rmap nc f indent rx s x s',
  function_string classes rmap nc f indent true rx s = Ok (x, s') -> g_todos s = [] -> x <> [].
Proof. exact method_is_rendered_in_place. Qed.
(* ENUM MEMBERS.  Analyzer: leaving an assignment statement inside an enum body never fails and appends exactly the instances
   the statement named (several targets included), in order and each once, to the enum on the stack; each is registered
   under its id; attributes, classes, functions, enums, modules and every frame below stay as they are *)
Theorem C03_enum_assignment_adds_its_instances : forall st items e r,
  vs_stack st = FAssign items :: FEnum e :: r ->
  exists st', leave_assign st = Ok st' /\
    vs_stack st' = FEnum (enum_add_instances e (flat_map inst_of items)) :: r /\
    vs_attrs st' = vs_attrs st /\ vs_enums st' = vs_enums st /\ vs_classes st' = vs_classes st /\
    vs_functions st' = vs_functions st /\ vs_modules st' = vs_modules st /\
    vs_enum_insts st' = fold_left (fun d kv => dict_set (fst kv) (snd kv) d) (flat_map inst_of items) (vs_enum_insts st).
Proof. exact leave_assign_enum. Qed.
(* ... and one whole assignment statement of an enum body (entry, then exit): the enum on the stack gains exactly the names the
   statement assigns - targets left to right, tuple targets flattened - under the ids <enum id>/<name>, after the instances
   it had; the exit cannot fail once the entry has succeeded *)
Theorem C03_enum_statement_adds_assigned_names : forall al d st lvs ut st1 w e r,
  enter_assign al d st lvs ut = Ok (st1, w) -> vs_stack st = FEnum e :: r ->
  exists nss st2, Forall2 (fun lv ns => lv_names lv = Ok ns) lvs nss /\ leave_assign st1 = Ok st2 /\
    vs_stack st2 = FEnum (enum_add_instances e (map (fun n => (e_id e ++ K"/" ++ n, n)) (List.concat nss))) :: r.
Proof. exact enum_assignment_statement. Qed.
(* ... lifted to the WHOLE BODY of an enum, for every enum definition at module level and every state of the walk: the module
   gains exactly one enum record, named like the class, with the id <module id>/<name>, whose instances are the names assigned
   by the assignment statements of the body (member_names: the targets of a statement left to right, tuple targets
   flattened) in source order, each once, under <enum id>/<name>; methods, properties and nested classes of the body
   contribute nothing (the walker visits only the assignments of an enum body: fix 5e57c43) *)
Theorem C03_front_enum_inventory : forall al d pref_doc warn c st st' w m r,
  walk_member al d pref_doc warn st (CMClass c) = Ok (st', w) -> is_enum_def c = true -> vs_stack st = FModule m :: r ->
  exists e nss, vs_stack st' = FModule (mod_add_enum m e) :: r /\ e_name e = cd_name c /\ e_id e = id_from_stack st (cd_name c) /\
    Forall2 member_names (filter (fun x => enum_child x && negb (is_placeholder x)) (cd_defs c)) nss /\
    e_instances e = inst_pairs e (List.concat nss).
Proof. exact enum_inventory. Qed.
(* ... and the instances keep the assigned names; distinct names (Python's Enum refuses a reused name) give distinct ids, so
   every member of such an enum is listed exactly once by id *)
Theorem C03_enum_instance_names_and_ids : forall e ns,
  map snd (inst_pairs e ns) = ns /\ (NoDup ns -> NoDup (map fst (inst_pairs e ns))).
Proof. exact inst_pairs_names_and_ids. Qed.
(* ... and that record is registered exactly once, under its id, in the flat enum dictionary; the body registers nothing there *)
Theorem C03_front_enum_registered : forall al d pref_doc warn c st st' w m r,
  walk_member al d pref_doc warn st (CMClass c) = Ok (st', w) -> is_enum_def c = true -> vs_stack st = FModule m :: r ->
  exists e, vs_stack st' = FModule (mod_add_enum m e) :: r /\ vs_enums st' = dict_set (e_id e) e (vs_enums st).
Proof. exact enum_registered. Qed.
(* Generator: the stub of an enum is its signature and - when the record lists instances - a brace block with one line per
   listed instance, in the order of the record, each once (the name passes through emit_name like every other name) *)
Theorem C03_enum_stub_lists_every_instance_once : forall nc e,
  enum_string nc e =
    match e_instances e with
    | [] => enum_signature nc e
    | _ => enum_signature nc e ++ K" {" ++ NL ++ cat (map (instance_line nc) (e_instances e)) ++ K"}"
    end.
Proof. exact enum_string_instances. Qed.
Print Assumptions C03_class_attributes_once.
Print Assumptions C03_class_methods.
Print Assumptions C03_front_module_inventory.
Print Assumptions C03_front_class_inventory.
Print Assumptions C03_front_attribute_names_unique.
Print Assumptions C03_cls_ok_unfolded.
Print Assumptions C03_module_child_is_the_source_set.
Print Assumptions C03_class_child_is_the_source_set.
Print Assumptions C03_enum_child_is_the_source_set.
Print Assumptions C03_enum_test_is_the_source_test.
Print Assumptions C03_module_stub_inventory.
Print Assumptions C03_run_attribute_names_unique.
Print Assumptions C03_method_is_rendered_in_place.
Print Assumptions C03_enum_assignment_adds_its_instances.
Print Assumptions C03_enum_stub_lists_every_instance_once.
Print Assumptions C03_enum_statement_adds_assigned_names.
Print Assumptions C03_front_enum_inventory.
Print Assumptions C03_enum_instance_names_and_ids.
Print Assumptions C03_front_enum_registered.
