(* C03  Every public declaration appears in the stubs exactly once (back-end filters: what a class body contains). *)
From Coq Require Import List String Ascii ZArith. Import ListNotations.
From Coq Require Import List Bool.
From SV Require Import Lib.Str Model.Types Model.Naming Model.Api Model.Back Proofs.GenProofs.

(* the attribute block contains one entry per public attribute (type-variable attributes excepted), no more *)
Theorem C03_class_attributes_once : forall classes rmap nc ats inner acc names s r s',
  class_attrs classes rmap nc ats inner acc names s = Ok (r, s') ->
  snd r = fold_left (fun a n => set_add n a) (map a_name (filter attr_rendered ats)) names /\
  List.length (fst r) = List.length acc + List.length (filter attr_rendered ats).
Proof. exact class_attrs_names. Qed.

(* the method block renders exactly the methods that are not skipped *)
Theorem C03_class_methods : forall classes rmap nc ms inner ic already props meths names s r s',
  class_methods classes rmap nc ms inner ic already props meths names s = Ok (r, s') ->
  snd r = fold_left (fun acc m => set_add (f_name m) acc) (filter (fun m => negb (method_skipped ic already m)) ms) names.
Proof. exact class_methods_names. Qed.

Print Assumptions C03_class_attributes_once.
Print Assumptions C03_class_methods.
