(* C13  Docstring text reaches the right element intact (comment assembly; the cache part follows with the docstring model). *)
From Coq Require Import List String Ascii ZArith. Import ListNotations.
From Coq Require Import List Bool.
From SV Require Import Lib.Str Model.Types Model.Api Model.Back Model.Doc Proofs.GenProofs Proofs.DocProofs.
From SV Require Import Model.Api Model.FrontSmall Model.View Model.Front Model.DocTypes Model.DocSections Proofs.FrontProofs Proofs.DocSectionsProofs.
From SV Require Import Model.Naming Spec.Markers Proofs.MarkerProofs Proofs.ClassMarkerProofs.

(* line for line: the comment body is the first line of the (newline-stripped) description followed by every further
   line behind the comment decoration, blank lines included *)
Theorem C13_description_lines : forall description indent first rest,
  split_ch nl (lstrip_chars NL (rstrip_chars NL description)) = first :: rest ->
  docstring_description_part description indent =
  first ++ List.concat (map (fun part => NL ++ comment_line indent part) rest) ++ NL.
Proof. exact description_part_lines. Qed.

Theorem C13_single_line : forall description indent,
  split_ch nl (lstrip_chars NL (rstrip_chars NL description)) = [lstrip_chars NL (rstrip_chars NL description)] ->
  docstring_description_part description indent = lstrip_chars NL (rstrip_chars NL description) ++ NL.
Proof. exact description_part_single. Qed.

Theorem C13_no_description_no_comment : forall indent, sds_docstring_description [] indent = [].
Proof. intros. reflexivity. Qed.

(* the one-entry docstring cache is transparent: for every tree and every sequence of queries (any interleaving of
   functions, classes and constructors) each answer is the uncached lookup of that query *)
Theorem C13_cache_transparent : forall root qs, cached_run root init_cstate qs = uncached_run root qs.
Proof. exact cache_transparent. Qed.

Theorem C13_cache_coherent : forall root qs st, coherent root st -> cached_run root st qs = uncached_run root qs.
Proof. exact cache_coherent. Qed.

(* recorded finding lookup_same_name: function foo in module foo receives the module's docstring *)
Theorem C13_lookup_same_name_refuted :
  let f := GNode (K"foo") GFunction (Some (K"Function foo doc.")) [] in
  let m := GNode (K"foo") GModule (Some (K"Module foo doc.")) [f] in
  let root := GNode (K"pkg") GModule None [m] in
  lookup_doc root (K"pkg.foo.foo") = Ok (Some (K"Module foo doc.")).
Proof. exact lookup_same_name_refuted. Qed.

(* ANALYZER SIDE: the documentation stored with a class, a function (and its result entries) and a parameter is the
   docstring parser's answer for that declaration's own qualified name; the answers are not part of the walk's state, so the
   order in which declarations are analysed cannot move a text to another element (the parser's own one-entry cache is the
   cache_transparent theorem above) *)
Theorem C13_front_class_doc : forall al d st c st' w,
  enter_class al d st c = Ok (st', w) ->
  exists cl rest, vs_stack st' = FClass cl :: rest /\ doc_class d (cd_fullname c) = Ok (c_doc cl).
Proof. exact class_doc_by_own_name. Qed.
Theorem C13_front_function_doc : forall al d pref warn st f st' w,
  enter_func al d pref warn st f = Ok (st', w) ->
  exists fn rest, vs_stack st' = FFunc fn :: rest /\ doc_func d (fn_fullname f) = Ok (f_doc fn) /\
                  doc_results d (fn_fullname f) = Ok (f_rdocs fn).
Proof. exact function_doc_by_own_name. Qed.
Theorem C13_front_parameter_doc : forall env d st f fid a p tv lg amb,
  parse_parameter env d st f fid a = Ok (p, tv, lg, amb) ->
  exists pd cq, doc_param d (fn_fullname f) (ar_name a) cq = Ok pd /\
                p_doc_type p = pd_type pd /\ p_doc_default p = pd_default pd /\ p_doc_desc p = pd_desc pd.
Proof. exact parameter_doc_by_own_name. Qed.
(* THE SECTION EXTRACTION (model of DocstringParser.get_*_documentation, compared with the code on every class, function,
   parameter, attribute and result of generated docstrings in the three structured styles) *)
Theorem C13_description_intact : forall s, outer_nl_free s = true -> strip_nl s = s.
Proof. exact description_intact. Qed.
Theorem C13_general_doc_description : forall gd secs v rest,
  gd_sections gd = secs ++ SText v :: rest -> Forall (fun s => match s with SText _ => False | _ => True end) rest ->
  d_desc (general_doc (Some gd)) = strip_nl v.
Proof. exact general_doc_description. Qed.
Theorem C13_matching_ignores_stars : forall params gd name,
  matching params gd (K"*" ++ name) = matching params gd name /\ matching params gd (K"**" ++ name) = matching params gd name.
Proof. exact matching_ignores_stars. Qed.
Theorem C13_param_doc_last_match : forall st gd pname ms lastp,
  matching true gd pname = ms ++ [lastp] ->
  pd_desc (param_doc st false None (Some gd) false pname) = strip_nl (di_desc lastp).
Proof. exact param_doc_last_match. Qed.
(* GENERATOR SIDE: the comment in front of a declaration is built from THAT declaration's documentation, whatever was rendered
   before it (the same lemmas that settle the marker blocks of C20): the text of a function / method written here is its marker
   block, then sds_docstring of its own description, examples, parameters and result entries, then its signature; the text of a
   class is sds_docstring of its own description, examples and constructor parameters, then its header; every written attribute
   line carries sds_docstring of its own description *)
Theorem C13_function_comment_is_its_own : forall classes rmap nc f indent is_method in_rx s x s',
  function_string classes rmap nc f indent is_method in_rx s = Ok (x, s') ->
  (if negb is_method && negb in_rx then shorter_reexport (f_name f) (f_reexported_by f) s else None) = None ->
  g_todos s = [] ->
  exists L params tvi rs,
    NoDup L /\ covers (func_marks nc (g_class_generics s) is_method f) L /\ g_todos s' = [] /\
    x = todo_text indent L ++
        sds_docstring nc (d_desc (f_doc f)) (d_examples (f_doc f)) (Some (f_params f)) (Some (f_rdocs f)) indent ++
        indent ++ K"@Pure" ++ NL ++
        (match fst (emit_name nc false (f_name f)) with None => [] | Some n => indent ++ name_annotation n ++ NL end) ++
        indent ++ (if f_classm f || f_static f then K"static " else []) ++ K"fun " ++ snd (emit_name nc false (f_name f)) ++
        tvi ++ K"(" ++ params ++ K")" ++ rs.
Proof. exact function_string_markers. Qed.
Theorem C13_class_comment_is_its_own : forall classes rmap nc fu c indent rx s x s',
  class_string classes rmap nc (S fu) c indent rx s = Ok (x, s') ->
  (if negb rx then shorter_reexport (c_name c) (c_reexported_by c) s else None) = None ->
  clean s ->
  exists Lsig variance ctor_info body,
    NoDup Lsig /\ covers (class_sig_marks c) Lsig /\ clean s' /\
    x = sds_docstring nc (d_desc (c_doc c)) (d_examples (c_doc c))
                      (Some (match c_ctor c with Some k => f_params k | None => [] end)) None indent ++
        ((match fst (emit_name nc true (c_name c)) with None => [] | Some n => indent ++ name_annotation n ++ NL end) ++ indent ++
         todo_text indent Lsig ++ todo_text indent (class_inheritance_marks c) ++
         K"class " ++ snd (emit_name nc true (c_name c)) ++ variance ++ ctor_info ++
         (match class_super_names c with [] => [] | _ => K" sub " ++ join (K", ") (class_super_names c) end)) ++ body.
Proof. exact class_header_markers. Qed.
Theorem C13_attribute_comment_is_its_own : forall classes rmap nc ats inner acc names s lines names' s',
  class_attrs classes rmap nc ats inner acc names s = Ok ((lines, names'), s') -> g_todos s = [] ->
  g_todos s' = [] /\ exists new, lines = acc ++ new /\ Forall2 (attr_line nc inner) (filter attr_rendered ats) new.
Proof. exact class_attrs_markers. Qed.
Print Assumptions C13_cache_transparent.
Print Assumptions C13_cache_coherent.
Print Assumptions C13_lookup_same_name_refuted.
Print Assumptions C13_description_lines.
Print Assumptions C13_single_line.
Print Assumptions C13_no_description_no_comment.
Print Assumptions C13_front_class_doc.
Print Assumptions C13_front_function_doc.
Print Assumptions C13_front_parameter_doc.
Print Assumptions C13_description_intact.
Print Assumptions C13_general_doc_description.
Print Assumptions C13_matching_ignores_stars.
Print Assumptions C13_param_doc_last_match.
Print Assumptions C13_function_comment_is_its_own.
Print Assumptions C13_class_comment_is_its_own.
Print Assumptions C13_attribute_comment_is_its_own.
