(* C13  Docstring text reaches the right element intact (comment assembly; the cache part follows with the docstring model). *)
From Coq Require Import List String Ascii ZArith. Import ListNotations.
From Coq Require Import List Bool.
From SV Require Import Lib.Str Model.Types Model.Api Model.Back Proofs.GenProofs.

(* line for line: the comment body is the first line of the (newline-stripped) description followed by every further
   line behind the comment decoration, blank lines included *)
Theorem C13_description_lines : forall description indent first rest,
  split_ch nl (lstrip_chars NL (rstrip_chars NL description)) = first :: rest ->
  docstring_description_part description indent =
  first ++ List.concat (map (fun part => NL ++ comment_line indent part) rest) ++ NL.
Proof. exact description_part_lines. Qed.

Theorem C13_single_line : forall description indent,
  split_ch nl (lstrip_chars NL (rstrip_chars NL description)) = [lstrip_chars NL (rstrip_chars NL description)] ->
  docstring_description_part description indent = lstrip_chars NL (rstrip_chars NL description) ++ NL.
Proof. exact description_part_single. Qed.

Theorem C13_no_description_no_comment : forall indent, sds_docstring_description [] indent = [].
Proof. intros. reflexivity. Qed.

Print Assumptions C13_description_lines.
Print Assumptions C13_single_line.
Print Assumptions C13_no_description_no_comment.
