(* C10  Stub files are laid out by module path inside the output directory (paths are relative to that directory). *)
From Coq Require Import List String Ascii ZArith. Import ListNotations.
From Coq Require Import List Bool Ascii.
From SV Require Import Lib.Str Model.Types Model.Naming Model.Api Model.Back Model.Layout Proofs.GenProofs.

(* the file of a module stub lies in the directory that spells its module id; its base name is the module name
   without leading underscores *)
From SV Require Import Model.Naming Proofs.PlaceholderProofs.
Theorem C10_module_stub_path : forall dir name text,
  entry_path (dir, name, text, false) = path_join dir (lstrip_chars US name ++ K".sdsstub").
Proof. exact entry_dir_module. Qed.

Theorem C10_path_shape : forall dir name text pk,
  exists d, entry_path (dir, name, text, pk) = path_join d (lstrip_chars US name ++ K".sdsstub") /\
            d = (if pk then join (K"/") (removelast (split_ch "/"%char dir)) else dir).
Proof. exact entry_path_basename. Qed.

Theorem C10_basename_without_leading_underscore : forall name c r,
  lstrip_chars US name ++ K".sdsstub" = c :: r -> c <> "_"%char.
Proof. exact basename_no_leading_underscore. Qed.

(* a path that is written again with the same text is left as it is (no second, different text under one path) *)
Theorem C10_rewrite_same_text : forall p c fs, fs_lookup p fs = Some c -> fs_write p c fs = fs.
Proof. exact rewrite_same_text. Qed.

(* placeholder stubs of classes of other libraries: for EVERY arrival order of the foreign classes (the classes of one module need
   not be adjacent) and every initial content of the output directory, the placeholder file of a module is its header followed
   by the text of each class of that module, in arrival order, each exactly once - never truncated by a later class, never
   appended to a file left by an earlier run.  well_formed: module path and file name each determine the module (dotted Python
   names); go_outside is the loop of create_stub_files (C10_create_stub_files_is_the_loop) *)
Theorem C10_placeholder_files_complete : forall nc cs fs0 fs created,
  well_formed cs -> go_outside nc cs (fs0, []) = Ok (fs, created) ->
  forall c, In c cs -> fs_lookup (file_of c) fs = Some (header_of nc c ++ List.concat (map (text_of nc) (filter (same_mod c) cs))).
Proof. exact placeholder_files_complete. Qed.
Theorem C10_create_stub_files_is_the_loop : forall nc data outside fs0,
  create_stub_files nc data outside fs0 =
  match go_outside nc (sort_str outside)
          (fold_left (fun fs e => fs_write (entry_path e) (let '(_, _, t, _) := e in t) fs) data fs0, []) with
  | Ok (fs, _) => Ok fs
  | Err e => Err e
  end.
Proof. exact create_stub_files_go. Qed.
(* well_formed holds whenever every module segment of every class path is non-empty and contains no '/' (dotted Python names) *)
Theorem C10_good_names_are_well_formed : forall cs, Forall good_name cs -> well_formed cs.
Proof. exact good_names_are_well_formed. Qed.
(* the hypotheses are satisfiable and the conclusion has content: ctypes.CDLL < ctypes._endian.BigEndianStructure < ctypes.c_int *)
Theorem C10_placeholder_example : well_formed ctypes_example /\
  match go_outside false ctypes_example ([], []) with
  | Ok (fs, _) => fs_lookup (K"ctypes/ctypes.sdsstub") fs
  | Err _ => None
  end = Some (K"package ctypes" ++ NL ++ NL ++ K"class CDLL" ++ NL ++ NL ++ K"class c_int" ++ NL).
Proof. exact (conj ctypes_example_well_formed ctypes_example_file). Qed.
Print Assumptions C10_module_stub_path.
Print Assumptions C10_path_shape.
Print Assumptions C10_basename_without_leading_underscore.
Print Assumptions C10_rewrite_same_text.
Print Assumptions C10_placeholder_files_complete.
Print Assumptions C10_create_stub_files_is_the_loop.
Print Assumptions C10_placeholder_example.
Print Assumptions C10_good_names_are_well_formed.
