(* C10  Stub files are laid out by module path inside the output directory (paths are relative to that directory). *)
From Coq Require Import List String Ascii ZArith. Import ListNotations.
From Coq Require Import List Bool Ascii.
From SV Require Import Lib.Str Model.Types Model.Naming Model.Api Model.Back Model.Layout Proofs.GenProofs.

(* the file of a module stub lies in the directory that spells its module id; its base name is the module name
   without leading underscores *)
Theorem C10_module_stub_path : forall dir name text,
  entry_path (dir, name, text, false) = path_join dir (lstrip_chars US name ++ K".sdsstub").
Proof. exact entry_dir_module. Qed.

Theorem C10_path_shape : forall dir name text pk,
  exists d, entry_path (dir, name, text, pk) = path_join d (lstrip_chars US name ++ K".sdsstub") /\
            d = (if pk then join (K"/") (removelast (split_ch "/"%char dir)) else dir).
Proof. exact entry_path_basename. Qed.

Theorem C10_basename_without_leading_underscore : forall name c r,
  lstrip_chars US name ++ K".sdsstub" = c :: r -> c <> "_"%char.
Proof. exact basename_no_leading_underscore. Qed.

(* a path that is written again with the same text is left as it is (no second, different text under one path) *)
Theorem C10_rewrite_same_text : forall p c fs, fs_lookup p fs = Some c -> fs_write p c fs = fs.
Proof. exact rewrite_same_text. Qed.

Print Assumptions C10_module_stub_path.
Print Assumptions C10_path_shape.
Print Assumptions C10_basename_without_leading_underscore.
Print Assumptions C10_rewrite_same_text.
