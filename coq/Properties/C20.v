(* C20  TODO markers flag exactly the declarations that need manual attention (marker discipline of the generator). *)
From Coq Require Import List String Ascii ZArith. Import ListNotations.
From Coq Require Import List Bool.
From SV Require Import Lib.Str Gen.Tables Model.Types Model.Api Model.Back Proofs.BackProofs.

(* flushing prints the pending markers and leaves the pending set empty *)
Theorem C20_flush_clears : forall indent s x s', create_todo_msg indent s = Ok (x, s') -> g_todos s' = [].
Proof. exact create_todo_msg_clears. Qed.

(* with an empty pending set nothing is printed: a declaration without raised markers gets no TODO line *)
Theorem C20_nothing_pending_nothing_printed : forall indent s, g_todos s = [] -> create_todo_msg indent s = Ok ([], s).
Proof. exact create_todo_msg_empty. Qed.

(* every rendered function / method leaves the pending set empty: no marker migrates to the next declaration *)
Theorem C20_function_flushes : forall classes rmap nc f indent is_method in_rx s x s',
  function_string classes rmap nc f indent is_method in_rx s = Ok (x, s') -> x <> [] -> g_todos s' = [].
Proof. exact function_string_flushes. Qed.

Theorem C20_property_flushes : forall classes rmap nc f indent s x s',
  property_string classes rmap nc f indent s = Ok (x, s') -> g_todos s' = [].
Proof. exact property_string_flushes. Qed.

(* every marker key the generator can raise has a message in the table read from the source *)
Theorem C20_every_key_has_a_message :
  forallb (fun k => is_ok (todo_lookup k t_todo_messages)) raisable_keys = true.
Proof. exact raisable_keys_have_messages. Qed.

Print Assumptions C20_flush_clears.
Print Assumptions C20_nothing_pending_nothing_printed.
Print Assumptions C20_function_flushes.
Print Assumptions C20_property_flushes.
Print Assumptions C20_every_key_has_a_message.
