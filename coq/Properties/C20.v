(* C20  TODO markers flag exactly the declarations that need manual attention (marker discipline of the generator). *)
From Coq Require Import List String Ascii ZArith. Import ListNotations.
From Coq Require Import List Bool.
From SV Require Import Lib.Str Gen.Tables Model.Types Model.Naming Model.Api Model.Back Spec.Markers Proofs.BackProofs Proofs.MarkerProofs Proofs.ClassMarkerProofs.

(* flushing prints the pending markers and leaves the pending set empty *)
Theorem C20_flush_clears : forall indent s x s', create_todo_msg indent s = Ok (x, s') -> g_todos s' = [].
Proof. exact create_todo_msg_clears. Qed.

(* with an empty pending set nothing is printed: a declaration without raised markers gets no TODO line *)
Theorem C20_nothing_pending_nothing_printed : forall indent s, g_todos s = [] -> create_todo_msg indent s = Ok ([], s).
Proof. exact create_todo_msg_empty. Qed.

(* every rendered function / method leaves the pending set empty: no marker migrates to the next declaration *)
Theorem C20_function_flushes : forall classes rmap nc f indent is_method in_rx s x s',
  function_string classes rmap nc f indent is_method in_rx s = Ok (x, s') -> x <> [] -> g_todos s' = [].
Proof. exact function_string_flushes. Qed.

Theorem C20_property_flushes : forall classes rmap nc f indent s x s',
  property_string classes rmap nc f indent s = Ok (x, s') -> g_todos s' = [].
Proof. exact property_string_flushes. Qed.

(* every marker key the generator can raise has a message in the table read from the source *)
Theorem C20_every_key_has_a_message :
  forallb (fun k => is_ok (todo_lookup k t_todo_messages)) raisable_keys = true.
Proof. exact raisable_keys_have_messages. Qed.

(* ---- "exactly when": the markers raised are a function of the declaration alone (Spec/Markers.v) ----
   ext s s' L: the pending set of s' is that of s plus L (and stays duplicate-free); covers spec L: L contains every marker of
   spec and nothing else except possibly "internal class as type" (which depends on the imports made so far). *)
Theorem C20_type_markers : forall classes rmap nc t s x s',
  type_string classes rmap nc t s = Ok (x, s') -> exists L, ext s s' L /\ covers (tmarks t) L.
Proof. exact type_string_marks. Qed.
Theorem C20_parameter_markers : forall classes rmap nc p s x s',
  param_fields classes rmap nc p s = Ok (x, s') -> exists L, ext s s' L /\ covers (param_marks p) L.
Proof. exact param_fields_marks. Qed.
(* the printed block depends only on the set of pending markers *)
Theorem C20_block_depends_on_set : forall indent L L',
  NoDup L -> NoDup L' -> (forall k, In k L <-> In k L') -> todo_text indent L = todo_text indent L'.
Proof. exact todo_text_set. Qed.
(* a function or method written here, entered with nothing pending (C20_function_flushes gives that for its predecessor):
   the text is the marker block of ITS OWN features followed by its documentation and signature, and nothing stays pending *)
Theorem C20_function_markers : forall classes rmap nc f indent is_method in_rx s x s',
  function_string classes rmap nc f indent is_method in_rx s = Ok (x, s') ->
  (if negb is_method && negb in_rx then shorter_reexport (f_name f) (f_reexported_by f) s else None) = None ->
  g_todos s = [] ->
  exists L params tvi rs,
    NoDup L /\ covers (func_marks nc (g_class_generics s) is_method f) L /\ g_todos s' = [] /\
    x = todo_text indent L ++
        sds_docstring nc (d_desc (f_doc f)) (d_examples (f_doc f)) (Some (f_params f)) (Some (f_rdocs f)) indent ++
        indent ++ K"@Pure" ++ NL ++
        (match fst (emit_name nc false (f_name f)) with None => [] | Some n => indent ++ name_annotation n ++ NL end) ++
        indent ++ (if f_classm f || f_static f then K"static " else []) ++ K"fun " ++ snd (emit_name nc false (f_name f)) ++
        tvi ++ K"(" ++ params ++ K")" ++ rs.
Proof. exact function_string_markers. Qed.
Theorem C20_property_markers : forall classes rmap nc f indent s x s',
  property_string classes rmap nc f indent s = Ok (x, s') -> g_todos s = [] ->
  exists L ts,
    NoDup L /\ covers (property_marks f) L /\ g_todos s' = [] /\
    x = todo_text indent L ++ sds_docstring_description (d_desc (f_doc f)) indent ++ indent ++
        (match fst (emit_name nc false (f_name f)) with None => [] | Some n => name_annotation n ++ K" " end) ++
        K"attr " ++ snd (emit_name nc false (f_name f)) ++ ts.
Proof. exact property_string_markers. Qed.
(* every written attribute of a class carries the block of its own features, whatever its neighbours raise *)
Theorem C20_attribute_markers : forall classes rmap nc ats inner acc names s lines names' s',
  class_attrs classes rmap nc ats inner acc names s = Ok ((lines, names'), s') -> g_todos s = [] ->
  g_todos s' = [] /\ exists new, lines = acc ++ new /\ Forall2 (attr_line nc inner) (filter attr_rendered ats) new.
Proof. exact class_attrs_markers. Qed.
(* the class header, entered with nothing pending: the first block carries the markers of the constructor's parameters and of the
   bounds of the type parameters, the second block is "multiple_inheritance" exactly when the sub clause names two or more
   classes - whatever attributes, nested classes, methods and inlined ancestors raise in between - and nothing stays pending *)
Theorem C20_class_header_markers : forall classes rmap nc fu c indent rx s x s',
  class_string classes rmap nc (S fu) c indent rx s = Ok (x, s') ->
  (if negb rx then shorter_reexport (c_name c) (c_reexported_by c) s else None) = None ->
  clean s ->
  exists Lsig variance ctor_info body,
    NoDup Lsig /\ covers (class_sig_marks c) Lsig /\ clean s' /\
    x = sds_docstring nc (d_desc (c_doc c)) (d_examples (c_doc c))
                      (Some (match c_ctor c with Some k => f_params k | None => [] end)) None indent ++
        ((match fst (emit_name nc true (c_name c)) with None => [] | Some n => indent ++ name_annotation n ++ NL end) ++ indent ++
         todo_text indent Lsig ++ todo_text indent (class_inheritance_marks c) ++
         K"class " ++ snd (emit_name nc true (c_name c)) ++ variance ++ ctor_info ++
         (match class_super_names c with [] => [] | _ => K" sub " ++ join (K", ") (class_super_names c) end)) ++ body.
Proof. exact class_header_markers. Qed.
(* no declaration of a class body leaves a marker behind for the next one *)
Theorem C20_class_leaves_nothing_pending : forall classes rmap nc fuel c indent rx s x s',
  class_string classes rmap nc fuel c indent rx s = Ok (x, s') -> clean s -> clean s'.
Proof. exact class_string_clean. Qed.
(* the premises of C20_function_markers are met by a concrete function (one required keyword-only parameter of tuple type, no
   results), and its conclusion has content: three marker lines, sorted, in front of the documentation comment *)
Theorem C20_function_markers_example :
  func_marks false [] false ex_func = [K"no tuple support"; K"REQ_NAME_ONLY"; K"result without type"] /\
  (if negb false && negb false then shorter_reexport (f_name ex_func) (f_reexported_by ex_func) init_gst else None) = None /\
  g_todos init_gst = [] /\
  exists x s', function_string [] [] false ex_func [] false false init_gst = Ok (x, s') /\ g_todos s' = [] /\
    starts_with (K"// TODO Result type information missing." ++ NL ++
                 K"// TODO Safe-DS does not support required but name only parameter assignments." ++ NL ++
                 K"// TODO Safe-DS does not support tuple types." ++ NL) x = true.
Proof. exact function_markers_example. Qed.
(* the specification is not empty: a tuple of a two-argument set and an unknown *)
Example C20_markers_example :
  tmarks (TTuple [TSet [TNamed (K"int") (K"builtins.int"); TNamed (K"str") (K"builtins.str")]; TUnknown]) =
  [K"no tuple support"; K"no set support"; K"Set"; K"unknown"].
Proof. vm_compute. reflexivity. Qed.
(* the set of keys the model can raise is the set of keys raised in the source (a table regenerated on every run) *)
Theorem C20_model_raises_exactly_the_source_keys :
  forallb (fun k => mem_str k raisable_keys) source_raised_keys &&
  forallb (fun k => mem_str k source_raised_keys) raisable_keys = true.
Proof. exact model_raises_source_keys. Qed.
Print Assumptions C20_flush_clears.
Print Assumptions C20_nothing_pending_nothing_printed.
Print Assumptions C20_function_flushes.
Print Assumptions C20_property_flushes.
Print Assumptions C20_every_key_has_a_message.
Print Assumptions C20_type_markers.
Print Assumptions C20_parameter_markers.
Print Assumptions C20_block_depends_on_set.
Print Assumptions C20_function_markers.
Print Assumptions C20_property_markers.
Print Assumptions C20_attribute_markers.
Print Assumptions C20_markers_example.
Print Assumptions C20_model_raises_exactly_the_source_keys.
Print Assumptions C20_class_header_markers.
Print Assumptions C20_class_leaves_nothing_pending.
Print Assumptions C20_function_markers_example.
