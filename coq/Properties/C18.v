(* C18  A module's stub depends only on what the module uses (generator half). *)
From Coq Require Import List String Ascii ZArith Bool Permutation Sorting.Sorted. Import ListNotations.
From SV Require Import Lib.Str Model.Types Model.Api Model.Back Model.FrontSmall Model.View Model.Front Proofs.MoreProofs Proofs.WalkProofs.

(* the stub of a module is a function of that module, the class dictionary and the re-export map: two API objects that
   agree on these yield the same stub, whatever other modules they contain *)
Theorem C18_module_stub_locality : forall nc (a a' : api) (m : module_) s,
  api_classes a = api_classes a' -> api_reexport_map a = api_reexport_map a' ->
  module_string (api_classes a) (api_reexport_map a) nc m s = module_string (api_classes a') (api_reexport_map a') nc m s.
Proof. exact module_stub_locality. Qed.

(* ANALYZER HALF: what the walk records for a module - the module record with everything in it, and the log - depends on the
   state of the walk only through the declaration stack and the re-export map (which the package __init__ files fill):
   the modules, classes, functions, parameters, results, attributes and enums registered before it are never read.
   The remaining inputs are the module's own tree, the alias table `al` (built from the whole package: the documented
   non-local input of `_find_alias`) and the docstring answers. *)
Theorem C18_front_module_local : forall al d pref_doc warn a b m,
  vs_stack a = vs_stack b -> vs_rmap a = vs_rmap b ->
  rcore (walk_module al d pref_doc warn a m) = rcore (walk_module al d pref_doc warn b m) /\
  (forall sa wa, walk_module al d pref_doc warn a m = Ok (sa, wa) ->
     exists sb md, walk_module al d pref_doc warn b m = Ok (sb, wa) /\
                   vs_modules sa = dict_set (m_id md) md (vs_modules a) /\ vs_modules sb = dict_set (m_id md) md (vs_modules b)).
Proof. exact walk_module_local. Qed.
Print Assumptions C18_module_stub_locality.
Print Assumptions C18_front_module_local.
