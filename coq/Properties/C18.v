(* C18  A module's stub depends only on what the module uses (generator half). *)
From Coq Require Import List String Ascii ZArith Bool Permutation Sorting.Sorted. Import ListNotations.
From SV Require Import Lib.Str Model.Types Model.Api Model.Back Proofs.MoreProofs.

(* the stub of a module is a function of that module, the class dictionary and the re-export map: two API objects that
   agree on these yield the same stub, whatever other modules they contain *)
Theorem C18_module_stub_locality : forall nc (a a' : api) (m : module_) s,
  api_classes a = api_classes a' -> api_reexport_map a = api_reexport_map a' ->
  module_string (api_classes a) (api_reexport_map a) nc m s = module_string (api_classes a') (api_reexport_map a') nc m s.
Proof. exact module_stub_locality. Qed.

Print Assumptions C18_module_stub_locality.
