(* C01  Every analysable package is processed to completion (totality of the dispatches that can raise). *)
From Coq Require Import List String Ascii ZArith Bool Permutation Sorting.Sorted. Import ListNotations.
From SV Require Import Lib.Str Gen.Tables Model.Types Model.Api Model.Back Model.Discover Model.FrontSmall
     Proofs.BackProofs Proofs.FrontSmallProofs Proofs.DiscoverProofs.

(* the marker table covers every key the generator raises: _create_todo_msg cannot fail with KeyError *)
From SV Require Import Spec.Markers Proofs.TotalProofs.
Theorem C01_todo_flush_total : forall indent s,
  Forall (fun k => In k raisable_keys) (g_todos s) -> exists x s', create_todo_msg indent s = Ok (x, s').
Proof. exact create_todo_msg_total. Qed.

(* the argument-kind dispatch is total on mypy's six kinds *)
Theorem C01_argument_kind_total : forall receiver pos_only k, get_argument_kind receiver pos_only k = Some (spec_kind receiver pos_only k).
Proof. exact kind_table. Qed.

(* the documented rejection happens exactly when the filter leaves no walkable file *)
Theorem C01_no_files_iff : forall tr files, get_api_files tr files = NoFiles <-> fst (discover tr files) = [].
Proof.
  intros tr files. unfold get_api_files. destruct (discover tr files) as [w p]. cbn. destruct w; split; intro H; try reflexivity; discriminate.
Qed.

(* GENERATOR SIDE: a type whose rendered positions hold only kinds the analyzer produces (renderable: no EnumType/BoundaryType -
   nothing in the tool constructs them - and class references with a name and a qualified name) is rendered to completion
   from every generator state: _create_type_string raises nothing *)
Theorem C01_type_string_total : forall classes rmap nc t, renderable t = true ->
  forall s, exists x s', type_string classes rmap nc t s = Ok (x, s').
Proof. exact type_string_total. Qed.
(* a whole function or method whose parameter, type-variable-bound and result types are renderable is rendered to completion
   whenever the pending markers are markers the tool knows (true at every point of a run: known is an invariant, the empty
   pending set in particular): no parameter list, result list, marker flush or import registration raises *)
Theorem C01_function_string_total : forall classes rmap nc f indent is_method rx s,
  func_renderable is_method f = true -> known s ->
  exists x s', function_string classes rmap nc f indent is_method rx s = Ok (x, s').
Proof. exact function_string_total. Qed.
Print Assumptions C01_todo_flush_total.
Print Assumptions C01_argument_kind_total.
Print Assumptions C01_no_files_iff.
Print Assumptions C01_type_string_total.
Print Assumptions C01_function_string_total.
