(* C01  Every analysable package is processed to completion (totality of the dispatches that can raise). *)
From Coq Require Import List String Ascii ZArith Bool Permutation Sorting.Sorted. Import ListNotations.
From SV Require Import Lib.Str Gen.Tables Model.Types Model.Api Model.Back Model.Discover Model.FrontSmall
     Proofs.BackProofs Proofs.FrontSmallProofs Proofs.DiscoverProofs.

(* the marker table covers every key the generator raises: _create_todo_msg cannot fail with KeyError *)
Theorem C01_todo_flush_total : forall indent s,
  Forall (fun k => In k raisable_keys) (g_todos s) -> exists x s', create_todo_msg indent s = Ok (x, s').
Proof. exact create_todo_msg_total. Qed.

(* the argument-kind dispatch is total on mypy's six kinds *)
Theorem C01_argument_kind_total : forall receiver pos_only k, get_argument_kind receiver pos_only k = Some (spec_kind receiver pos_only k).
Proof. exact kind_table. Qed.

(* the documented rejection happens exactly when the filter leaves no walkable file *)
Theorem C01_no_files_iff : forall tr files, get_api_files tr files = NoFiles <-> fst (discover tr files) = [].
Proof.
  intros tr files. unfold get_api_files. destruct (discover tr files) as [w p]. cbn. destruct w; split; intro H; try reflexivity; discriminate.
Qed.

Print Assumptions C01_todo_flush_total.
Print Assumptions C01_argument_kind_total.
Print Assumptions C01_no_files_iff.
