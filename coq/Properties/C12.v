(* C12  The API JSON is a complete, internally consistent inventory (container, serialisation order, ids). *)
From Coq Require Import List String Ascii ZArith Bool Permutation Sorting.Sorted. Import ListNotations.
From SV Require Import Lib.Str Model.Types Model.Api Model.FrontSmall Proofs.FrontSmallProofs.

(* every top-level list is sorted by id and free of duplicates, whatever the order of registration *)
Theorem C12_lists_sorted_nodup : forall (V : Type) (ops : list (str * V)),
  Sorted (fun a b => key_leb a b = true) (sorted_entries (add_all ops)) /\ NoDup (map fst (sorted_entries (add_all ops))).
Proof. intros V ops. exact (to_dict_list_sorted_nodup ops). Qed.

(* and holds exactly the registered entries *)
Theorem C12_lists_complete : forall (V : Type) (d : list (str * V)) x, In x (sorted_entries d) <-> In x d.
Proof. intros V d x. exact (to_dict_list_complete d x). Qed.

(* ids built from the declaration stack have the form <owner id>/<name> *)
Theorem C12_id_form : forall stack name, stack <> [] -> create_id stack name = join (K"/") stack ++ K"/" ++ name.
Proof. exact id_form. Qed.

Print Assumptions C12_lists_sorted_nodup.
Print Assumptions C12_lists_complete.
Print Assumptions C12_id_form.
