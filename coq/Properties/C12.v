(* C12  The API JSON is a complete, internally consistent inventory (container, serialisation order, ids). *)
From Coq Require Import List String Ascii ZArith Bool Permutation Sorting.Sorted. Import ListNotations.
From SV Require Import Lib.Str Model.Types Model.Api Model.FrontSmall Proofs.FrontSmallProofs.
From SV Require Import Model.View Model.Front Model.Json Proofs.WalkProofs Proofs.JsonProofs Proofs.ResolveProofs Model.Run Proofs.RunMoreProofs.

(* every top-level list is sorted by id and free of duplicates, whatever the order of registration *)
Theorem C12_lists_sorted_nodup : forall (V : Type) (ops : list (str * V)),
  Sorted (fun a b => FrontSmallProofs.key_leb a b = true) (sorted_entries (add_all ops)) /\ NoDup (map fst (sorted_entries (add_all ops))).
Proof. intros V ops. exact (to_dict_list_sorted_nodup ops). Qed.

(* and holds exactly the registered entries *)
Theorem C12_lists_complete : forall (V : Type) (d : list (str * V)) x, In x (sorted_entries d) <-> In x d.
Proof. intros V d x. exact (to_dict_list_complete d x). Qed.

(* ids built from the declaration stack have the form <owner id>/<name> *)
Theorem C12_id_form : forall stack name, stack <> [] -> create_id stack name = join (K"/") stack ++ K"/" ++ name.
Proof. exact id_form. Qed.

(* WHOLE WALK: a module is registered under the id of its tree, and every function, class and enum it lists has the id
   <module id>/<name> and is listed exactly once (the same statement as C03_front_module_inventory, read for the ids) *)
Theorem C12_front_module_ids : forall al d pref_doc warn st m st' w,
  walk_module al d pref_doc warn st m = Ok (st', w) -> vs_stack st = [] ->
  exists md, vs_modules st' = dict_set (m_id md) md (vs_modules st) /\ m_id md = dots_to_slashes (mf_fullname m) /\
    map f_name (m_functions md) = map fn_name (member_funcs (walked m)) /\
    map f_id (m_functions md) = map (fun f => m_id md ++ K"/" ++ fn_name f) (member_funcs (walked m)) /\
    map c_name (m_classes md) = map cd_name (member_classes (walked m)) /\
    map c_id (m_classes md) = map (fun c => m_id md ++ K"/" ++ cd_name c) (member_classes (walked m)) /\
    map e_name (m_enums md) = map cd_name (member_enums (walked m)) /\
    map e_id (m_enums md) = map (fun c => m_id md ++ K"/" ++ cd_name c) (member_enums (walked m)).
Proof. exact module_inventory. Qed.
(* every node of the walk leaves the frames below it untouched and keeps the header (id, name, publicity) of the frame it
   was entered on: declarations are attached to their own owner and to no other *)
Theorem C12_front_single_owner : forall al d pref_doc warn m st st' w top rest,
  walk_member al d pref_doc warn st m = Ok (st', w) -> vs_stack st = top :: rest -> (forall f, top <> FFunc f) ->
  exists top', vs_stack st' = top' :: rest /\ hdr_eq top top'.
Proof. exact walk_member_single_owner. Qed.
(* ids inside a class: <class id>/<name> for every method and nested class *)
Theorem C12_front_class_ids : forall al d pref_doc warn st c st' w top rest,
  walk_member al d pref_doc warn st (CMClass c) = Ok (st', w) -> is_enum_def c = false -> vs_stack st = top :: rest ->
  exists cl, vs_stack st' = add_cls top cl :: rest /\ c_name cl = cd_name c /\ c_id cl = id_from_stack st (cd_name c) /\
    map f_name (c_methods cl) = map fn_name (class_method_defs (class_walked c)) /\
    map f_id (c_methods cl) = map (fun f => c_id cl ++ K"/" ++ fn_name f) (class_method_defs (class_walked c)) /\
    map c_name (c_classes cl) = map cd_name (member_classes (class_walked c)) /\
    map c_id (c_classes cl) = map (fun x => c_id cl ++ K"/" ++ cd_name x) (member_classes (class_walked c)).
Proof. exact class_inventory. Qed.
(* WHOLE ANALYZER AND SERIALISATION (Model/Json.v mirrors API.to_dict): in the JSON value of every run each of the eight top-level
   lists is sorted by id and free of duplicate ids *)
Theorem C12_json_lists_sorted : forall v o, front v = Ok o ->
  sorted_nodup m_id (sort_by_key m_id (api_modules (o_api o))) /\
  sorted_nodup c_id (sorted_values c_id (api_classes (o_api o))) /\
  sorted_nodup f_id (sorted_values f_id (fl_functions (o_flatd o))) /\
  sorted_nodup r_id (sorted_values r_id (fl_results (o_flatd o))) /\
  sorted_nodup e_id (sorted_values e_id (fl_enums (o_flatd o))) /\
  sorted_nodup fst (sort_by_key fst (fl_enum_insts (o_flatd o))) /\
  sorted_nodup a_id (sorted_values a_id (fl_attrs (o_flatd o))) /\
  sorted_nodup p_id (sorted_values p_id (fl_params (o_flatd o))).
Proof. exact front_json_lists_sorted. Qed.
(* internal consistency, for every view: every id that a record lists is a key of the flat dictionary of its kind -
   mod_res K m: the classes, functions and enums listed by module m;  cls_res K c: the methods, the constructor, the attributes
   and the nested classes listed by class c;  func_res K f: the results and parameters of f;  enum_res K e: the instances of e
   (K = the key lists of the outcome's dictionaries, outcome_keys) *)
Theorem C12_front_ids_resolve : forall v o, front v = Ok o ->
  let K := outcome_keys o in
  Forall (mod_res K) (api_modules (o_api o)) /\
  Forall (fun kv : str * cls => cls_res K (snd kv)) (api_classes (o_api o)) /\
  Forall (fun kv : str * func => func_res K (snd kv)) (fl_functions (o_flatd o)) /\
  Forall (fun kv : str * enum_ => enum_res K (snd kv)) (fl_enums (o_flatd o)).
Proof. exact front_ids_resolve. Qed.
(* ... and on the lists the JSON writer prints (Model/Json.v: api_json): every id listed inside a module, class, function or enum
   entry is the "id" of an entry of the top-level list of its kind *)
Theorem C12_json_ids_resolve : forall v o, front v = Ok o ->
  let a := o_api o in let f := o_flatd o in
  let CI := map c_id (sorted_values c_id (api_classes a)) in
  let FI := map f_id (sorted_values f_id (fl_functions f)) in
  let RI := map r_id (sorted_values r_id (fl_results f)) in
  let PI := map p_id (sorted_values p_id (fl_params f)) in
  let AI := map a_id (sorted_values a_id (fl_attrs f)) in
  let EI := map e_id (sorted_values e_id (fl_enums f)) in
  let II := map fst (sort_by_key fst (fl_enum_insts f)) in
  (forall m, In m (sort_by_key m_id (api_modules a)) ->
     incl (map c_id (m_classes m)) CI /\ incl (map f_id (m_functions m)) FI /\ incl (map e_id (m_enums m)) EI) /\
  (forall c, In c (sorted_values c_id (api_classes a)) ->
     incl (map f_id (c_methods c)) FI /\ (match c_ctor c with Some k => In (f_id k) FI | None => True end) /\
     incl (map a_id (c_attrs c)) AI /\ incl (map c_id (c_classes c)) CI) /\
  (forall fn, In fn (sorted_values f_id (fl_functions f)) ->
     incl (map r_id (f_results fn)) RI /\ incl (map p_id (f_params fn)) PI) /\
  (forall e, In e (sorted_values e_id (fl_enums f)) -> incl (map fst (e_instances e)) II).
Proof. exact json_ids_resolve. Qed.
(* ... of every completed run of the whole tool *)
Theorem C12_run_ids_resolve : forall v nc fs0 out, run v nc fs0 = Ok out ->
  let K := output_keys out in
  Forall (mod_res K) (api_modules (out_api out)) /\
  Forall (fun kv : str * cls => cls_res K (snd kv)) (api_classes (out_api out)) /\
  Forall (fun kv : str * func => func_res K (snd kv)) (fl_functions (out_flatd out)) /\
  Forall (fun kv : str * enum_ => enum_res K (snd kv)) (fl_enums (out_flatd out)).
Proof. exact run_ids_resolve. Qed.
Print Assumptions C12_lists_sorted_nodup.
Print Assumptions C12_lists_complete.
Print Assumptions C12_id_form.
Print Assumptions C12_front_module_ids.
Print Assumptions C12_front_single_owner.
Print Assumptions C12_front_class_ids.
Print Assumptions C12_json_lists_sorted.
Print Assumptions C12_front_ids_resolve.
Print Assumptions C12_json_ids_resolve.
Print Assumptions C12_run_ids_resolve.
