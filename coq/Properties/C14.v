(* C14  Type-source preference settles only real conflicts; warnings never alter output. *)
From Coq Require Import List String Ascii ZArith Bool Permutation Sorting.Sorted. Import ListNotations.
From SV Require Import Lib.Str Model.Types Model.Api Model.FrontSmall Model.View Model.Front Proofs.FrontSmallProofs Proofs.WalkProofs.
From SV Require Import Model.DocTypes Proofs.DocTypesProofs.
From SV Require Import Model.Layout Model.Run Proofs.RunProofs.

(* hint under CODE, docstring type under DOCSTRING, the only available one otherwise *)
Theorem C14_param_choice : forall pref_doc warn p,
  p_type (fst (reconcile_param pref_doc warn p)) = chosen_type pref_doc (p_type p) (p_doc_type p).
Proof. exact param_choice. Qed.

Theorem C14_param_warn_pure : forall pref_doc w1 w2 p, fst (reconcile_param pref_doc w1 p) = fst (reconcile_param pref_doc w2 p).
Proof. exact param_warn_pure. Qed.

Theorem C14_param_warn_iff : forall pref_doc warn p,
  snd (reconcile_param pref_doc warn p) = true <->
  exists c d, p_type p = Some c /\ p_doc_type p = Some d /\ py_eq c d = false /\ warn = true.
Proof. exact param_warn_iff. Qed.

Theorem C14_result_warn_pure : forall pref_doc w1 w2 fid rs docs,
  fst (reconcile_results pref_doc w1 fid rs docs) = fst (reconcile_results pref_doc w2 fid rs docs).
Proof. exact result_warn_pure. Qed.

Theorem C14_result_no_warning_when_ignored : forall pref_doc fid rs docs, snd (reconcile_results pref_doc false fid rs docs) = 0.
Proof. exact result_no_warn_when_ignored. Qed.

Theorem C14_result_only_hint : forall pref_doc warn fid rs docs,
  Forall (fun d => rd_type d = None) docs -> reconcile_results pref_doc warn fid rs docs = (rs, 0).
Proof. exact result_only_hint. Qed.

Theorem C14_result_code_preference_keeps_hints : forall warn fid rs docs,
  exists extra, fst (reconcile_results false warn fid rs docs) = rs ++ extra.
Proof. exact result_code_preference_keeps_hints. Qed.

(* the result warning also fires when hint and docstring agree (recorded finding result_warn_always) *)
Theorem C14_result_warn_always_refuted :
  exists fid rs docs, snd (reconcile_results false true fid rs docs) = 1 /\
    (exists r d t, rs = [r] /\ docs = [d] /\ r_type r = Some t /\ rd_type d = Some t).
Proof. exact result_warn_always_refuted. Qed.

(* WHOLE ANALYZER: for every view (every package, every docstring answer), the API object and the key order of its
   dictionaries - hence the JSON file and every stub - are the same with warnings on and off; so is the error, if the run
   aborts.  Only the log differs. *)
Theorem C14_front_warn_pure : forall v w1 w2, output_of (front (with_warn v w1)) = output_of (front (with_warn v w2)).
Proof. exact front_warn_pure. Qed.
(* WHOLE TOOL (analyzer, generator and file layout composed): the API object, its key orders, the stub data and the files
   written into any initial tree are the same with warnings on and off; only the log differs *)
Theorem C14_run_warn_pure : forall v nc fs0 w1 w2, artefacts (run (with_warn v w1) nc fs0) = artefacts (run (with_warn v w2) nc fs0).
Proof. exact run_warn_pure. Qed.
(* THE DOCSTRING TYPE (model of _griffe_annotation_to_api_type, compared with the code on every type expression of generated
   docstrings): an alternative chain `a | b | c | ...` becomes the union of the types of all its alternatives that have one,
   rightmost first - none is dropped, however long the chain; the function is total by construction (no loop that can run on) *)
Theorem C14_doc_type_union_chain : forall numpy l r,
  doc_type numpy (GBinOp l r) = Some (TUnion (somes (map (doc_type numpy) (chain (GBinOp l r))))).
Proof. exact binop_chain. Qed.
Theorem C14_doc_type_unparsable_string : forall numpy s,
  doc_type numpy (GStr s (GStr s GOther)) = if str_eqb s (K"None") then Some none_type else None.
Proof. exact unparsable_string. Qed.
Print Assumptions C14_param_choice.
Print Assumptions C14_param_warn_pure.
Print Assumptions C14_param_warn_iff.
Print Assumptions C14_result_warn_pure.
Print Assumptions C14_result_no_warning_when_ignored.
Print Assumptions C14_result_only_hint.
Print Assumptions C14_result_code_preference_keeps_hints.
Print Assumptions C14_result_warn_always_refuted.
Print Assumptions C14_front_warn_pure.
Print Assumptions C14_run_warn_pure.
Print Assumptions C14_doc_type_union_chain.
Print Assumptions C14_doc_type_unparsable_string.
