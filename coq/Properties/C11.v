(* C11  Every referenced class is declared or imported, and every import resolves (import bookkeeping). *)
From Coq Require Import List String Ascii ZArith Bool Permutation Sorting.Sorted. Import ListNotations.
From SV Require Import Lib.Str Model.Types Model.Api Model.Back Proofs.MoreProofs Proofs.OrderProofs.
From SV Require Import Model.View Model.Front Proofs.FrontProofs.

Theorem C11_builtins_not_imported : forall classes rmap q s,
  (str_eqb (hd [] (split_ch dot q)) (K"builtins") && Nat.eqb (List.length (split_ch dot q)) 2) || str_eqb q (K"typing.Any") = true ->
  q <> [] -> add_to_imports classes rmap q s = Ok (tt, s).
Proof. exact builtins_not_imported. Qed.

(* a class of another library is recorded for a placeholder stub and imported under its qualified name *)
Theorem C11_foreign_class_registered : forall classes rmap q s s',
  add_to_imports classes rmap q s = Ok (tt, s') ->
  q <> [] ->
  (str_eqb (hd [] (split_ch dot q)) (K"builtins") && Nat.eqb (List.length (split_ch dot q)) 2) || str_eqb q (K"typing.Any") = false ->
  contains (slash_to_dot (get_module_id true s)) q = false ->
  find (fun kv => is_path_connected_to_class rmap (dot_to_slash q) (fst kv)) classes = None ->
  In q (g_outside s') /\ (str_eqb (dot_to_slash q) (get_module_id false s) = false -> In q (g_imports s')).
Proof. exact foreign_class_registered. Qed.

(* the import path chosen for a class of the package is a re-export of minimal depth *)
Theorem C11_import_path_minimal : forall l r, select l = Some r -> In r l /\ forall x, In x l -> id_len r <= id_len x.
Proof. exact select_minimal. Qed.

(* ANALYZER SIDE: the list of re-exporting packages stored with a declaration (from which the generator picks the import path)
   is sorted by package id and free of duplicates, whatever the iteration order of the sets it was collected from *)
Theorem C11_front_reexported_by_sorted_nodup : forall rm qname,
  Sorting.Sorted.Sorted (fun a b => str_leb (rm_id a) (rm_id b) = true) (get_reexported_by rm qname) /\
  NoDup (map rm_id (get_reexported_by rm qname)).
Proof. exact reexported_by_sorted_nodup. Qed.
Print Assumptions C11_builtins_not_imported.
Print Assumptions C11_foreign_class_registered.
Print Assumptions C11_import_path_minimal.
Print Assumptions C11_front_reexported_by_sorted_nodup.
