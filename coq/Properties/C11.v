(* C11  Every referenced class is declared or imported, and every import resolves (import bookkeeping). *)
From Coq Require Import List String Ascii ZArith Bool Permutation Sorting.Sorted. Import ListNotations.
From SV Require Import Lib.Str Model.Types Model.Api Model.Back Proofs.MoreProofs Proofs.OrderProofs.
From SV Require Import Model.View Model.Front Proofs.FrontProofs Proofs.ImportProofs Model.Layout Proofs.PlaceholderProofs.

Theorem C11_builtins_not_imported : forall classes rmap q s,
  (str_eqb (hd [] (split_ch dot q)) (K"builtins") && Nat.eqb (List.length (split_ch dot q)) 2) || str_eqb q (K"typing.Any") = true ->
  q <> [] -> add_to_imports classes rmap q s = Ok (tt, s).
Proof. exact builtins_not_imported. Qed.

(* a class of another library is recorded for a placeholder stub and imported under its qualified name *)
Theorem C11_foreign_class_registered : forall classes rmap q s s',
  add_to_imports classes rmap q s = Ok (tt, s') ->
  q <> [] ->
  (str_eqb (hd [] (split_ch dot q)) (K"builtins") && Nat.eqb (List.length (split_ch dot q)) 2) || str_eqb q (K"typing.Any") = false ->
  contains (slash_to_dot (get_module_id true s)) q = false ->
  find (fun kv => is_path_connected_to_class rmap (dot_to_slash q) (fst kv)) classes = None ->
  In q (g_outside s') /\ (str_eqb (dot_to_slash q) (get_module_id false s) = false -> In q (g_imports s')).
Proof. exact foreign_class_registered. Qed.

(* the import path chosen for a class of the package is a re-export of minimal depth *)
Theorem C11_import_path_minimal : forall l r, select l = Some r -> In r l /\ forall x, In x l -> id_len r <= id_len x.
Proof. exact select_minimal. Qed.

(* ANALYZER SIDE: the list of re-exporting packages stored with a declaration (from which the generator picks the import path)
   is sorted by package id and free of duplicates, whatever the iteration order of the sets it was collected from *)
Theorem C11_front_reexported_by_sorted_nodup : forall rm qname,
  Sorting.Sorted.Sorted (fun a b => str_leb (rm_id a) (rm_id b) = true) (get_reexported_by rm qname) /\
  NoDup (map rm_id (get_reexported_by rm qname)).
Proof. exact reexported_by_sorted_nodup. Qed.
(* every class name written as a type is imported when it has to be: after a type has been rendered, for every named type at a
   rendered position (named_leaves: any nesting depth, the built-in mappings left out) the import set contains the qualified
   name _add_to_imports computes for it (import_effect; None = no import needed: builtins, typing.Any, the module itself);
   imp s s': the module ids are untouched and the import set has only grown *)
Theorem C11_type_names_are_imported : forall classes rmap nc t s x s',
  type_string classes rmap nc t s = Ok (x, s') ->
  imp s s' /\ Forall (fun nq : str * str => imported classes rmap (snd nq) s s') (named_leaves t).
Proof. exact type_string_imports. Qed.
(* one step of the bookkeeping: the computed name is in the set afterwards, nothing is removed *)
Theorem C11_add_to_imports_effect : forall classes rmap q s x s',
  add_to_imports classes rmap q s = Ok (x, s') -> imp s s' /\ imported classes rmap q s s'.
Proof. exact add_to_imports_effect. Qed.
(* ... in every position the statement names: parameter lists, result lists (up to a `None` result, which ends the list),
   attribute types, public superclasses *)
Theorem C11_parameter_types_are_imported : forall classes rmap nc ps indent im s x s',
  parameter_string classes rmap nc ps indent im s = Ok (x, s') ->
  imp s s' /\ Forall (fun nq : str * str => imported classes rmap (snd nq) s s') (flat_map param_leaves (if im then tl ps else ps)).
Proof. exact parameter_string_imports. Qed.
Theorem C11_result_types_are_imported : forall classes rmap nc rs s x s',
  result_string classes rmap nc rs s = Ok (x, s') ->
  imp s s' /\ Forall (fun nq : str * str => imported classes rmap (snd nq) s s') (result_leaves rs).
Proof. exact result_string_imports. Qed.
Theorem C11_attribute_type_is_imported : forall classes rmap nc ot s x s',
  type_string_opt classes rmap nc ot s = Ok (x, s') ->
  imp s s' /\ Forall (fun nq : str * str => imported classes rmap (snd nq) s s') (match ot with Some t => named_leaves t | None => [] end).
Proof. exact type_string_opt_imports. Qed.
Theorem C11_public_superclasses_are_imported : forall classes rmap (inline : str -> M str),
  (forall sc s x s', inline sc s = Ok (x, s') -> imp s s') ->
  forall sups names text s r s', super_loop classes rmap inline sups names text s = Ok (r, s') ->
  imp s s' /\ Forall (fun sc => imported classes rmap sc s s') (filter (fun sc => negb (Naming.is_internal (super_name sc))) sups).
Proof. exact super_loop_imports. Qed.
(* a whole function or method written here: the named types of its parameters, of the bounds of its own type variables and of its
   results are imported when they have to be *)
Theorem C11_function_types_are_imported : forall classes rmap nc f indent is_method in_rx s x s',
  function_string classes rmap nc f indent is_method in_rx s = Ok (x, s') ->
  (if negb is_method && negb in_rx then shorter_reexport (f_name f) (f_reexported_by f) s else None) = None ->
  imp s s' /\ Forall (fun nq : str * str => imported classes rmap (snd nq) s s') (func_leaves nc (g_class_generics s) is_method f).
Proof. exact function_string_imports. Qed.
(* a module stub: there is a state s0 right after the per-module reset (empty import set) such that the final import set - the one
   the import block prints (C03_module_stub_inventory) - contains, for every public function of the module that is written here,
   the import of every named type of its parameters, type-variable bounds and results; no renderer of a class or function ever
   removes an import or touches the module ids (imp) *)
Theorem C11_module_function_types_are_imported : forall classes rmap nc m s text pkg s',
  module_string classes rmap nc m s = Ok ((text, pkg), s') ->
  exists s0 rx, g_imports s0 = [] /\ g_class_generics s0 = [] /\ imp s0 s' /\
    forall f, In f (m_functions m) -> f_public f = true ->
      (if negb rx then shorter_reexport (f_name f) (f_reexported_by f) s0 else None) = None ->
      Forall (fun nq : str * str => imported classes rmap (snd nq) s0 s') (func_leaves nc [] false f).
Proof. exact module_string_imports. Qed.
Theorem C11_class_rendering_keeps_imports : forall classes rmap nc fuel c indent rx s x s',
  class_string classes rmap nc fuel c indent rx s = Ok (x, s') -> imp s s'.
Proof. exact class_string_imp. Qed.
(* a whole class written here: the named types of its constructor parameters and type-parameter bounds, of every written attribute,
   of every rendered method and property (gens: the class's generics after its header) and its public superclasses are imported
   when they have to be *)
Theorem C11_class_types_are_imported : forall classes rmap nc fu c indent rx s x s',
  class_string classes rmap nc (S fu) c indent rx s = Ok (x, s') ->
  (if negb rx then shorter_reexport (c_name c) (c_reexported_by c) s else None) = None ->
  imp s s' /\ all_imported classes rmap s s' (class_sig_leaves c) /\
  Forall (fun a => all_imported classes rmap s s' (attr_leaves a)) (filter Spec.Markers.attr_rendered (c_attrs c)) /\
  (exists gens, Forall (fun m => all_imported classes rmap s s' (method_leaves nc gens m))
                       (filter (fun m => negb (Proofs.GenProofs.method_skipped false [] m)) (c_methods c))) /\
  Forall (fun sc => imported classes rmap sc s s')
         (if nonempty (c_supers c) && negb (is_abstract c) then filter (fun sc => negb (Naming.is_internal (super_name sc))) (c_supers c) else []).
Proof. exact class_string_imports. Qed.
(* "including the placeholder stubs created for classes of other libraries": every class that is registered for a placeholder
   (C11_foreign_class_registered) is declared in the placeholder file of its module, for every arrival order and every
   initial content of the output directory *)
Theorem C11_placeholder_declares_every_class : forall nc cs fs0 fs created,
  well_formed cs -> go_outside nc cs (fs0, []) = Ok (fs, created) ->
  forall c, In c cs -> exists pre post, fs_lookup (file_of c) fs = Some (pre ++ text_of nc c ++ post).
Proof. exact placeholder_declares_every_class. Qed.
Print Assumptions C11_builtins_not_imported.
Print Assumptions C11_foreign_class_registered.
Print Assumptions C11_import_path_minimal.
Print Assumptions C11_front_reexported_by_sorted_nodup.
Print Assumptions C11_type_names_are_imported.
Print Assumptions C11_add_to_imports_effect.
Print Assumptions C11_parameter_types_are_imported.
Print Assumptions C11_result_types_are_imported.
Print Assumptions C11_attribute_type_is_imported.
Print Assumptions C11_public_superclasses_are_imported.
Print Assumptions C11_function_types_are_imported.
Print Assumptions C11_module_function_types_are_imported.
Print Assumptions C11_class_rendering_keeps_imports.
Print Assumptions C11_class_types_are_imported.
Print Assumptions C11_placeholder_declares_every_class.
