(* C16  Stub generation neither mutates the API model nor depends on earlier generations (file creation part;
   the generator itself is a function of the API value in the model, see DESIGN). *)
From Coq Require Import List String Ascii ZArith Bool Permutation Sorting.Sorted. Import ListNotations.
From SV Require Import Lib.Str Model.Types Model.Api Model.Back Model.Layout Proofs.GenProofs Proofs.MoreProofs.

(* writing the module stubs again over the tree they produced leaves every path with the same content *)
From SV Require Import Model.Layout Proofs.PlaceholderProofs.
Theorem C16_module_stub_rerun_idempotent : forall (data : list entry) fs p,
  let write := fold_left (fun fs e => fs_write (entry_path e) (let '(_, _, t, _) := e in t) fs) data in
  fs_lookup p (write (write fs)) = fs_lookup p (write fs).
Proof. exact module_stub_rerun_idempotent. Qed.

Theorem C16_write_idempotent : forall p c fs, fs_write p c (fs_write p c fs) = fs_write p c fs.
Proof. exact fs_write_idem. Qed.

(* rendering is a function of the type value: the same type renders identically wherever it is shown *)
Theorem C16_type_rendering_state_free : forall classes rmap nc t s1 x1 s1' s2 x2 s2',
  type_string classes rmap nc t s1 = Ok (x1, s1') -> type_string classes rmap nc t s2 = Ok (x2, s2') -> x1 = x2.
Proof.
  intros classes rmap nc t s1 x1 s1' s2 x2 s2' H1 H2.
  rewrite (Proofs.BackProofs.type_string_is_tstr _ _ _ _ _ _ _ H1), (Proofs.BackProofs.type_string_is_tstr _ _ _ _ _ _ _ H2). reflexivity.
Qed.

(* the placeholder stubs of other libraries' classes do not depend on what the output directory held before - the files of an
   earlier run included: a second run into the same directory leaves them with the same contents *)
Theorem C16_placeholder_files_independent_of_initial_tree : forall nc cs fsa fsb fa ca fb cb,
  well_formed cs -> go_outside nc cs (fsa, []) = Ok (fa, ca) -> go_outside nc cs (fsb, []) = Ok (fb, cb) ->
  forall c, In c cs -> fs_lookup (file_of c) fa = fs_lookup (file_of c) fb.
Proof. exact placeholder_files_independent_of_initial_tree. Qed.
Print Assumptions C16_module_stub_rerun_idempotent.
Print Assumptions C16_write_idempotent.
Print Assumptions C16_type_rendering_state_free.
Print Assumptions C16_placeholder_files_independent_of_initial_tree.
