(* C19  API type values obey round-trip, equality and hashing laws. *)
From Coq Require Import List Permutation.
From SV Require Import Lib.Str Model.Types Proofs.TypesProofs Proofs.EqProofs Proofs.HashProofs.

(* serialising and parsing back yields the same value (hence an equal one, and the same dictionary again) *)
Theorem C19_roundtrip : forall t, from_dict (S (depth t)) (to_dict t) = Ok t.
Proof. exact roundtrip. Qed.

Theorem C19_roundtrip_full :
  forall t, exists t', from_dict (S (depth t)) (to_dict t) = Ok t' /\ py_eq t t' = true /\ to_dict t' = to_dict t.
Proof. exact roundtrip_full. Qed.

Theorem C19_eq_refl : forall t, py_eq t t = true.
Proof. exact py_eq_refl. Qed.

Theorem C19_eq_sym : forall a b, py_eq a b = py_eq b a.
Proof. exact py_eq_sym. Qed.

Theorem C19_eq_trans : forall a b c, py_eq a b = true -> py_eq b c = true -> py_eq a c = true.
Proof. exact py_eq_trans. Qed.

(* equal values have equal hashes (hash keys: equal keys imply equal Python hashes) *)
Theorem C19_eq_hash : forall a b, py_eq a b = true -> hk_eqb (hkey a) (hkey b) = true.
Proof. exact eq_hash. Qed.

(* types that ignore element order in equality also ignore it in hashing *)
Theorem C19_perm_eq_hash :
  forall C ts ts', seq_ctor C -> Permutation ts ts' ->
  py_eq (C ts) (C ts') = true /\ hk_eqb (hkey (C ts)) (hkey (C ts')) = true.
Proof. exact perm_eq_hash. Qed.

Theorem C19_callable_params_perm_eq_hash : forall ps ps' r, Permutation ps ps' ->
  py_eq (TCallable ps r) (TCallable ps' r) = true /\ hk_eqb (hkey (TCallable ps r)) (hkey (TCallable ps' r)) = true.
Proof. exact callable_params_perm_eq_hash. Qed.

Theorem C19_literal_perm_eq_hash :
  forall ls ls', Permutation ls ls' ->
  py_eq (TLiteral ls) (TLiteral ls') = true /\ hk_eqb (hkey (TLiteral ls)) (hkey (TLiteral ls')) = true.
Proof. exact literal_perm_eq_hash. Qed.

Print Assumptions C19_roundtrip.
Print Assumptions C19_roundtrip_full.
Print Assumptions C19_eq_refl.
Print Assumptions C19_eq_sym.
Print Assumptions C19_eq_trans.
Print Assumptions C19_eq_hash.
Print Assumptions C19_perm_eq_hash.
Print Assumptions C19_callable_params_perm_eq_hash.
Print Assumptions C19_literal_perm_eq_hash.
