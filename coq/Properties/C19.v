(* C19  API type values obey round-trip, equality and hashing laws. *)
From Coq Require Import List Permutation.
From SV Require Import Lib.Str Model.Types Proofs.TypesProofs.

(* serialising and parsing back yields the same value (hence an equal one, and the same dictionary again) *)
Theorem C19_roundtrip : forall t, from_dict (S (depth t)) (to_dict t) = Ok t.
Proof. exact roundtrip. Qed.

Theorem C19_roundtrip_full :
  forall t, exists t', from_dict (S (depth t)) (to_dict t) = Ok t' /\ py_eq t t' = true /\ to_dict t' = to_dict t.
Proof. exact roundtrip_full. Qed.

Theorem C19_eq_refl : forall t, py_eq t t = true.
Proof. exact py_eq_refl. Qed.

(* types that ignore element order in equality ... *)
Theorem C19_perm_eq : forall C ts ts', seq_ctor C -> Permutation ts ts' -> py_eq (C ts) (C ts') = true.
Proof. exact perm_eq. Qed.

(* ... also ignore it in hashing.  Full statement (target):
     forall C ts ts', seq_ctor C -> Permutation ts ts' -> hk_eqb (hkey (C ts)) (hkey (C ts')) = true.
   Proved below for element lists that are pairwise unequal; what is missing is the general law "equal values have equal
   hash keys", on which the choice of the representative kept by a frozenset depends. *)
Theorem C19_perm_eq_hash_partial :
  forall C ts ts', seq_ctor C -> Permutation ts ts' -> Distinct py_eq ts ->
  py_eq (C ts) (C ts') = true /\ hk_eqb (hkey (C ts)) (hkey (C ts')) = true.
Proof. exact perm_eq_hash_partial. Qed.

Theorem C19_literal_perm_eq_hash_partial :
  forall ls ls', Permutation ls ls' -> Distinct lit_eqb ls ->
  py_eq (TLiteral ls) (TLiteral ls') = true /\ hk_eqb (hkey (TLiteral ls)) (hkey (TLiteral ls')) = true.
Proof. exact literal_perm_eq_hash_partial. Qed.

Theorem C19_hash_refl : forall t, hk_eqb (hkey t) (hkey t) = true.
Proof. exact hash_refl. Qed.

Print Assumptions C19_roundtrip.
Print Assumptions C19_roundtrip_full.
Print Assumptions C19_eq_refl.
Print Assumptions C19_perm_eq.
Print Assumptions C19_perm_eq_hash_partial.
Print Assumptions C19_literal_perm_eq_hash_partial.
Print Assumptions C19_hash_refl.
