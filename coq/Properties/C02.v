(* C02  Every emitted stub file is syntactically valid Safe-DS (identifier part: keywords are back-quoted at every name site). *)
From Coq Require Import List String Ascii ZArith Bool Permutation Sorting.Sorted. Import ListNotations.
From SV Require Import Lib.Str Gen.Tables Spec.Keywords Model.Types Model.Naming Model.Api Model.Back
     Proofs.NamingProofs Proofs.BackProofs Proofs.MoreProofs.

(* each of the 33 keywords of the language definition is back-quoted by the escape function read from the code *)
Theorem C02_escape_covers_keywords : forallb (fun k => str_eqb (escape k) (bq :: k ++ [bq])) spec_keywords = true.
Proof. exact escape_covers_keywords. Qed.

Theorem C02_keyword_table_is_spec :
  forallb (fun k => mem_str k spec_keywords) t_keywords && forallb (fun k => mem_str k t_keywords) spec_keywords = true.
Proof. exact keyword_table_is_spec. Qed.

Theorem C02_escape_shape : forall s, escape s = s \/ escape s = bq :: s ++ [bq].
Proof. exact escape_shape. Qed.

(* every declaration site (class, attribute, function, property, parameter, enum member) emits its identifier through
   emit_name, whose identifier is the escaped converted name *)
Theorem C02_name_sites_escaped : forall nc c n, snd (emit_name nc c n) = escape (convert nc c n).
Proof. exact emit_name_escaped. Qed.

(* conversion keeps identifier characters: an [A-Za-z0-9_] name stays one *)
Theorem C02_converted_ident_chars : forall nc c name, ascii_ident name = true -> ascii_ident (convert nc c name) = true.
Proof. exact convert_ident_chars. Qed.

Print Assumptions C02_escape_covers_keywords.
Print Assumptions C02_keyword_table_is_spec.
Print Assumptions C02_escape_shape.
Print Assumptions C02_name_sites_escaped.
Print Assumptions C02_converted_ident_chars.
