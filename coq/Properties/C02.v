(* C02  Every emitted stub file is syntactically valid Safe-DS (identifier part: keywords are back-quoted at every name site). *)
From Coq Require Import List String Ascii ZArith Bool Permutation Sorting.Sorted. Import ListNotations.
From SV Require Import Lib.Str Gen.Tables Spec.Keywords Model.Types Model.Naming Model.Api Model.Back
     Spec.Sds Proofs.NamingProofs Proofs.BackProofs Proofs.MoreProofs Proofs.SdsProofs.

(* each of the 33 keywords of the language definition is back-quoted by the escape function read from the code *)
Theorem C02_escape_covers_keywords : forallb (fun k => str_eqb (escape k) (bq :: k ++ [bq])) spec_keywords = true.
Proof. exact escape_covers_keywords. Qed.

Theorem C02_keyword_table_is_spec :
  forallb (fun k => mem_str k spec_keywords) t_keywords && forallb (fun k => mem_str k t_keywords) spec_keywords = true.
Proof. exact keyword_table_is_spec. Qed.

Theorem C02_escape_shape : forall s, escape s = s \/ escape s = bq :: s ++ [bq].
Proof. exact escape_shape. Qed.

(* every declaration site (class, attribute, function, property, parameter, enum member) emits its identifier through
   emit_name, whose identifier is the escaped converted name *)
Theorem C02_name_sites_escaped : forall nc c n, snd (emit_name nc c n) = escape (convert nc c n).
Proof. exact emit_name_escaped. Qed.

(* conversion keeps identifier characters: an [A-Za-z0-9_] name stays one *)
Theorem C02_converted_ident_chars : forall nc c name, ascii_ident name = true -> ascii_ident (convert nc c name) = true.
Proof. exact convert_ident_chars. Qed.

(* every name printed at a declaration site is a legal identifier token of the language definition (non-empty, not
   starting with a digit, keywords only between back-quotes), naming conversion on or off, for every Python
   identifier over [A-Za-z0-9_] *)
Theorem C02_emitted_name_is_legal : forall nc c name,
  is_ident name = true -> legal_ident spec_keywords (snd (emit_name nc c name)) = true.
Proof. intros nc c name H. rewrite emit_name_escaped. now apply emitted_name_is_legal. Qed.

(* names that the conversion would turn into a non-identifier (_1, __, _9_lives) are emitted as they are *)
Theorem C02_unconvertible_names_kept : forall nc c name, keeps name = true -> convert nc c name = name.
Proof. exact convert_kept. Qed.

Example C02_kept_examples : keeps (K"_1") = true /\ keeps (K"__") = true /\ keeps (K"_9_lives") = true /\ keeps (K"_x1") = false.
Proof. repeat split; reflexivity. Qed.

(* the full statement ("every identifier is a legal Safe-DS identifier, whatever names the package contains") is false:
   a Python identifier outside ASCII is printed as it is.  Witness: the UTF-8 bytes of a-umlaut (recorded finding
   non_ascii_identifier). *)
Theorem C02_every_identifier_legal_refuted :
  exists name, legal_ident spec_keywords (snd (emit_name false false name)) = false.
Proof. exists [Ascii.ascii_of_nat 195; Ascii.ascii_of_nat 164]. vm_compute. reflexivity. Qed.

(* ---- lexical structure, against the scanner of Spec/Sds.v (written from the language definition) ---- *)

(* fragments that are closed (from a clean code state back to a clean code state, same bracket depths, no error)
   compose, and a closed text is lexically well formed *)
Theorem C02_closed_fragments_compose : forall l, Forall closed l -> closed (List.concat l).
Proof. exact closed_concat. Qed.

Theorem C02_closed_is_well_formed : forall text, closed text -> lex_ok text = true.
Proof. exact closed_lex_ok. Qed.

(* every name printed at a declaration site is a closed fragment, keyword or not *)
Theorem C02_emitted_name_closed : forall name, ascii_ident name = true -> closed (escape name).
Proof. exact emitted_name_closed. Qed.

(* a documentation comment is one closed block comment WHATEVER the text: the escape read from the source leaves no
   terminator inside *)
Theorem C02_doc_comment_closed : forall ind text, spaces ind = true ->
  closed (K"/**" ++ NL ++ escape_comment_text text ++ ind ++ K" */").
Proof. exact doc_comment_closed. Qed.

Theorem C02_escaped_comment_has_no_terminator : forall text, no_terminator false (escape_comment_text text) = true.
Proof. exact escaped_comment_has_no_terminator. Qed.

(* string literals (literal types, default values) are closed WHATEVER the value, and plain values are unchanged *)
Theorem C02_string_literal_closed : forall value, closed (quoted (escape_string_content value)).
Proof. exact escaped_string_closed. Qed.

Theorem C02_literal_type_string_closed : forall s, closed (render_lit (LStr s)).
Proof. exact literal_string_closed. Qed.

Theorem C02_quoted_default_closed : forall value, closed (requote_default (quoted value)).
Proof. exact quoted_default_closed. Qed.

Theorem C02_plain_string_unchanged : forall value, forallb plain_value_char value = true -> escape_string_content value = value.
Proof. exact escape_plain_string. Qed.

(* TODO lines: every message of the table read from the source is a closed line comment *)
Theorem C02_line_comment_closed : forall body, no_nl body = true -> closed (K"//" ++ body ++ NL).
Proof. exact line_comment_closed. Qed.

Theorem C02_todo_messages_one_line :
  forallb (fun kv => no_nl (snd kv)) t_todo_messages && no_nl t_todo_prefix && starts_with (K"//") t_todo_prefix = true.
Proof. exact todo_messages_have_no_newline. Qed.

(* the source applies the escapes at as many places as the model *)
Theorem C02_escape_sites : t_comment_escape_sites = 2 /\ t_string_escape_sites = 2.
Proof. exact escape_sites_as_modelled. Qed.

Print Assumptions C02_escape_covers_keywords.
Print Assumptions C02_keyword_table_is_spec.
(* package declarations and import paths (fix 80edd16): every segment of the module path is passed through the keyword escape, so no
   segment is written as a bare keyword (`package enum` was emitted for the placeholder of enum.Flag) *)
Theorem C02_module_path_segments_escaped : forall p,
  escape_path p = join ["."%char] (map escape (split_ch "."%char p)) /\
  Forall escaped_segment (map escape (split_ch "."%char p)).
Proof. exact escape_path_segments. Qed.
Theorem C02_module_header_escapes_path : forall nc package_info,
  exists pre, module_header nc package_info = pre ++ K"package " ++ escape_path (convert nc false package_info) ++ NL.
Proof. exact module_header_escapes_path. Qed.
Print Assumptions C02_escape_shape.
Print Assumptions C02_name_sites_escaped.
Print Assumptions C02_converted_ident_chars.
Print Assumptions C02_closed_fragments_compose.
Print Assumptions C02_closed_is_well_formed.
Print Assumptions C02_emitted_name_closed.
Print Assumptions C02_doc_comment_closed.
Print Assumptions C02_escaped_comment_has_no_terminator.
Print Assumptions C02_string_literal_closed.
Print Assumptions C02_literal_type_string_closed.
Print Assumptions C02_quoted_default_closed.
Print Assumptions C02_plain_string_unchanged.
Print Assumptions C02_line_comment_closed.
Print Assumptions C02_todo_messages_one_line.
Print Assumptions C02_escape_sites.
Print Assumptions C02_emitted_name_is_legal.
Print Assumptions C02_unconvertible_names_kept.
Print Assumptions C02_every_identifier_legal_refuted.
Print Assumptions C02_module_path_segments_escaped.
Print Assumptions C02_module_header_escapes_path.
