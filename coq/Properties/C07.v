(* C07  Results mirror the return annotation (rendering of the result list). *)
From Coq Require Import List String Ascii ZArith Bool Permutation Sorting.Sorted. Import ListNotations.
From SV Require Import Lib.Str Model.Types Model.Api Model.Back Proofs.MoreProofs.
From SV Require Import Model.FrontSmall Model.View Model.Front Proofs.FrontProofs Proofs.RunProofs.

(* "-> None": no results, and no marker either *)
Theorem C07_none_no_results : forall classes rmap nc r t s,
  r_type r = Some t -> is_none_result t = true -> result_string classes rmap nc [r] s = Ok ([], s).
Proof. exact annotated_none_no_results. Qed.

(* each rendered result is "<name>: <type>", names escaped and converted, in the order of the API results *)
Theorem C07_result_items : forall classes rmap nc rs acc s items s',
  result_items classes rmap nc rs acc s = Ok (Some items, s') ->
  exists more, items = acc ++ more /\
    Forall (fun it => exists r t, In r rs /\ r_type r = Some t /\ it = conv_esc nc (r_name r) ++ K": " ++ tstr nc t) more.
Proof. exact result_items_shape. Qed.

(* a None result inside a longer list suppresses the whole list (recorded finding none_result_suppresses_list) *)
Theorem C07_none_suppresses_refuted : forall classes rmap nc r rest acc t s,
  r_type r = Some t -> is_none_result t = true -> result_items classes rmap nc (r :: rest) acc s = Ok (None, s).
Proof. exact none_result_suppresses. Qed.

Theorem C07_result_text_shape : forall classes rmap nc rs s x s',
  result_string classes rmap nc rs s = Ok (x, s') -> x = [] \/ (exists it, x = K" -> " ++ it).
Proof. exact result_string_arity. Qed.

(* ANALYZER SIDE: an annotated function has one result per element of an annotated tuple, in order, and exactly one result
   carrying the translated type otherwise; every result id is <function id>/<result name> *)
Theorem C07_front_annotated_results : forall env f fid rdocs rt u rs amb,
  str_eqb (fn_name f) (K"__init__") = false -> annotated f = Some (rt, u) ->
  parse_results env f fid rdocs = Ok (rs, amb) ->
  exists t a, (match rt with MNone => Ok (none_named, false) | _ => mt2 env rt u end) = Ok (t, a) /\
              map r_type rs = map Some (match t with TTuple ts => ts | _ => [t] end) /\
              Forall (fun r => r_id r = fid ++ K"/" ++ r_name r) rs.
Proof. exact annotated_results. Qed.
(* END TO END: the result list the analyzer builds for a function annotated "-> None" is written without any result, whatever
   names the docstring offers (under the CODE preference the reconciliation with docstring types keeps that list:
   C14_result_code_preference_keeps_hints) *)
Theorem C07_none_annotation_end_to_end : forall classes rmap nc env f fid rdocs u rs amb s,
  str_eqb (fn_name f) (K"__init__") = false -> fn_type f = Some (FRet MNone u) ->
  parse_results env f fid rdocs = Ok (rs, amb) ->
  result_string classes rmap nc rs s = Ok ([], s).
Proof. exact none_annotation_end_to_end. Qed.
Print Assumptions C07_none_no_results.
Print Assumptions C07_result_items.
Print Assumptions C07_none_suppresses_refuted.
Print Assumptions C07_result_text_shape.
Print Assumptions C07_front_annotated_results.
Print Assumptions C07_none_annotation_end_to_end.
