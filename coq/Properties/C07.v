(* C07  Results mirror the return annotation (rendering of the result list). *)
From Coq Require Import List String Ascii ZArith Bool Permutation Sorting.Sorted. Import ListNotations.
From SV Require Import Lib.Str Model.Types Model.Api Model.Back Proofs.MoreProofs.

(* "-> None": no results, and no marker either *)
Theorem C07_none_no_results : forall classes rmap nc r t s,
  r_type r = Some t -> is_none_result t = true -> result_string classes rmap nc [r] s = Ok ([], s).
Proof. exact annotated_none_no_results. Qed.

(* each rendered result is "<name>: <type>", names escaped and converted, in the order of the API results *)
Theorem C07_result_items : forall classes rmap nc rs acc s items s',
  result_items classes rmap nc rs acc s = Ok (Some items, s') ->
  exists more, items = acc ++ more /\
    Forall (fun it => exists r t, In r rs /\ r_type r = Some t /\ it = conv_esc nc (r_name r) ++ K": " ++ tstr nc t) more.
Proof. exact result_items_shape. Qed.

(* a None result inside a longer list suppresses the whole list (recorded finding none_result_suppresses_list) *)
Theorem C07_none_suppresses_refuted : forall classes rmap nc r rest acc t s,
  r_type r = Some t -> is_none_result t = true -> result_items classes rmap nc (r :: rest) acc s = Ok (None, s).
Proof. exact none_result_suppresses. Qed.

Theorem C07_result_text_shape : forall classes rmap nc rs s x s',
  result_string classes rmap nc rs s = Ok (x, s') -> x = [] \/ (exists it, x = K" -> " ++ it).
Proof. exact result_string_arity. Qed.

Print Assumptions C07_none_no_results.
Print Assumptions C07_result_items.
Print Assumptions C07_none_suppresses_refuted.
Print Assumptions C07_result_text_shape.
