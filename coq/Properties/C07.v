(* C07  Results mirror the return annotation (rendering of the result list). *)
From Coq Require Import List String Ascii ZArith Bool Permutation Sorting.Sorted. Import ListNotations.
From SV Require Import Lib.Str Model.Types Model.Api Model.Back Proofs.MoreProofs.
From SV Require Import Model.FrontSmall Model.View Model.Front Proofs.FrontProofs Proofs.RunProofs Proofs.InferProofs.

(* "-> None": no results, and no marker either *)
Theorem C07_none_no_results : forall classes rmap nc r t s,
  r_type r = Some t -> is_none_result t = true -> result_string classes rmap nc [r] s = Ok ([], s).
Proof. exact annotated_none_no_results. Qed.

(* each rendered result is "<name>: <type>", names escaped and converted, in the order of the API results *)
Theorem C07_result_items : forall classes rmap nc rs acc s items s',
  result_items classes rmap nc rs acc s = Ok (Some items, s') ->
  exists more, items = acc ++ more /\
    Forall (fun it => exists r t, In r rs /\ r_type r = Some t /\ it = conv_esc nc (r_name r) ++ K": " ++ tstr nc t) more.
Proof. exact result_items_shape. Qed.

(* a None result inside a longer list suppresses the whole list (recorded finding none_result_suppresses_list) *)
Theorem C07_none_suppresses_refuted : forall classes rmap nc r rest acc t s,
  r_type r = Some t -> is_none_result t = true -> result_items classes rmap nc (r :: rest) acc s = Ok (None, s).
Proof. exact none_result_suppresses. Qed.

Theorem C07_result_text_shape : forall classes rmap nc rs s x s',
  result_string classes rmap nc rs s = Ok (x, s') -> x = [] \/ (exists it, x = K" -> " ++ it).
Proof. exact result_string_arity. Qed.

(* ANALYZER SIDE: an annotated function has one result per element of an annotated tuple, in order, and exactly one result
   carrying the translated type otherwise; every result id is <function id>/<result name> *)
Theorem C07_front_annotated_results : forall env f fid rdocs rt u rs amb,
  str_eqb (fn_name f) (K"__init__") = false -> annotated f = Some (rt, u) ->
  parse_results env f fid rdocs = Ok (rs, amb) ->
  exists t a, (match rt with MNone => Ok (none_named, false) | _ => mt2 env rt u end) = Ok (t, a) /\
              map r_type rs = map Some (match t with TTuple ts => ts | _ => [t] end) /\
              Forall (fun r => r_id r = fid ++ K"/" ++ r_name r) rs.
Proof. exact annotated_results. Qed.
(* END TO END: the result list the analyzer builds for a function annotated "-> None" is written without any result, whatever
   names the docstring offers (under the CODE preference the reconciliation with docstring types keeps that list:
   C14_result_code_preference_keeps_hints) *)
Theorem C07_none_annotation_end_to_end : forall classes rmap nc env f fid rdocs u rs amb s,
  str_eqb (fn_name f) (K"__init__") = false -> fn_type f = Some (FRet MNone u) ->
  parse_results env f fid rdocs = Ok (rs, amb) ->
  result_string classes rmap nc rs s = Ok ([], s).
Proof. exact none_annotation_end_to_end. Qed.
(* ---- inferred results cover the inferred types (the grouping loop of _create_inferred_results) ----
   covers rt t: the result type rt is t, or a union with t among its members (equality of the model: py_eq). For every list of
   inferred types: a named type is covered by the first result, the k-th member of a tuple type by the k-th result. *)
Theorem C07_inferred_results_cover : forall fid types docs_ rs,
  create_inferred_results fid types docs_ = Ok rs ->
  Forall (fun t => match t with
                   | TNamed _ _ => exists r, nth_error rs 0 = Some r /\ covers (r_type r) t
                   | TTuple items => forall k x, nth_error items k = Some x -> exists r, nth_error rs k = Some r /\ covers (r_type r) x
                   | _ => True
                   end) types.
Proof. exact inferred_results_cover. Qed.
(* every type that a return statement (found at any nesting depth of the body) contributes is represented among the inferred types *)
Theorem C07_returns_are_represented : forall body ts e tys t,
  infer_from_returns body = Ok (Some (TTuple ts)) ->
  In (Some e) (find_returns_list body) -> return_types e = Ok tys -> In t tys ->
  exists t', In t' ts /\ py_eq t' t = true.
Proof. exact returns_are_represented. Qed.
(* together: whatever named type some return statement produces, the first result covers it *)
Theorem C07_returned_named_type_covered : forall body ts fid docs_ rs e tys n q,
  infer_from_returns body = Ok (Some (TTuple ts)) -> create_inferred_results fid ts docs_ = Ok rs ->
  In (Some e) (find_returns_list body) -> return_types e = Ok tys -> In (TNamed n q) tys ->
  exists r, nth_error rs 0 = Some r /\ covers (r_type r) (TNamed n q).
Proof. exact returned_named_type_covered. Qed.
(* position-wise coverage of RETURNED TUPLES is false of the code: (1, "a") and ("a", 1) are one type for the tool (equality of
   tuple types ignores the order), so the first result is Int although a string can be returned there: recorded finding *)
Theorem C07_tuple_position_coverage_refuted :
  infer_from_returns refute_body = Ok (Some (TTuple refute_ts)) /\ create_inferred_results (K"f") refute_ts [] = Ok refute_rs /\
  option_map r_type (nth_error refute_rs 0) = Some (Some (TNamed (K"int") (K"builtins.int"))) /\
  return_types (ETuple [EStr (K"a"); EInt 1%Z]) = Ok [TTuple [TNamed (K"str") (K"builtins.str"); TNamed (K"int") (K"builtins.int")]].
Proof. exact tuple_position_coverage_refuted. Qed.
Print Assumptions C07_none_no_results.
Print Assumptions C07_result_items.
Print Assumptions C07_none_suppresses_refuted.
Print Assumptions C07_result_text_shape.
Print Assumptions C07_front_annotated_results.
Print Assumptions C07_none_annotation_end_to_end.
Print Assumptions C07_inferred_results_cover.
Print Assumptions C07_returns_are_represented.
Print Assumptions C07_returned_named_type_covered.
Print Assumptions C07_tuple_position_coverage_refuted.
