(* Model of the section extraction of DocstringParser (docstring_parsing/_docstring_parser.py): get_class_documentation,
   get_function_documentation, get_parameter_documentation, get_attribute_documentation, get_result_documentation and
   _get_matching_docstrings, over griffe's parsed docstring (sections with their items), which is an input. *)
From Coq Require Import List Ascii String Bool Arith ZArith.
From SV Require Import Lib.Str Model.Types Model.Api Model.View Model.DocTypes.
Import ListNotations.

(* an entry of a Parameters / Attributes / Returns section *)
(* di_name_annot: the name of a Returns entry read as a type expression (the google style hands a type over as the name) *)
Record ditem := { di_name : str; di_annot : option gexpr; di_desc : str; di_default : option str; di_name_annot : option gexpr }.
Inductive dsection :=
| SText (v : str)
| SExamples (items : list str)            (* example_data[1] of every example *)
| SParams (items : list ditem)
| SAttrs (items : list ditem)
| SReturns (items : list ditem)
| SOtherSection.
Record gdoc := { gd_value : str; gd_sections : list dsection }.

Inductive style := Numpy | Google | Sphinx.
Definition is_numpy (s : style) : bool := match s with Numpy => true | _ => false end.

Definition strip_nl (s : str) : str := strip_chars NL s.

(* description = the last text section, examples = all examples of all example sections, in order *)
Definition general_doc (g : option gdoc) : docstring :=
  match g with
  | None => {| d_desc := []; d_full := []; d_examples := [] |}
  | Some gd =>
    {| d_desc := fold_left (fun acc s => match s with SText v => strip_nl v | _ => acc end) (gd_sections gd) [];
       d_full := strip_nl (gd_value gd);
       d_examples := flat_map (fun s => match s with SExamples l => map strip_nl l | _ => [] end) (gd_sections gd) |}
  end.

(* _get_matching_docstrings: the first section of the wanted kind, its entries whose name equals the wanted name up to leading stars *)
Definition lstars (s : str) : str := lstrip_chars (K"*") s.
Definition first_section (params : bool) (gd : gdoc) : option (list ditem) :=
  match find (fun s => match s with SParams _ => params | SAttrs _ => negb params | _ => false end) (gd_sections gd) with
  | Some (SParams l) | Some (SAttrs l) => Some l
  | _ => None
  end.
Definition matching (params : bool) (gd : gdoc) (name : str) : list ditem :=
  match first_section params gd with
  | Some (x :: l) => filter (fun it => str_eqb (lstars (di_name it)) (lstars name)) (x :: l)   (* an empty section is falsy *)
  | _ => []
  end.

Section Extract.
  Variable st : style.
  Definition ty_of (a : gexpr) : option ty := doc_type (is_numpy st) a.

  (* get_parameter_documentation; on_class: the function is a constructor and the class is known *)
  Definition param_doc (on_class : bool) (class_doc func_doc : option gdoc) (is_init : bool) (pname : str) : pdoc :=
    let primary := if on_class then class_doc else func_doc in
    let m1 := match primary with Some gd => matching true gd pname | None => [] end in
    let m := match m1 with
             | [] => if is_numpy st && is_init then match func_doc with Some gd => matching true gd pname | None => [] end else []
             | _ => m1
             end in
    match rev m with
    | [] => {| pd_type := None; pd_default := []; pd_desc := [] |}
    | lastp :: _ =>
      {| pd_type := match di_annot lastp with None => None | Some a => ty_of a end;
         pd_default := match di_default lastp with Some dv => dv | None => [] end;
         pd_desc := strip_nl (di_desc lastp) |}
    end.

  (* get_attribute_documentation *)
  Definition attr_doc (class_doc ctor_doc : option gdoc) (aname : str) : adoc :=
    let m1 := match class_doc with Some gd => matching false gd aname | None => [] end in
    let m := match m1 with
             | [] => if is_numpy st then match ctor_doc with Some gd => matching false gd aname | None => [] end else []
             | _ => m1
             end in
    match rev m with
    | [] => {| ad_type := None; ad_desc := [] |}
    | lasta :: _ => {| ad_type := match di_annot lasta with None => None | Some a => ty_of a end; ad_desc := strip_nl (di_desc lasta) |}
    end.

  (* get_result_documentation *)
  Definition result_docs (func_doc : option gdoc) : res (list rdoc) :=
    match func_doc with
    | None => Ok []
    | Some gd =>
      match find (fun s => match s with SReturns _ => true | _ => false end) (gd_sections gd) with
      | Some (SReturns []) | None => Ok []
      | Some (SReturns (r0 :: rest)) =>
        match st with
        | Numpy =>
          Ok (map (fun r => {| rd_type := ty_of (match di_annot r with Some a => a | None => GOther end);
                               rd_desc := strip_nl (di_desc r); rd_name := di_name r |}) (r0 :: rest))
        | _ =>
          let annotation : option gexpr :=
            match st, di_annot r0 with
            | Google, None => match di_name r0 with [] => None | _ => di_name_annot r0 end
            | _, a => a
            end in
          Ok [{| rd_type := match annotation with Some a => ty_of a | None => None end; rd_desc := strip_nl (di_desc r0); rd_name := [] |}]
        end
      | Some _ => Ok []
      end
    end.
End Extract.
