(* The whole tool as one function of the view: analyzer, then generator and file layout. *)
From Coq Require Import List Ascii String Bool Arith ZArith.
From SV Require Import Lib.Str Model.Types Model.Api Model.Back Model.Layout Model.View Model.Front Model.Json.
Import ListNotations.

Record output := { out_api : api; out_flatd : flat; out_log : list logrec; out_amb : bool;
                   out_data : list entry; out_files : fsys; out_gst : gst }.

(* run: the API object (what the JSON file is written from), the log, and the stub files written into an initially given tree *)
Definition run (v : view) (nc : bool) (fs0 : fsys) : res output :=
  do o <- front v;
  do b <- back_run (o_api o) nc fs0;
  let '(data, s, fs) := b in
  Ok {| out_api := o_api o; out_flatd := o_flatd o; out_log := o_log o; out_amb := o_amb o; out_data := data; out_files := fs;
        out_gst := s |}.

(* everything a run leaves behind, the log excepted *)
Definition artefacts (r : res output) : res (api * flat * list entry * fsys) :=
  match r with Ok o => Ok (out_api o, out_flatd o, out_data o, out_files o) | Err e => Err e end.

(* the JSON value written to <package>__api.json (distribution and version come from the installed package metadata) *)
Definition api_file (distribution version : str) (o : output) : jv :=
  api_json distribution version {| o_api := out_api o; o_flatd := out_flatd o; o_log := out_log o; o_amb := out_amb o |}.
