(* Model of api_analyzer/_api.py: the API records the stub generator reads. *)
From Coq Require Import List Ascii String Bool Arith ZArith.
From SV Require Import Lib.Str Model.Types.
Import ListNotations.

Record docstring := { d_desc : str; d_full : str; d_examples : list str }.

Inductive dval := DNone | DStr (s : str) | DBool (b : bool) | DInt (z : Z) | DFloat (repr : str) | DUnknown.

Inductive passign := IMPLICIT | POSITION_ONLY | POSITION_OR_NAME | POSITIONAL_VARARG | NAME_ONLY | NAMED_VARARG.

Record param := { p_id : str; p_name : str; p_optional : bool; p_default : dval; p_assigned : passign;
                  p_doc_type : option ty; p_doc_default : str; p_doc_desc : str; p_type : option ty }.

Record result := { r_id : str; r_name : str; r_type : option ty }.
Record rdoc := { rd_type : option ty; rd_desc : str; rd_name : str }.

Record qimport := { qi_name : str; qi_alias : option str }.
(* a re-exporting module (an __init__ file) as far as the generator reads it *)
Record rmod := { rm_id : str; rm_qimports : list qimport; rm_wimports : list str }.

Record func := { f_id : str; f_name : str; f_doc : docstring; f_public : bool; f_static : bool; f_classm : bool;
                 f_prop : bool; f_rdocs : list rdoc; f_tvars : list (str * option ty); f_results : list result;
                 f_reexported_by : list rmod; f_params : list param }.

Record attr := { a_id : str; a_name : str; a_public : bool; a_static : bool; a_type : option ty;
                 a_doc_type : option ty; a_doc_desc : str }.

Inductive variance := INVARIANT | COVARIANT | CONTRAVARIANT.
Record tparam := { tp_name : str; tp_type : option ty; tp_variance : variance }.

Inductive cls := mkcls {
  c_id : str; c_name : str; c_supers : list str; c_public : bool; c_doc : docstring; c_ctor : option func;
  c_ctor_fulldoc : str; c_exc : bool; c_reexported_by : list rmod; c_attrs : list attr; c_methods : list func;
  c_classes : list cls; c_tparams : list tparam }.

Record enum_ := { e_id : str; e_name : str; e_doc : docstring; e_instances : list (str * str) }.

Record module_ := { m_id : str; m_name : str; m_doc : str; m_qimports : list qimport; m_wimports : list str;
                    m_classes : list cls; m_functions : list func; m_enums : list enum_ }.

(* the API object: modules in insertion order, the class dictionary (id -> class) in insertion order, and the
   re-export map (key -> set of __init__ modules; a list stands for the set) *)
Record api := { api_package : str; api_modules : list module_; api_classes : list (str * cls);
                api_reexport_map : list (str * list rmod) }.

Definition is_abstract (c : cls) : bool := mem_str (K"abc.ABC") (c_supers c).
