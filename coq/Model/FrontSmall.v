(* Small, self-contained pieces of the analyzer (api_analyzer/_api.py, _ast_visitor.py, _mypy_helpers.py):
   the API container and its serialisation order (C12), ids from the declaration stack (C12), argument kinds (C06),
   the reconciliation of type hints with docstring types (C14). *)
From Coq Require Import List Ascii String Bool Arith ZArith.
From SV Require Import Lib.Str Gen.Tables Model.Types Model.Api.
Import ListNotations.

(* ---------- the API container: dictionaries keyed by id ---------- *)
Fixpoint dict_set {V} (k : str) (v : V) (d : list (str * V)) : list (str * V) :=
  match d with
  | [] => [(k, v)]
  | (k', v') :: r => if str_eqb k k' then (k', v) :: r else (k', v') :: dict_set k v r
  end.

(* to_dict: sorted(self.X.values(), key=lambda it: it.id); the id of a value is its key *)
Definition sorted_entries {V} (d : list (str * V)) : list (str * V) := sort_by_key fst d.

(* a sequence of add_* calls *)
Definition add_all {V} (ops : list (str * V)) : list (str * V) := fold_left (fun d kv => dict_set (fst kv) (snd kv) d) ops [].

(* ---------- _create_id_from_stack ---------- *)
Definition create_id (stack_segments : list str) (name : str) : str := join (K"/") (stack_segments ++ [name]).

(* ---------- get_argument_kind, interpreting the decision chain read from the source ---------- *)
Inductive argkind := ARG_POS | ARG_OPT | ARG_STAR | ARG_NAMED | ARG_STAR2 | ARG_NAMED_OPT.
Definition argkind_name (k : argkind) : str :=
  K (match k with ARG_POS => "ARG_POS" | ARG_OPT => "ARG_OPT" | ARG_STAR => "ARG_STAR" | ARG_NAMED => "ARG_NAMED"
                | ARG_STAR2 => "ARG_STAR2" | ARG_NAMED_OPT => "ARG_NAMED_OPT" end).

Definition passign_of_name (s : str) : option passign :=
  if str_eqb s (K"IMPLICIT") then Some IMPLICIT else if str_eqb s (K"POSITION_ONLY") then Some POSITION_ONLY
  else if str_eqb s (K"POSITION_OR_NAME") then Some POSITION_OR_NAME else if str_eqb s (K"POSITIONAL_VARARG") then Some POSITIONAL_VARARG
  else if str_eqb s (K"NAME_ONLY") then Some NAME_ONLY else if str_eqb s (K"NAMED_VARARG") then Some NAMED_VARARG else None.

Fixpoint run_chain (chain : list (list str * str * str)) (receiver pos_only : bool) (k : argkind) : option passign :=
  match chain with
  | [] => None
  | (kinds, pos, target) :: rest =>
    let hit :=
      if mem_str (K"<receiver>") kinds then receiver
      else mem_str (argkind_name k) kinds &&
           (if str_eqb pos (K"yes") then pos_only else if str_eqb pos (K"no") then negb pos_only else true) in
    if hit then passign_of_name target else run_chain rest receiver pos_only k
  end.
Definition get_argument_kind (receiver pos_only : bool) (k : argkind) : option passign :=
  run_chain t_arg_kind_chain receiver pos_only k.

(* the Python reading of a parameter's passing kind *)
Definition spec_kind (receiver pos_only : bool) (k : argkind) : passign :=
  if receiver then IMPLICIT else
  match k with
  | ARG_POS | ARG_OPT => if pos_only then POSITION_ONLY else POSITION_OR_NAME
  | ARG_STAR => POSITIONAL_VARARG
  | ARG_NAMED | ARG_NAMED_OPT => NAME_ONLY
  | ARG_STAR2 => NAMED_VARARG
  end.

(* ---------- C14: reconciliation of hint and docstring type (enter_funcdef) ---------- *)
(* parameters: returns (is_optional, default, type, warning logged) *)
Definition reconcile_param (pref_doc warn : bool) (p : param) : param * bool :=
  let code := p_type p in
  let doc := p_doc_type p in
  let warning := match code, doc with
                 | Some c, Some d => negb (py_eq c d) && warn
                 | _, _ => false
                 end in
  let p' := match doc with
            | Some d =>
              if (match code with None => true | Some _ => false end) || pref_doc then
                {| p_id := p_id p; p_name := p_name p; p_optional := nonempty (p_doc_default p);
                   p_default := DStr (p_doc_default p); p_assigned := p_assigned p; p_doc_type := p_doc_type p;
                   p_doc_default := p_doc_default p; p_doc_desc := p_doc_desc p; p_type := Some d |}
              else p
            | None => p
            end in
  (p', warning).

(* results: the loop runs over the docstring results; results_code[i] is the i-th result of the ORIGINAL list *)
Fixpoint reconcile_results_go (pref_doc warn : bool) (function_id : str) (orig : list result) (docs : list rdoc) (i : nat)
         (acc : list result) (warnings : nat) : list result * nat :=
  match docs with
  | [] => (acc, warnings)
  | d :: rest =>
    let cur := nth_error orig i in
    let warnings' := match cur, rd_type d with
                     | Some _, Some _ => if warn then S warnings else warnings   (* a Result is compared with a type: always unequal *)
                     | _, _ => warnings
                     end in
    let acc' := match rd_type d with
                | Some dt =>
                  match cur with
                  | None =>
                    let name := match rd_name d with [] => K"result_" ++ nat_dec i | n => n end in
                    acc ++ [{| r_id := function_id ++ K"/" ++ name; r_name := name; r_type := Some dt |}]
                  | Some _ =>
                    if pref_doc then
                      (* results_code[i] = replace(results_code[i], type=doc type) *)
                      map (fun ir : nat * result => if Nat.eqb (fst ir) i
                                                    then {| r_id := r_id (snd ir); r_name := r_name (snd ir); r_type := Some dt |}
                                                    else snd ir)
                          ((fix number (k : nat) (l : list result) := match l with [] => [] | x :: r => (k, x) :: number (S k) r end) 0 acc)
                    else acc
                  end
                | None => acc
                end in
    reconcile_results_go pref_doc warn function_id orig rest (S i) acc' warnings'
  end.
Definition reconcile_results (pref_doc warn : bool) (function_id : str) (results : list result) (docs : list rdoc) : list result * nat :=
  reconcile_results_go pref_doc warn function_id results docs 0 results 0.
