(* Model of stubs_generator/_stub_string_generator.py (StubsStringGenerator) and of
   _helper._get_shortest_public_reexport, as a state-passing function over the API model. *)
From Coq Require Import List Ascii String Bool Arith ZArith.
From SV Require Import Lib.Str Gen.Tables Model.Types Model.Naming Model.Api.
Import ListNotations.

Definition cat (l : list str) : str := List.concat l.
Definition dot : ascii := "."%char.
Definition DOT : str := [dot].
Definition SL : str := ["/"%char].
Definition set_add (x : str) (l : list str) : list str := if mem_str x l then l else l ++ [x].
Definition set_union (a b : list str) : list str := fold_left (fun acc x => set_add x acc) b a.
Definition dot_to_slash (s : str) : str := join SL (split_ch dot s).
Definition slash_to_dot (s : str) : str := join DOT (split_ch "/"%char s).

(* ------------------------------------------------------------------------------------------------------ *)
(* _get_shortest_public_reexport *)
Section Shortest.
  Variable reexport_map : list (str * list rmod).
  Variable name qname : str.
  Variable is_module : bool.

  Definition parent_name : str :=
    if negb is_module && nonempty qname then
      let ps := split_ch dot qname in
      if 2 <? List.length ps then nth (List.length ps - 2) ps [] else []
    else [].

  Definition module_name_check (text : str) (is_wildcard : bool) : bool :=
    if is_module then ends_with (DOT ++ name) text || str_eqb text name
    else if is_wildcard then ends_with (DOT ++ parent_name) text || str_eqb text parent_name
    else
      str_eqb text name
      || (contains (DOT ++ name) text && (ends_with (DOT ++ name) text || contains (name ++ DOT) text))
      || (contains (name ++ DOT) text && (starts_with (name ++ DOT) text || contains (DOT ++ name) text))
      || (nonempty parent_name && ends_with (parent_name ++ K".*") text).

  (* candidates (module id, alias) in the order the code would add them for list-ordered sets *)
  Definition first_qimport (m : rmod) : option (str * option str) :=
    match find (fun qi => module_name_check (qi_name qi) false) (rm_qimports m) with
    | Some qi => Some (rm_id m, qi_alias qi)
    | None => None
    end.
  Definition first_wimport (m : rmod) : option (str * option str) :=
    if existsb (fun w => module_name_check w true) (rm_wimports m) then Some (rm_id m, None) else None.

  Definition cand_eqb (a b : str * option str) : bool :=
    str_eqb (fst a) (fst b) &&
    match snd a, snd b with None, None => true | Some x, Some y => str_eqb x y | _, _ => false end.

  Definition add_cand (c : str * option str) (l : list (str * option str)) :=
    if existsb (cand_eqb c) l then l else l ++ [c].

  Definition candidates : list (str * option str) :=
    let keys := filter (fun kv => module_name_check (fst kv) false) reexport_map in
    fold_left (fun acc kv =>
      fold_left (fun acc m =>
        let acc := match first_qimport m with Some c => add_cand c acc | None => acc end in
        match first_wimport m with Some c => add_cand c acc | None => acc end) (snd kv) acc) keys [].

  Definition id_len (c : str * option str) : nat := List.length (split_ch "/"%char (fst c)).

  (* the selection loop: first strictly shorter wins *)
  Definition select (cs : list (str * option str)) : option (str * option str) :=
    fold_left (fun best c => match best with
                             | None => Some c
                             | Some b => if id_len c <? id_len b then Some c else best
                             end) cs None.

  (* a tie: two different candidates of minimal length (the choice then depends on set iteration order) *)
  Definition has_tie (cs : list (str * option str)) : bool :=
    match select cs with
    | None => false
    | Some b => existsb (fun c => Nat.eqb (id_len c) (id_len b) && negb (cand_eqb c b)) cs
    end.

  Definition shortest_public_reexport : (str * str) * bool :=
    let cs := candidates in
    match select cs with
    | None => (([], []), false)
    | Some b => ((join DOT (split_ch "/"%char (fst b)), match snd b with Some a => a | None => [] end), has_tie cs)
    end.
End Shortest.

(* ------------------------------------------------------------------------------------------------------ *)
Inductive elem := EClass (c : cls) | EFunc (f : func).
Definition elem_name (e : elem) : str := match e with EClass c => c_name c | EFunc f => f_name f end.

Record gst := {
  g_module_id : str; g_reexport_module_id : str; g_creating_reexport : bool;
  g_class_generics : list str; g_imports : list str; g_todos : list str; g_outside : list str;
  g_buckets : list (str * list elem); g_renames : list (str * str); g_tie : bool }.

Definition M (T : Type) := gst -> res (T * gst).
Definition ret {T} (x : T) : M T := fun s => Ok (x, s).
Definition fail {T} (e : err) : M T := fun _ => Err e.
Definition mbind {T U} (m : M T) (f : T -> M U) : M U :=
  fun s => match m s with Ok (x, s') => f x s' | Err e => Err e end.
Notation "'mdo' x <- m ; k" := (mbind m (fun x => k)) (at level 200, x name, m at level 100, k at level 200).
Notation "m1 ;; m2" := (mbind m1 (fun _ => m2)) (at level 199, right associativity).
Definition get : M gst := fun s => Ok (s, s).
Definition modify (f : gst -> gst) : M unit := fun s => Ok (tt, f s).

Definition mmap {T U} (f : T -> M U) : list T -> M (list U) :=
  fix go (l : list T) : M (list U) :=
    match l with
    | [] => ret []
    | x :: r => mdo y <- f x; mdo ys <- go r; ret (y :: ys)
    end.

Definition with_todos (f : list str -> list str) (s : gst) : gst :=
  {| g_module_id := g_module_id s; g_reexport_module_id := g_reexport_module_id s; g_creating_reexport := g_creating_reexport s;
     g_class_generics := g_class_generics s; g_imports := g_imports s; g_todos := f (g_todos s); g_outside := g_outside s;
     g_buckets := g_buckets s; g_renames := g_renames s; g_tie := g_tie s |}.
Definition with_imports (f : list str -> list str) (s : gst) : gst :=
  {| g_module_id := g_module_id s; g_reexport_module_id := g_reexport_module_id s; g_creating_reexport := g_creating_reexport s;
     g_class_generics := g_class_generics s; g_imports := f (g_imports s); g_todos := g_todos s; g_outside := g_outside s;
     g_buckets := g_buckets s; g_renames := g_renames s; g_tie := g_tie s |}.
Definition with_outside (f : list str -> list str) (s : gst) : gst :=
  {| g_module_id := g_module_id s; g_reexport_module_id := g_reexport_module_id s; g_creating_reexport := g_creating_reexport s;
     g_class_generics := g_class_generics s; g_imports := g_imports s; g_todos := g_todos s; g_outside := f (g_outside s);
     g_buckets := g_buckets s; g_renames := g_renames s; g_tie := g_tie s |}.
Definition with_generics (f : list str -> list str) (s : gst) : gst :=
  {| g_module_id := g_module_id s; g_reexport_module_id := g_reexport_module_id s; g_creating_reexport := g_creating_reexport s;
     g_class_generics := f (g_class_generics s); g_imports := g_imports s; g_todos := g_todos s; g_outside := g_outside s;
     g_buckets := g_buckets s; g_renames := g_renames s; g_tie := g_tie s |}.
Definition with_tie (b : bool) (s : gst) : gst :=
  {| g_module_id := g_module_id s; g_reexport_module_id := g_reexport_module_id s; g_creating_reexport := g_creating_reexport s;
     g_class_generics := g_class_generics s; g_imports := g_imports s; g_todos := g_todos s; g_outside := g_outside s;
     g_buckets := g_buckets s; g_renames := g_renames s; g_tie := g_tie s || b |}.

Definition add_todo (k : str) : M unit := modify (with_todos (set_add k)).

(* _get_module_id / _set_module_id *)
Definition get_module_id (actual : bool) (s : gst) : str :=
  if actual || negb (g_creating_reexport s) then g_module_id s else g_reexport_module_id s.
Definition set_module_id (id : str) (s : gst) : gst :=
  if g_creating_reexport s then
    {| g_module_id := g_module_id s; g_reexport_module_id := id; g_creating_reexport := g_creating_reexport s;
       g_class_generics := g_class_generics s; g_imports := g_imports s; g_todos := g_todos s; g_outside := g_outside s;
       g_buckets := g_buckets s; g_renames := g_renames s; g_tie := g_tie s |}
  else
    {| g_module_id := id; g_reexport_module_id := g_reexport_module_id s; g_creating_reexport := g_creating_reexport s;
       g_class_generics := g_class_generics s; g_imports := g_imports s; g_todos := g_todos s; g_outside := g_outside s;
       g_buckets := g_buckets s; g_renames := g_renames s; g_tie := g_tie s |}.
Definition set_creating (b : bool) (s : gst) : gst :=
  {| g_module_id := g_module_id s; g_reexport_module_id := g_reexport_module_id s; g_creating_reexport := b;
     g_class_generics := g_class_generics s; g_imports := g_imports s; g_todos := g_todos s; g_outside := g_outside s;
     g_buckets := g_buckets s; g_renames := g_renames s; g_tie := g_tie s |}.

Section Gen.
  (* the generator reads the API only through the class dictionary and the re-export map *)
  Variable classes : list (str * cls).
  Variable reexport_map : list (str * list rmod).
  Variable nc : bool.

  (* name emission, used at every declaration site: (Python name to annotate, rendered identifier) *)
  Definition emit_name (is_class : bool) (n : str) : option str * str :=
    let cc := convert nc is_class n in
    ((if str_eqb cc n then None else Some n), escape cc).

  Definition conv (n : str) : str := convert nc false n.
  Definition conv_esc (n : str) : str := escape (conv n).

  (* _create_todo_msg *)
  Fixpoint todo_lookup (k : str) (tbl : list (str * str)) : res str :=
    match tbl with [] => Err KeyError | (k', v) :: r => if str_eqb k k' then Ok v else todo_lookup k r end.

  Definition create_todo_msg (indent : str) : M str :=
    fun s =>
      match g_todos s with
      | [] => Ok ([], s)
      | ks =>
        match mapM (fun k => todo_lookup k t_todo_messages) ks with
        | Err e => Err e
        | Ok msgs =>
          let lines := sort_str (map (fun m => t_todo_prefix ++ m) msgs) in
          Ok (indent ++ join (NL ++ indent) lines ++ NL, with_todos (fun _ => []) s)
        end
      end.

  (* _is_path_connected_to_class *)
  Definition is_path_connected_to_class (path class_path : str) : bool :=
    ends_with path class_path ||
    (let name := last (split_ch "/"%char path) [] in
     let class_name := last (split_ch "/"%char class_path) [] in
     existsb (fun kv =>
       ends_with name (fst kv) &&
       existsb (fun m =>
         starts_with (rm_id m) path && starts_with (rm_id m) class_path &&
         str_eqb (lstrip_chars SL (lstrip_chars (rm_id m) path)) name && str_eqb name class_name) (snd kv))
       reexport_map).

  (* _add_to_imports *)
  Definition add_to_imports (import_qname : str) : M unit :=
    match import_qname with
    | [] => fail ValueError
    | _ =>
      let parts := split_ch dot import_qname in
      if (str_eqb (hd [] parts) (K"builtins") && Nat.eqb (List.length parts) 2) || str_eqb import_qname (K"typing.Any")
      then ret tt
      else
        mdo s <- get;
        let module_id := slash_to_dot (get_module_id true s) in
        if contains module_id import_qname then ret tt
        else
          let path := dot_to_slash import_qname in
          match find (fun kv => is_path_connected_to_class path (fst kv)) classes with
          | Some (class_id, _) =>
            let q := slash_to_dot class_id in
            let name := last (split_ch dot q) [] in
            let '((shortest, _), tie) := shortest_public_reexport reexport_map name q false in
            let q' := if nonempty shortest then shortest ++ DOT ++ name else q in
            let q'' := if nonempty q' then q' else import_qname in
            modify (with_tie tie) ;;
            (if str_eqb (dot_to_slash q'') (get_module_id false s) then ret tt else modify (with_imports (set_add q'')))
          | None =>
            modify (with_outside (set_add import_qname)) ;;
            (if str_eqb (dot_to_slash import_qname) (get_module_id false s) then ret tt
             else modify (with_imports (set_add import_qname)))
          end
    end.

  (* _helper._escape_comment_text / _escape_string_content: the replacement chains are read from the source *)
  Definition escape_comment_text (s : str) : str := replace_chain t_comment_escapes s.
  Definition escape_string_content (s : str) : str := replace_chain t_string_escapes s.
  Definition quoted (s : str) : str := """"%char :: s ++ [""""%char].

  Definition render_lit (l : lit) : str :=
    match l with
    | LStr s => quoted (escape_string_content s)
    | LBool true => K"true" | LBool false => K"false"
    | LNone => K"null"
    | LInt z => Z_dec z
    | LFloat r => r
    end.

  Definition is_literal (t : ty) : bool := match t with TLiteral _ => true | _ => false end.
  Definition is_named (t : ty) : bool := match t with TNamed _ _ => true | _ => false end.
  Definition kind_name (t : ty) : str :=
    match t with
    | TUnknown => K"UnknownType" | TNamed _ _ => K"NamedType" | TNamedSeq _ _ _ => K"NamedSequenceType"
    | TEnum _ => K"EnumType" | TBoundary _ _ _ _ _ => K"BoundaryType" | TUnion _ => K"UnionType" | TList _ => K"ListType"
    | TDict _ _ => K"DictType" | TCallable _ _ => K"CallableType" | TSet _ => K"SetType" | TLiteral _ => K"LiteralType"
    | TFinal _ => K"FinalType" | TTuple _ => K"TupleType" | TTypeVar _ _ => K"TypeVarType"
    end.
  Definition counts_as_named (t : ty) : bool :=
    mem_str (kind_name t) t_named_kinds &&
    negb (match t with TNamed _ q => str_eqb q (K"builtins.None") | _ => false end).

  Fixpoint lookup_pair (k : str) (tbl : list (str * str)) : option str :=
    match tbl with [] => None | (k', v) :: r => if str_eqb k k' then Some v else lookup_pair k r end.

  Fixpoint numbered {T} (i : nat) (l : list T) : list (nat * T) :=
    match l with [] => [] | x :: r => (i, x) :: numbered (S i) r end.

  (* the union post-processing on rendered member strings *)
  Definition finish_union (has_named : bool) (rendered : list str) : str :=
    let types := sort_str (dedupe rendered) in
    match types with
    | [] => []
    | _ =>
      if Nat.eqb (List.length types) 2 && mem_str t_none_type_name types && has_named then
        (if str_eqb (nth 0 types []) t_none_type_name then nth 1 types [] ++ K"?" else nth 0 types [] ++ K"?")
      else if Nat.eqb (List.length types) 1 then nth 0 types []
      else
        let types' :=
          if mem_str t_none_type_name types && negb (str_eqb (last types []) t_none_type_name)
          then filter (fun x => negb (str_eqb x t_none_type_name)) types ++ [t_none_type_name]
          else types in
        K"union<" ++ join (K", ") types' ++ K">"
    end.

  Definition seq_str (name : str) (types : list str) : str :=
    match types with [] => name ++ K"<Any>" | _ => name ++ K"<" ++ join (K", ") types ++ K">" end.

  Definition numbered_names (prefix : string) (xs : list str) : list str :=
    map (fun it : nat * str => conv (K prefix ++ nat_dec (S (fst it))) ++ K": " ++ snd it) (numbered 0 xs).

  Definition seq_finish (name : str) (types : list str) : M str :=
    match types with
    | [] => ret (name ++ K"<Any>")
    | _ :: _ =>
      (if (2 <=? List.length types) && mem_str name t_many_args_names then add_todo name else ret tt) ;;
      ret (name ++ K"<" ++ join (K", ") types ++ K">")
    end.

  (* _create_type_string.  The union branch re-renders a list it has just rebuilt; the merged literal member is
     rendered directly (render_lit) so that the recursion stays structural. *)
  Fixpoint type_string (t : ty) : M str :=
    match t with
    | TNamed name qname =>
      match lookup_pair name t_builtin_type_names with
      | Some r => ret r
      | None =>
        add_to_imports qname ;;
        match name with
        | [] => fail IndexError
        | c :: _ =>
          mdo s <- get;
          (if Ascii.eqb c us && negb (mem_str qname (g_imports s)) then add_todo (K"internal class as type") else ret tt) ;;
          ret name
        end
      end
    | TFinal t' => type_string t'
    | TCallable ps r =>
      mdo pstrs <- mmap type_string ps;
      let params := numbered_names "param_" pstrs in
      match r with
      | TTuple rs =>
        mdo rstrs <- mmap type_string rs;
        let rets := numbered_names "result_" rstrs in
        ret (K"(" ++ join (K", ") params ++ K") -> (" ++ join (K", ") rets ++ K")")
      | TNamed rn _ =>
        if str_eqb rn (K"None") then ret (K"(" ++ join (K", ") params ++ K") -> ()")
        else mdo x <- type_string r;
             ret (K"(" ++ join (K", ") params ++ K") -> " ++ conv (K"result_1") ++ K": " ++ x)
      | _ => mdo x <- type_string r;
             ret (K"(" ++ join (K", ") params ++ K") -> " ++ conv (K"result_1") ++ K": " ++ x)
      end
    | TSet ts =>
      mdo types <- mmap type_string ts;
      add_todo (K"no set support") ;;
      seq_finish (K"Set") types
    | TList ts =>
      mdo types <- mmap type_string ts;
      seq_finish (K"List") types
    | TNamedSeq name _ ts =>
      mdo types <- mmap type_string ts;
      seq_finish name types
    | TUnknown => add_todo (K"unknown") ;; ret (K"unknown")
    | TUnion ts =>
      let lits := filter is_literal ts in
      let others := filter (fun x => negb (is_literal x)) ts in
      let has_named := existsb counts_as_named ts in
      let merged := 2 <=? List.length lits in
      let all_literals := flat_map (fun x => match x with TLiteral ls => ls | _ => [] end) lits in
      (* the member list after the optional merge: the merged literal type is the last member *)
      let n_members := if merged then S (List.length others) else List.length ts in
      if Nat.eqb n_members 2 && nonempty lits &&
         (if merged then match others with [o] => is_named o | _ => false end
          else match ts with [x; y] => is_named x || is_named y | _ => false end)
      then
        (* "literal + None": the literal member gets a null appended and is returned alone *)
        let ls := if merged then all_literals
                  else match ts with
                       | [TLiteral l1; _] => l1
                       | [_; TLiteral l2] => l2
                       | _ => []
                       end in
        ret (K"literal<" ++ join (K", ") (map render_lit (ls ++ [LNone])) ++ K">")
      else
        mdo rendered <- (if merged then
                           mdo rs <- mmap (fun x => if is_literal x then ret [] else mdo y <- type_string x; ret [y]) ts;
                           ret (List.concat rs ++ [K"literal<" ++ join (K", ") (map render_lit all_literals) ++ K">"])
                         else mmap type_string ts);
        ret (finish_union has_named rendered)
    | TTuple ts =>
      add_todo (K"no tuple support") ;;
      mdo types <- mmap type_string ts;
      ret (K"Tuple<" ++ join (K", ") types ++ K">")
    | TDict k v =>
      mdo ks <- type_string k; mdo vs <- type_string v;
      ret (K"Map<" ++ ks ++ K", " ++ vs ++ K">")
    | TLiteral ls => ret (K"literal<" ++ join (K", ") (map render_lit ls) ++ K">")
    | TTypeVar name _ => ret (conv_esc name)
    | TEnum _ | TBoundary _ _ _ _ _ => fail ValueError
    end.

  (* the rendered text never depends on the generator state (only markers, imports and failures do): this is the
     state-free rendering that type_string computes (Proofs/BackProofs.v: type_string_is_tstr) *)
  Fixpoint tstr (t : ty) : str :=
    match t with
    | TNamed name _ => match lookup_pair name t_builtin_type_names with Some r => r | None => name end
    | TFinal t' => tstr t'
    | TCallable ps r =>
      let params := numbered_names "param_" (map tstr ps) in
      match r with
      | TTuple rs => K"(" ++ join (K", ") params ++ K") -> (" ++ join (K", ") (numbered_names "result_" (map tstr rs)) ++ K")"
      | TNamed rn _ =>
        if str_eqb rn (K"None") then K"(" ++ join (K", ") params ++ K") -> ()"
        else K"(" ++ join (K", ") params ++ K") -> " ++ conv (K"result_1") ++ K": " ++ tstr r
      | _ => K"(" ++ join (K", ") params ++ K") -> " ++ conv (K"result_1") ++ K": " ++ tstr r
      end
    | TSet ts => seq_str (K"Set") (map tstr ts)
    | TList ts => seq_str (K"List") (map tstr ts)
    | TNamedSeq name _ ts => seq_str name (map tstr ts)
    | TUnknown => K"unknown"
    | TUnion ts =>
      let lits := filter is_literal ts in
      let others := filter (fun x => negb (is_literal x)) ts in
      let has_named := existsb counts_as_named ts in
      let merged := 2 <=? List.length lits in
      let all_literals := flat_map (fun x => match x with TLiteral ls => ls | _ => [] end) lits in
      let n_members := if merged then S (List.length others) else List.length ts in
      if Nat.eqb n_members 2 && nonempty lits &&
         (if merged then match others with [o] => is_named o | _ => false end
          else match ts with [x; y] => is_named x || is_named y | _ => false end)
      then
        let ls := if merged then all_literals
                  else match ts with
                       | [TLiteral l1; _] => l1
                       | [_; TLiteral l2] => l2
                       | _ => []
                       end in
        K"literal<" ++ join (K", ") (map render_lit (ls ++ [LNone])) ++ K">"
      else
        finish_union has_named
          (if merged then
             List.concat (map (fun x => if is_literal x then [] else [tstr x]) ts)
             ++ [K"literal<" ++ join (K", ") (map render_lit all_literals) ++ K">"]
           else map tstr ts)
    | TTuple ts => K"Tuple<" ++ join (K", ") (map tstr ts) ++ K">"
    | TDict k v => K"Map<" ++ tstr k ++ K", " ++ tstr v ++ K">"
    | TLiteral ls => K"literal<" ++ join (K", ") (map render_lit ls) ++ K">"
    | TTypeVar name _ => conv_esc name
    | TEnum _ | TBoundary _ _ _ _ _ => []
    end.

  Definition type_string_opt (t : option ty) : M str :=
    match t with None => ret [] | Some t' => type_string t' end.

  (* ---------------- documentation comments ---------------- *)
  (* _create_docstring_description_part *)
  Definition docstring_description_part (description indent : str) : str :=
    let d := lstrip_chars NL (rstrip_chars NL description) in
    match split_ch nl d with
    | [] => NL
    | first :: rest =>
      first ++ cat (map (fun part => match part with
                                     | [] => NL ++ indent ++ K" *"
                                     | _ => NL ++ indent ++ K" * " ++ part
                                     end) rest) ++ NL
    end.

  Definition sds_docstring_description (description indent : str) : str :=
    match description with
    | [] => []
    | _ => indent ++ K"/**" ++ NL ++ indent ++ K" * " ++ escape_comment_text (docstring_description_part description indent)
           ++ indent ++ K" */" ++ NL
    end.

  Definition result_name_at (k : nat) : str := t_result_prefix ++ nat_dec (S (k mod 999)).

  Fixpoint result_doc_lines (indent : str) (rds : list rdoc) (k : nat) : str :=
    match rds with
    | [] => []
    | rd :: r =>
      match rd_desc rd with
      | [] => result_doc_lines indent r k
      | desc =>
        let desc' := join (NL ++ indent ++ K" * ") (split_ch nl desc) in
        let '(rname, k') := match rd_name rd with [] => (result_name_at k, S k) | n => (n, k) end in
        indent ++ K" * @result " ++ conv rname ++ K" " ++ desc' ++ NL ++ result_doc_lines indent r k'
      end
    end.

  Definition example_text (indent example : str) : str :=
    indent ++ K" * @example" ++ NL ++ indent ++ K" * pipeline example {" ++ NL ++
    cat (map (fun part =>
                if starts_with (K">>>") part then indent ++ K" *     " ++ replace_all (K">>>") (K"//") part ++ NL
                else if starts_with (K"...") part then indent ++ K" *     " ++ replace_all (K"...") (K"//") part ++ NL
                else []) (split_ch nl example)) ++
    indent ++ K" * }" ++ NL.

  (* _create_sds_docstring: description, parameters (of the node), results (functions only), examples (not for
     attributes) *)
  Definition sds_docstring (desc : str) (examples : list str) (params : option (list param)) (rdocs : option (list rdoc))
             (indent : str) : str :=
    let full0 := match desc with [] => [] | _ => indent ++ K" * " ++ docstring_description_part desc indent end in
    let pdoc :=
      match params with
      | None => []
      | Some ps =>
        let lines := cat (map (fun p => match p_doc_desc p with
                                        | [] => []
                                        | d => indent ++ K" * @param " ++ conv (p_name p) ++ K" " ++ docstring_description_part d indent
                                        end) ps) in
        if nonempty lines && nonempty full0 then indent ++ K" *" ++ NL ++ lines else lines
      end in
    let full1 := full0 ++ pdoc in
    let rdoc_ :=
      match rdocs with
      | None => []
      | Some rds =>
        let lines := result_doc_lines indent rds 0 in
        if nonempty lines && nonempty full1 then indent ++ K" *" ++ NL ++ lines else lines
      end in
    let full2 := full1 ++ rdoc_ in
    let exs := map (example_text indent) examples in
    let full3 := if nonempty full2 && nonempty exs then full2 ++ indent ++ K" *" ++ NL else full2 in
    let full4 := full3 ++ join (indent ++ K" *" ++ NL) exs in
    match full4 with
    | [] => []
    | _ => indent ++ K"/**" ++ NL ++ escape_comment_text full4 ++ indent ++ K" */" ++ NL
    end.

  (* ---------------- parameters, results ---------------- *)
  (* a default of the form "..." is re-quoted with its content escaped; other strings are copied *)
  Definition requote_default (s : str) : str :=
    match s with
    | q :: r =>
      match rev r with
      | q' :: mid_rev => if Ascii.eqb q """"%char && Ascii.eqb q' """"%char then quoted (escape_string_content (rev mid_rev)) else s
      | [] => s
      end
    | [] => s
    end.

  Definition render_default (p : param) : M str :=
    match p_default p with
    | DStr s =>
      let plain := ret (requote_default s) in
      match p_assigned p with
      | POSITIONAL_VARARG => if str_eqb s (K"()") then ret (K"[]") else plain
      | _ => plain
      end
    | DBool b => ret (if b then K"true" else K"false")
    | DNone => ret (K"null")
    | DUnknown => add_todo (K"unknown value") ;; ret (K"unknown")
    | DInt z => ret (Z_dec z)
    | DFloat r => ret r
    end.

  Definition default_is_none (d : dval) : bool := match d with DNone => true | _ => false end.
  Definition is_vararg (k : passign) : bool :=
    match k with POSITIONAL_VARARG | NAMED_VARARG => true | _ => false end.

  (* the four pieces of a rendered parameter: annotation (Python name or none), identifier, ": type", " = default" *)
  Definition param_fields (p : param) : M (option str * str * str * str) :=
    mdo tv <- (match p_type p with
               | Some t =>
                 mdo value <- (if p_optional p then mdo d <- render_default p; ret (K" = " ++ d) else ret []);
                 let t' := match p_assigned p, t with POSITIONAL_VARARG, TTuple ts => TList ts | _, _ => t end in
                 mdo ts <- type_string t';
                 ret ((match ts with [] => [] | _ => K": " ++ ts end), value)
               | None =>
                 add_todo (K"param without type") ;;
                 ret ((match p_assigned p with
                       | POSITIONAL_VARARG => K": List<Any>"
                       | NAMED_VARARG => K": Map<String, Any>"
                       | _ => []
                       end), [])
               end);
    (match p_assigned p with
     | POSITION_ONLY => if negb (default_is_none (p_default p)) then add_todo (K"OPT_POS_ONLY") else ret tt
     | NAME_ONLY => if negb (p_optional p) then add_todo (K"REQ_NAME_ONLY") else ret tt
     | _ => ret tt
     end) ;;
    (if is_vararg (p_assigned p) then add_todo (K"variadic") else ret tt) ;;
    let en := emit_name false (p_name p) in
    ret (fst en, snd en, fst tv, snd tv).

  Definition render_param (f : option str * str * str * str) : str :=
    let '(ann, nm, ts, v) := f in
    (match ann with Some n => name_annotation n ++ K" " | None => [] end) ++ nm ++ ts ++ v.

  Definition one_param (p : param) : M str := mdo f <- param_fields p; ret (render_param f).

  (* _create_parameter_string *)
  Definition parameter_string (ps : list param) (indent : str) (is_instance_method : bool) : M str :=
    let ps' := if is_instance_method then tl ps else ps in
    mdo data <- mmap one_param ps';
    let inner := indent ++ t_indentation in
    match data with
    | [] => ret []
    | _ => ret (NL ++ inner ++ join (K"," ++ NL ++ inner) data ++ NL ++ indent)
    end.

  Definition is_none_result (t : ty) : bool :=
    match t with TNamed _ q => str_eqb q (K"builtins.None") | _ => false end.

  (* _create_result_string: a `builtins.None` result ends the loop and suppresses the whole list *)
  Fixpoint result_items (rs : list result) (acc : list str) : M (option (list str)) :=
    match rs with
    | [] => ret (Some acc)
    | r :: rest =>
      match r_type r with
      | None => result_items rest acc
      | Some t =>
        if is_none_result t then ret None
        else
          mdo ts <- type_string t;
          match ts with
          | [] => result_items rest acc
          | _ => result_items rest (acc ++ [conv_esc (r_name r) ++ K": " ++ ts])
          end
      end
    end.

  Definition result_string (rs : list result) : M str :=
    mdo items <- result_items rs [];
    match items with
    | None => ret []
    | Some [] => add_todo (K"result without type") ;; ret []
    | Some [x] => ret (K" -> " ++ x)
    | Some l => ret (K" -> (" ++ join (K", ") l ++ K")")
    end.

  (* ---------------- re-export bookkeeping ---------------- *)
  Definition seg_count (id : str) : nat := List.length (split_ch "/"%char id).

  (* _has_node_shorter_reexport: returns (moved?, alias) and, when moved, the bucket id *)
  Definition shorter_reexport (name : str) (reexported_by : list rmod) (s : gst) : option (str * option str) :=
    let cur := get_module_id false s in
    let best := fold_left (fun (b : str * option rmod) m =>
                             if seg_count (rm_id m) <? seg_count (fst b) then (rm_id m, Some m) else b)
                          reexported_by (cur, None) in
    match snd best with
    | Some m =>
      if negb (str_eqb (fst best) cur) then
        let alias := fold_left (fun (al : option str) qi => if ends_with name (qi_name qi) then qi_alias qi else al)
                               (rm_qimports m) None in
        Some (fst best, alias)
      else None
    | None => None
    end.

  Definition bucket_add (id : str) (e : elem) (s : gst) : gst :=
    let fix go (bs : list (str * list elem)) : list (str * list elem) :=
      match bs with
      | [] => [(id, [e])]
      | (k, es) :: r => if str_eqb k id then (k, es ++ [e]) :: r else (k, es) :: go r
      end in
    {| g_module_id := g_module_id s; g_reexport_module_id := g_reexport_module_id s; g_creating_reexport := g_creating_reexport s;
       g_class_generics := g_class_generics s; g_imports := g_imports s; g_todos := g_todos s; g_outside := g_outside s;
       g_buckets := go (g_buckets s); g_renames := g_renames s; g_tie := g_tie s |}.
  Definition add_rename (id new : str) (s : gst) : gst :=
    {| g_module_id := g_module_id s; g_reexport_module_id := g_reexport_module_id s; g_creating_reexport := g_creating_reexport s;
       g_class_generics := g_class_generics s; g_imports := g_imports s; g_todos := g_todos s; g_outside := g_outside s;
       g_buckets := g_buckets s; g_renames := g_renames s ++ [(id, new)]; g_tie := g_tie s |}.

  Definition rename_func (f : func) (n : str) : func :=
    {| f_id := f_id f; f_name := n; f_doc := f_doc f; f_public := f_public f; f_static := f_static f; f_classm := f_classm f;
       f_prop := f_prop f; f_rdocs := f_rdocs f; f_tvars := f_tvars f; f_results := f_results f;
       f_reexported_by := f_reexported_by f; f_params := f_params f |}.
  Definition rename_cls (c : cls) (n : str) : cls :=
    mkcls (c_id c) n (c_supers c) (c_public c) (c_doc c) (c_ctor c) (c_ctor_fulldoc c) (c_exc c) (c_reexported_by c)
          (c_attrs c) (c_methods c) (c_classes c) (c_tparams c).

  (* ---------------- functions ---------------- *)
  Definition type_var_info (f : func) (is_method : bool) : M str :=
    match f_tvars f with
    | [] => ret []
    | tvs =>
      mdo s0 <- get;
      mdo names <- mmap (fun tv : str * option ty =>
                           let n := conv_esc (fst tv) in
                           mdo s <- get;
                           if negb is_method || negb (mem_str n (g_class_generics s)) then
                             match snd tv with
                             | Some ub => mdo x <- type_string ub; ret [n ++ K" sub " ++ x]
                             | None => ret [n]
                             end
                           else ret []) tvs;
      match List.concat names with
      | [] => ret []
      | l => ret (K"<" ++ join (K", ") l ++ K">")
      end
    end.

  Definition function_string (f : func) (indent : str) (is_method in_reexport_module : bool) : M str :=
    mdo s <- get;
    match (if negb is_method && negb in_reexport_module then shorter_reexport (f_name f) (f_reexported_by f) s else None) with
    | Some (bucket, alias) =>
      let f' := match alias with Some al => match al with [] => f | _ => rename_func f al end | None => f end in
      (match alias with Some ((_ :: _) as al) => modify (add_rename (f_id f) al) | _ => ret tt end) ;;
      modify (bucket_add bucket (EFunc f')) ;;
      ret []
    | None =>
      let static := if f_classm f || f_static f then K"static " else [] in
      (if f_classm f then add_todo (K"class_method") else ret tt) ;;
      mdo params <- parameter_string (f_params f) indent (negb (f_static f) && is_method);
      mdo tvi <- type_var_info f is_method;
      let doc := sds_docstring (d_desc (f_doc f)) (d_examples (f_doc f)) (Some (f_params f)) (Some (f_rdocs f)) indent in
      let en := emit_name false (f_name f) in
      let ann := match fst en with None => [] | Some n => indent ++ name_annotation n ++ NL end in
      mdo rs <- result_string (f_results f);
      mdo todo <- create_todo_msg indent;
      ret (todo ++ doc ++ indent ++ K"@Pure" ++ NL ++ ann ++ indent ++ static ++ K"fun " ++ snd en ++ tvi ++
           K"(" ++ params ++ K")" ++ rs)
    end.

  Definition property_string (f : func) (indent : str) : M str :=
    let en := emit_name false (f_name f) in
    let ann := match fst en with None => [] | Some n => name_annotation n ++ K" " end in
    let doc := sds_docstring_description (d_desc (f_doc f)) indent in
    let rtypes := flat_map (fun r => match r_type r with Some t => [t] | None => [] end) (f_results f) in
    mdo pt <- type_string (TUnion rtypes);
    let ts := match pt with [] => [] | _ => K": " ++ pt end in
    mdo todo <- create_todo_msg indent;
    ret (todo ++ doc ++ indent ++ ann ++ K"attr " ++ snd en ++ ts).

  (* _create_class_method_string *)
  Fixpoint class_methods (ms : list func) (inner : str) (is_internal_class : bool) (already : list str)
           (props meths : list str) (names : list str) : M (list str * list str * list str) :=
    match ms with
    | [] => ret (props, meths, names)
    | m :: rest =>
      if (negb (f_public m) && (negb is_internal_class || (is_internal_class && is_internal (f_name m))))
         || mem_str (f_name m) already
      then class_methods rest inner is_internal_class already props meths names
      else if f_prop m then
        mdo x <- property_string m inner;
        class_methods rest inner is_internal_class already (props ++ [x]) meths (set_add (f_name m) names)
      else
        mdo x <- function_string m inner true false;
        class_methods rest inner is_internal_class already props (meths ++ [x]) (set_add (f_name m) names)
    end.

  Definition class_method_string (ms : list func) (inner : str) (is_internal_class : bool) (already : list str)
    : M (str * list str) :=
    mdo r <- class_methods ms inner is_internal_class already [] [] [];
    let '(props, meths, names) := r in
    let t1 := match props with [] => [] | _ => NL ++ join NL props ++ NL end in
    let t2 := match meths with [] => [] | _ => NL ++ join (NL ++ NL) meths ++ NL end in
    ret (t1 ++ t2, names).

  (* _create_class_attribute_string *)
  Fixpoint class_attrs (ats : list attr) (inner : str) (acc names : list str) : M (list str * list str) :=
    match ats with
    | [] => ret (acc, names)
    | at_ :: rest =>
      if negb (a_public at_) then class_attrs rest inner acc names
      else if match a_type at_ with Some (TTypeVar _ _) => true | _ => false end then class_attrs rest inner acc names
      else
        let static := if a_static at_ then K"static " else [] in
        let name := a_name at_ in
        let en := emit_name false name in
        let ann := match fst en with None => [] | Some n => name_annotation n ++ NL ++ inner end in
        mdo ts <- type_string_opt (a_type at_);
        let tstr := match ts with [] => [] | _ => K": " ++ ts end in
        (match tstr with [] => add_todo (K"attr without type") | _ => ret tt end) ;;
        let doc := sds_docstring (a_doc_desc at_) [] None None inner in
        mdo todo <- create_todo_msg inner;
        class_attrs rest inner (acc ++ [todo ++ doc ++ inner ++ ann ++ static ++ K"attr " ++ snd en ++ tstr])
                    (set_add name names)
      end.

  Definition class_attribute_string (ats : list attr) (inner : str) : M (str * list str) :=
    mdo r <- class_attrs ats inner [] [];
    let '(lines, names) := r in
    ret ((match lines with [] => [] | _ => NL ++ join NL lines ++ NL end), names).

  (* _get_class_in_package *)
  Definition get_class_in_package (class_qname : str) : res cls :=
    let q := dot_to_slash class_qname in
    let segs := split_ch "/"%char q in
    let class_path := join SL (removelast segs) in
    let class_name := last segs [] in
    match find (fun kv => str_eqb (fst kv) q) classes with
    | Some (_, c) => Ok c
    | None =>
      match find (fun kv => ends_with q (fst kv) ||
                            (starts_with (class_path ++ SL) (fst kv) && ends_with (SL ++ class_name) (fst kv)))
                 classes with
      | Some (_, c) => Ok c
      | None => Err LookupError
      end
    end.

  Definition variance_prefix (v : variance) : str :=
    match v with INVARIANT => [] | COVARIANT => K"out " | CONTRAVARIANT => K"in " end.

  (* the superclass loop of _create_class_string: public superclasses are imported and named in the `sub` clause,
     private ones have their members inlined (by `inline`) *)
  Definition super_name (sc : str) : str := last (split_ch dot sc) [].
  Fixpoint super_loop (inline : str -> M str) (sups : list str) (names : list str) (text : str) : M (list str * str) :=
    match sups with
    | [] => ret (names, text)
    | sc :: rest =>
      if negb (is_internal (super_name sc)) then
        add_to_imports sc ;; super_loop inline rest (names ++ [super_name sc]) text
      else
        mdo x <- inline sc;
        super_loop inline rest names (text ++ x)
    end.

  (* _create_class_string / _create_internal_class_string, mutually recursive through the class table: fuel *)
  Fixpoint class_string (fuel : nat) (c : cls) (indent : str) (in_reexport_module : bool) {struct fuel} : M str :=
    match fuel with O => fail OutOfFuel | S fu =>
    mdo s <- get;
    match (if negb in_reexport_module then shorter_reexport (c_name c) (c_reexported_by c) s else None) with
    | Some (bucket, alias) =>
      let c' := match alias with Some ((_ :: _) as al) => rename_cls c al | _ => c end in
      (match alias with Some ((_ :: _) as al) => modify (add_rename (c_id c) al) | _ => ret tt end) ;;
      modify (bucket_add bucket (EClass c')) ;;
      ret []
    | None =>
      let inner := indent ++ t_indentation in
      mdo ctor_info <- (if is_abstract c then ret []
                        else mdo pi <- (match c_ctor c with
                                        | Some k => parameter_string (f_params k) indent true
                                        | None => ret []
                                        end);
                             ret (K"(" ++ pi ++ K")"));
      let ctor_tvars := match c_ctor c with Some k => f_tvars k | None => [] end in
      mdo variance_info <-
        (if nonempty (c_tparams c) || nonempty ctor_tvars then
           modify (with_generics (fun _ => [])) ;;
           mmap (fun tp => let item := variance_prefix (tp_variance tp) ++ conv_esc (tp_name tp) in
                           mdo item' <- (match tp_type tp with
                                         | Some t => mdo x <- type_string t; ret (item ++ K" sub " ++ x)
                                         | None => ret item
                                         end);
                           modify (with_generics (fun g => g ++ [item']))) (c_tparams c) ;;
           mmap (fun tv : str * option ty =>
                   mdo s' <- get;
                   if mem_str (fst tv) (g_class_generics s') then ret tt
                   else modify (with_generics (fun g => g ++ [fst tv]))) ctor_tvars ;;
           mdo s' <- get;
           match g_class_generics s' with
           | [] => ret []
           | g => ret (K"<" ++ join (K", ") g ++ K">")
           end
         else ret []);
      let en := emit_name true (c_name c) in
      let pyname := match fst en with None => [] | Some n => indent ++ name_annotation n ++ NL end in
      mdo signature_todo <- create_todo_msg indent;
      mdo at_ <- class_attribute_string (c_attrs c) inner;
      let '(attr_text, attr_names) := at_ in
      mdo inner_texts <- mmap (fun ic => if c_public ic then
                                           mdo x <- class_string fu ic inner true; ret (NL ++ x ++ NL)
                                         else ret []) (c_classes c);
      mdo mt <- class_method_string (c_methods c) inner false [];
      let '(method_text, method_names) := mt in
      let already := set_union attr_names method_names in
      mdo sup <- (if nonempty (c_supers c) && negb (is_abstract c) then
                    super_loop (fun sc => internal_class_string fu sc inner already) (c_supers c) [] []
                  else ret ([], []));
      let '(super_names, super_methods_text) := sup in
      let superclass_info := match super_names with [] => [] | _ => K" sub " ++ join (K", ") super_names end in
      (if 2 <=? List.length super_names then add_todo (K"multiple_inheritance") else ret tt) ;;
      mdo inheritance_todo <- create_todo_msg indent;
      let signature := pyname ++ indent ++ signature_todo ++ inheritance_todo ++ K"class " ++ snd en ++ variance_info ++
                       ctor_info ++ superclass_info in
      let class_text := attr_text ++ cat inner_texts ++ super_methods_text ++ method_text in
      let doc := sds_docstring (d_desc (c_doc c)) (d_examples (c_doc c))
                               (Some (match c_ctor c with Some k => f_params k | None => [] end)) None indent in
      match class_text with
      | [] => ret (doc ++ signature)
      | _ => ret (doc ++ signature ++ K" {" ++ class_text ++ indent ++ K"}")
      end
    end end
  with internal_class_string (fuel : nat) (superclass inner : str) (already : list str) {struct fuel} : M str :=
    match fuel with O => fail OutOfFuel | S fu =>
    match get_class_in_package superclass with
    | Err e => fail e
    | Ok sc =>
      mdo mt <- class_method_string (c_methods sc) inner true already;
      let '(text, existing) := mt in
      mdo inner_texts <- mmap (fun ic => if negb (is_internal (c_name ic)) then
                                           mdo x <- class_string fu ic inner true; ret (NL ++ x ++ NL)
                                         else ret []) (c_classes sc);
      let already' := set_union already existing in
      mdo rest <- mmap (fun ss => let n := last (split_ch dot ss) [] in
                                  if is_internal n then internal_class_string fu ss inner already' else ret [])
                       (c_supers sc);
      ret (text ++ cat inner_texts ++ cat rest)
    end end.

  (* _create_enum_string *)
  Definition enum_string (e : enum_) : str :=
    let doc := sds_docstring (d_desc (e_doc e)) (d_examples (e_doc e)) None None [] in
    let signature := doc ++ K"enum " ++ e_name e in
    match e_instances e with
    | [] => signature
    | insts =>
      signature ++ K" {" ++ NL ++
      cat (map (fun it : str * str =>
                  let en := emit_name false (snd it) in
                  let ann := match fst en with None => [] | Some n => name_annotation n ++ K" " end in
                  t_indentation ++ ann ++ snd en ++ NL) insts) ++ K"}"
    end.

  (* _create_imports_string *)
  Definition imports_string (s : gst) : str :=
    match g_imports s with
    | [] => []
    | imps =>
      let lines := map (fun imp =>
                          let parts := split_ch dot imp in
                          let from_ := escape_path (conv (join DOT (removelast parts))) in
                          let name := escape (conv (last parts [])) in
                          K"from " ++ from_ ++ K" import " ++ name) imps in
      NL ++ join NL (sort_str lines) ++ NL
    end.

  Definition module_header (package_info : str) : str :=
    let cc := conv package_info in
    (if str_eqb package_info cc then [] else K"@PythonModule(""" ++ package_info ++ K""")" ++ NL) ++
    K"package " ++ escape_path cc ++ NL.

  Definition class_fuel : nat := S (S (List.length classes)) * 4.

  (* __call__ + _create_module_string *)
  Definition module_string (m : module_) : M (str * str) :=
    modify (fun s => set_module_id (m_id m) s) ;;
    modify (fun s => {| g_module_id := g_module_id s; g_reexport_module_id := []; g_creating_reexport := g_creating_reexport s;
                        g_class_generics := []; g_imports := []; g_todos := []; g_outside := g_outside s;
                        g_buckets := g_buckets s; g_renames := g_renames s; g_tie := g_tie s |}) ;;
    let '((pinfo, _), tie) := shortest_public_reexport reexport_map (m_name m) [] true in
    modify (with_tie tie) ;;
    let in_reexport_module := nonempty pinfo in
    let package_info := if nonempty pinfo then pinfo else slash_to_dot (m_id m) in
    let header := module_header package_info in
    let doc := match sds_docstring_description (m_doc m) [] with [] => [] | d => d ++ NL end in
    mdo fs <- mmap (fun f => if f_public f then
                               mdo x <- function_string f [] false in_reexport_module;
                               ret (match x with [] => [] | _ => NL ++ x ++ NL end)
                             else ret []) (m_functions m);
    mdo cs <- mmap (fun c => if c_public c && negb (c_exc c) then
                               mdo x <- class_string class_fuel c [] in_reexport_module;
                               ret (match x with [] => [] | _ => NL ++ x ++ NL end)
                             else ret []) (m_classes m);
    let es := map (fun e => NL ++ enum_string e ++ NL) (m_enums m) in
    mdo s <- get;
    ret (doc ++ header ++ imports_string s ++ cat fs ++ cat cs ++ cat es, package_info).

  (* create_reexport_module_strings: (module id of the file, module name, text) *)
  Definition reexport_module_strings : M (list (str * str * str)) :=
    mdo s0 <- get;
    mdo per_bucket <- mmap (fun b : str * list elem =>
      let module_id := fst b in
      modify (set_creating false) ;; modify (set_module_id module_id) ;; modify (set_creating true) ;;
      let elements := sort_by_key elem_name (snd b) in
      mmap (fun e =>
              modify (with_imports (fun _ => [])) ;; modify (with_generics (fun _ => [])) ;;
              let module_name := elem_name e in
              modify (set_module_id (module_id ++ SL ++ module_name)) ;;
              mdo s <- get;
              let package_info := join DOT (removelast (split_ch "/"%char (get_module_id false s))) in
              let header := module_header package_info in
              mdo body <- (match e with
                           | EClass c => class_string class_fuel c [] true
                           | EFunc f => function_string f [] false true
                           end);
              mdo s' <- get;
              ret (get_module_id false s', module_name, header ++ imports_string s' ++ NL ++ body ++ NL)) elements)
      (g_buckets s0);
    ret (List.concat per_bucket).

End Gen.

Definition init_gst : gst :=
  {| g_module_id := []; g_reexport_module_id := []; g_creating_reexport := false; g_class_generics := [];
     g_imports := []; g_todos := []; g_outside := []; g_buckets := []; g_renames := []; g_tie := false |}.
