(* Model of the file discovery loop of get_api and of _get_mypy_asts (api_analyzer/_get_api.py). *)
From Coq Require Import List Ascii String Bool Arith.
From SV Require Import Lib.Str Gen.Tables.
Import ListNotations.

Definition slash : ascii := "/"%char.
Definition parts (p : str) : list str := split_ch slash p.

(* "test" in file_path.parts or "tests" in file_path.parts or "docs" in file_path.parts *)
Definition in_excluded_dir (p : str) : bool := existsb (fun d => mem_str d (parts p)) t_excluded_dirs.

Definition is_init_file (p : str) : bool := str_eqb (last (parts p) []) t_init_file.

Definition parent_dir (p : str) : str := join [slash] (removelast (parts p)).

(* the loop over root.glob(...): result = (walkable_files, package_paths), both in enumeration order *)
Fixpoint discover (test_run : bool) (files : list str) : list str * list str :=
  match files with
  | [] => ([], [])
  | f :: r =>
    let '(w, p) := discover test_run r in
    if negb test_run && in_excluded_dir f then (w, p)
    else if is_init_file f then (w, parent_dir f :: p)
    else (f :: w, p)
  end.

Inductive discover_result := NoFiles | Files (walkable packages : list str).
Definition get_api_files (test_run : bool) (files : list str) : discover_result :=
  let '(w, p) := discover test_run files in
  match w with [] => NoFiles | _ => Files w p end.

(* _get_mypy_asts: graph entries are identified by their path; packages first, then modules, each in graph order *)
Definition init_package_path (path : str) : str :=
  (* ast.path.split("__init__.py")[0][:-1] *)
  removelast (hd [] (split_str t_init_file path)).

Definition order_asts (graph walkable packages : list str) : list str :=
  let pk := filter (fun p => ends_with t_init_file p && mem_str (init_package_path p) packages) graph in
  let md := filter (fun p => negb (ends_with t_init_file p) && mem_str p walkable) graph in
  pk ++ md.
