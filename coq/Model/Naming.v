(* Model of stubs_generator/_helper.py (_convert_name_to_convention, _replace_if_safeds_keyword,
   _create_name_annotation) and of safeds_stubgen/_helpers.py (is_internal). *)
From Coq Require Import List Ascii String Bool Arith.
From SV Require Import Lib.Str Gen.Tables.
Import ListNotations.

Definition us : ascii := "_"%char.
Definition US : str := [us].

Definition is_internal (name : str) : bool := starts_with US name.

Definition cap (p : str) : str := match p with c :: r => upper c :: r | [] => [] end.

(* nc = true: NamingConvention.SAFE_DS, false: PYTHON *)
Definition convert (nc is_class : bool) (name : str) : str :=
  if str_eqb name US || negb nc then name else
  (* name[start:-end] with the end == 0 special case = strip of "_" on both sides *)
  let cleaned := rstrip_chars US (lstrip_chars US name) in
  let parts := split_ch us cleaned in
  if is_class then List.concat (map cap (filter nonempty parts))
  else match parts with
       | p0 :: ps => p0 ++ List.concat (map cap (filter nonempty ps))
       | [] => []
       end.

Definition is_keyword (s : str) : bool := mem_str s t_keywords.
Definition bq : ascii := "`"%char.
Definition escape (s : str) : str := if is_keyword s then bq :: s ++ [bq] else s.

Definition name_annotation (name : str) : str := K"@PythonName(""" ++ name ++ K""")".
