(* Model of stubs_generator/_helper.py (_convert_name_to_convention, _replace_if_safeds_keyword,
   _create_name_annotation) and of safeds_stubgen/_helpers.py (is_internal). *)
From Coq Require Import List Ascii String Bool Arith.
From SV Require Import Lib.Str Gen.Tables.
Import ListNotations.

Definition us : ascii := "_"%char.
Definition US : str := [us].

Definition is_internal (name : str) : bool := starts_with US name.

Definition cap (p : str) : str := match p with c :: r => upper c :: r | [] => [] end.

(* nc = true: NamingConvention.SAFE_DS, false: PYTHON *)
(* name[start:-end] with the end == 0 special case = strip of "_" on both sides *)
Definition cleaned_of (name : str) : str := rstrip_chars US (lstrip_chars US name).

(* names that are emitted as they are: the single underscore, and names whose stripped form is empty or starts with a
   digit (their conversion would not be an identifier) *)
Definition keeps (name : str) : bool :=
  str_eqb name US || match cleaned_of name with [] => true | c :: _ => is_digit c end.

Definition convert (nc is_class : bool) (name : str) : str :=
  if keeps name || negb nc then name else
  let cleaned := cleaned_of name in
  let parts := split_ch us cleaned in
  if is_class then List.concat (map cap (filter nonempty parts))
  else match parts with
       | p0 :: ps => p0 ++ List.concat (map cap (filter nonempty ps))
       | [] => []
       end.

Definition is_keyword (s : str) : bool := mem_str s t_keywords.
Definition bq : ascii := "`"%char.
Definition escape (s : str) : str := if is_keyword s then bq :: s ++ [bq] else s.

(* _replace_keywords_in_path: every segment of a dotted path that is a keyword is back-quoted *)
Definition escape_path (p : str) : str := join ["."%char] (map escape (split_ch "."%char p)).

Definition name_annotation (name : str) : str := K"@PythonName(""" ++ name ++ K""")".
