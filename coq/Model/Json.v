(* Model of the serialisation of the API object (api_analyzer/_api.py: API.to_dict and the to_dict methods of Module, Class,
   Function, Parameter, Result, Attribute, Enum, EnumInstance, QualifiedImport, WildcardImport, TypeParameter; the docstring
   objects are serialised by dataclasses.asdict). *)
From Coq Require Import List Ascii String Bool Arith ZArith.
From SV Require Import Lib.Str Gen.Tables Model.Types Model.Api Model.FrontSmall Model.View Model.Front.
Import ListNotations.

Definition js (s : string) : str := K s.
Definition jstrs (l : list str) : jv := JList (map JStr l).
Definition jopt {A} (f : A -> jv) (o : option A) : jv := match o with Some x => f x | None => JNone end.

(* dataclasses.asdict of a type value: the fields of the dataclass, recursively, without a kind tag *)
Fixpoint asdict_ty (t : ty) : jv :=
  match t with
  | TUnknown => JDict []
  | TNamed n q => JDict [(js"name", JStr n); (js"qname", JStr q)]
  | TNamedSeq n q ts => JDict [(js"name", JStr n); (js"qname", JStr q); (js"types", JList (map asdict_ty ts))]
  | TEnum vs => JDict [(js"values", JSet (map JStr vs)); (js"full_match", JStr [])]
  | TBoundary b mn mx i1 i2 =>
    JDict [(js"base_type", JStr b); (js"min", lit_to_jv mn); (js"max", lit_to_jv mx); (js"min_inclusive", JBool i1);
           (js"max_inclusive", JBool i2); (js"full_match", JStr [])]
  | TUnion ts => JDict [(js"types", JList (map asdict_ty ts))]
  | TList ts => JDict [(js"types", JList (map asdict_ty ts))]
  | TDict k v => JDict [(js"key_type", asdict_ty k); (js"value_type", asdict_ty v)]
  | TCallable ps r => JDict [(js"parameter_types", JList (map asdict_ty ps)); (js"return_type", asdict_ty r)]
  | TSet ts => JDict [(js"types", JList (map asdict_ty ts))]
  | TLiteral ls => JDict [(js"literals", JList (map lit_to_jv ls))]
  | TFinal t' => JDict [(js"type_", asdict_ty t')]
  | TTuple ts => JDict [(js"types", JList (map asdict_ty ts))]
  | TTypeVar n ub => JDict [(js"name", JStr n); (js"upper_bound", match ub with Some u => asdict_ty u | None => JNone end)]
  end.

Definition doc_json (d : docstring) : jv :=
  JDict [(js"description", JStr (d_desc d)); (js"full_docstring", JStr (d_full d)); (js"examples", jstrs (d_examples d))].

Definition dval_json (v : dval) : jv :=
  match v with
  | DNone => JNone | DStr s => JStr s | DBool b => JBool b | DInt z => JInt z | DFloat r => JFloat r
  | DUnknown => JStr (js"UnknownValue")
  end.

Definition passign_name (k : passign) : str :=
  js (match k with IMPLICIT => "IMPLICIT" | POSITION_ONLY => "POSITION_ONLY" | POSITION_OR_NAME => "POSITION_OR_NAME"
               | POSITIONAL_VARARG => "POSITIONAL_VARARG" | NAME_ONLY => "NAME_ONLY" | NAMED_VARARG => "NAMED_VARARG" end).

Definition param_json (p : param) : jv :=
  JDict [(js"id", JStr (p_id p)); (js"name", JStr (p_name p));
         (js"docstring", JDict [(js"type", jopt asdict_ty (p_doc_type p)); (js"default_value", JStr (p_doc_default p));
                                (js"description", JStr (p_doc_desc p))]);
         (js"is_optional", JBool (p_optional p)); (js"default_value", dval_json (p_default p));
         (js"assigned_by", JStr (passign_name (p_assigned p))); (js"type", jopt to_dict (p_type p))].

Definition result_json (r : result) : jv :=
  JDict [(js"id", JStr (r_id r)); (js"name", JStr (r_name r)); (js"type", jopt to_dict (r_type r))].

Definition attr_json (a : attr) : jv :=
  JDict [(js"id", JStr (a_id a)); (js"name", JStr (a_name a));
         (js"docstring", JDict [(js"type", jopt asdict_ty (a_doc_type a)); (js"description", JStr (a_doc_desc a))]);
         (js"is_public", JBool (a_public a)); (js"is_static", JBool (a_static a)); (js"type", jopt to_dict (a_type a))].

Definition func_json (f : func) : jv :=
  JDict [(js"id", JStr (f_id f)); (js"name", JStr (f_name f)); (js"docstring", doc_json (f_doc f));
         (js"is_public", JBool (f_public f)); (js"is_static", JBool (f_static f)); (js"is_class_method", JBool (f_classm f));
         (js"is_property", JBool (f_prop f)); (js"results", jstrs (map r_id (f_results f)));
         (js"reexported_by", jstrs (map rm_id (f_reexported_by f))); (js"parameters", jstrs (map p_id (f_params f)))].

Definition variance_name (v : variance) : str :=
  js (match v with INVARIANT => "INVARIANT" | COVARIANT => "COVARIANT" | CONTRAVARIANT => "CONTRAVARIANT" end).

Definition cls_json (c : cls) : jv :=
  JDict [(js"id", JStr (c_id c)); (js"name", JStr (c_name c)); (js"docstring", doc_json (c_doc c));
         (js"is_public", JBool (c_public c)); (js"superclasses", jstrs (c_supers c));
         (js"constructor", jopt func_json (c_ctor c)); (js"inherits_from_exception", JBool (c_exc c));
         (js"reexported_by", jstrs (map rm_id (c_reexported_by c))); (js"attributes", jstrs (map a_id (c_attrs c)));
         (js"methods", jstrs (map f_id (c_methods c))); (js"classes", jstrs (map c_id (c_classes c)));
         (js"type_parameters", JList (map (fun tp => JDict [(js"name", JStr (tp_name tp)); (js"type", jopt to_dict (tp_type tp));
                                                            (js"variance_type", JStr (variance_name (tp_variance tp)))]) (c_tparams c)))].

Definition enum_json (e : enum_) : jv :=
  JDict [(js"id", JStr (e_id e)); (js"name", JStr (e_name e)); (js"docstring", doc_json (e_doc e));
         (js"instances", jstrs (map fst (e_instances e)))].

Definition module_json (m : module_) : jv :=
  JDict [(js"id", JStr (m_id m)); (js"name", JStr (m_name m)); (js"docstring", JStr (m_doc m));
         (js"qualified_imports", JList (map (fun q => JDict [(js"qualified_name", JStr (qi_name q)); (js"alias", jopt JStr (qi_alias q))]) (m_qimports m)));
         (js"wildcard_imports", JList (map (fun w => JDict [(js"module_name", JStr w)]) (m_wimports m)));
         (js"classes", jstrs (map c_id (m_classes m))); (js"functions", jstrs (map f_id (m_functions m)));
         (js"enums", jstrs (map e_id (m_enums m)))].

(* API.to_dict: every list sorted by id (sorted(self.X.values(), key=lambda it: it.id): stable, by the value's id) *)
Definition sorted_values {V} (id : V -> str) (d : list (str * V)) : list V := sort_by_key id (map snd d).

Definition api_json (distribution version : str) (o : outcome) : jv :=
  let a := o_api o in
  let f := o_flatd o in
  JDict [(js"schemaVersion", JInt t_schema_version); (js"distribution", JStr distribution); (js"package", JStr (api_package a));
         (js"version", JStr version);
         (js"modules", JList (map module_json (sort_by_key m_id (api_modules a))));
         (js"classes", JList (map cls_json (sorted_values c_id (api_classes a))));
         (js"functions", JList (map func_json (sorted_values f_id (fl_functions f))));
         (js"results", JList (map result_json (sorted_values r_id (fl_results f))));
         (js"enums", JList (map enum_json (sorted_values e_id (fl_enums f))));
         (js"enum_instances", JList (map (fun kv : str * str => JDict [(js"id", JStr (fst kv)); (js"name", JStr (snd kv))])
                                        (sort_by_key fst (fl_enum_insts f))));
         (js"attributes", JList (map attr_json (sorted_values a_id (fl_attrs f))));
         (js"parameters", JList (map param_json (sorted_values p_id (fl_params f))))].
