(* Model of src/safeds_stubgen/api_analyzer/_types.py: the 14 type constructors, to_dict / from_dict,
   Python equality (__eq__) and the hash key (what __hash__ feeds to hash()). *)
From Coq Require Import List Ascii String Bool Arith ZArith.
From SV Require Import Lib.Str.
Import ListNotations.

(* ---- Python scalar values that occur inside types and defaults ---- *)
Inductive lit := LStr (s : str) | LInt (z : Z) | LBool (b : bool) | LFloat (repr : str) | LNone.

(* ---- Python dictionaries / JSON values ---- *)
Inductive jv :=
| JNone | JBool (b : bool) | JInt (z : Z) | JFloat (repr : str) | JStr (s : str)
| JList (l : list jv) | JSet (l : list jv) | JDict (d : list (str * jv)).

Inductive ty :=
| TUnknown
| TNamed (name qname : str)
| TNamedSeq (name qname : str) (ts : list ty)
| TEnum (values : list str)
| TBoundary (base : str) (bmin bmax : lit) (min_inc max_inc : bool)
| TUnion (ts : list ty)
| TList (ts : list ty)
| TDict (k v : ty)
| TCallable (ps : list ty) (r : ty)
| TSet (ts : list ty)
| TLiteral (ls : list lit)
| TFinal (t : ty)
| TTuple (ts : list ty)
| TTypeVar (name : str) (ub : option ty).

(* induction principle that reaches through the lists *)
Section TyInd.
  Variable P : ty -> Prop.
  Hypothesis HUnknown : P TUnknown.
  Hypothesis HNamed : forall n q, P (TNamed n q).
  Hypothesis HNamedSeq : forall n q ts, Forall P ts -> P (TNamedSeq n q ts).
  Hypothesis HEnum : forall vs, P (TEnum vs).
  Hypothesis HBoundary : forall b mn mx i1 i2, P (TBoundary b mn mx i1 i2).
  Hypothesis HUnion : forall ts, Forall P ts -> P (TUnion ts).
  Hypothesis HList : forall ts, Forall P ts -> P (TList ts).
  Hypothesis HDict : forall k v, P k -> P v -> P (TDict k v).
  Hypothesis HCallable : forall ps r, Forall P ps -> P r -> P (TCallable ps r).
  Hypothesis HSet : forall ts, Forall P ts -> P (TSet ts).
  Hypothesis HLiteral : forall ls, P (TLiteral ls).
  Hypothesis HFinal : forall t, P t -> P (TFinal t).
  Hypothesis HTuple : forall ts, Forall P ts -> P (TTuple ts).
  Hypothesis HTypeVarN : forall n, P (TTypeVar n None).
  Hypothesis HTypeVarS : forall n u, P u -> P (TTypeVar n (Some u)).

  Fixpoint ty_ind' (t : ty) : P t :=
    let fix all (ts : list ty) : Forall P ts :=
      match ts with [] => Forall_nil P | x :: r => Forall_cons x (ty_ind' x) (all r) end in
    match t with
    | TUnknown => HUnknown
    | TNamed n q => HNamed n q
    | TNamedSeq n q ts => HNamedSeq n q ts (all ts)
    | TEnum vs => HEnum vs
    | TBoundary b mn mx i1 i2 => HBoundary b mn mx i1 i2
    | TUnion ts => HUnion ts (all ts)
    | TList ts => HList ts (all ts)
    | TDict k v => HDict k v (ty_ind' k) (ty_ind' v)
    | TCallable ps r => HCallable ps r (all ps) (ty_ind' r)
    | TSet ts => HSet ts (all ts)
    | TLiteral ls => HLiteral ls
    | TFinal t' => HFinal t' (ty_ind' t')
    | TTuple ts => HTuple ts (all ts)
    | TTypeVar n None => HTypeVarN n
    | TTypeVar n (Some u) => HTypeVarS n u (ty_ind' u)
    end.
End TyInd.

(* ---- to_dict ---- *)
Definition lit_to_jv (l : lit) : jv :=
  match l with LStr s => JStr s | LInt z => JInt z | LBool b => JBool b | LFloat r => JFloat r | LNone => JNone end.


Fixpoint to_dict (t : ty) : jv :=
  match t with
  | TUnknown => JDict [(K"kind", JStr (K"UnknownType"))]
  | TNamed n q => JDict [(K"kind", JStr (K"NamedType")); (K"name", JStr n); (K"qname", JStr q)]
  | TNamedSeq n q ts => JDict [(K"kind", JStr (K"NamedSequenceType")); (K"name", JStr n); (K"qname", JStr q);
                               (K"types", JList (map to_dict ts))]
  | TEnum vs => JDict [(K"kind", JStr (K"EnumType")); (K"values", JSet (map JStr vs))]
  | TBoundary b mn mx i1 i2 =>
    JDict [(K"kind", JStr (K"BoundaryType")); (K"base_type", JStr b); (K"min", lit_to_jv mn); (K"max", lit_to_jv mx);
           (K"min_inclusive", JBool i1); (K"max_inclusive", JBool i2)]
  | TUnion ts => JDict [(K"kind", JStr (K"UnionType")); (K"types", JList (map to_dict ts))]
  | TList ts => JDict [(K"kind", JStr (K"ListType")); (K"types", JList (map to_dict ts))]
  | TDict k v => JDict [(K"kind", JStr (K"DictType")); (K"key_type", to_dict k); (K"value_type", to_dict v)]
  | TCallable ps r => JDict [(K"kind", JStr (K"CallableType")); (K"parameter_types", JList (map to_dict ps));
                             (K"return_type", to_dict r)]
  | TSet ts => JDict [(K"kind", JStr (K"SetType")); (K"types", JList (map to_dict ts))]
  | TLiteral ls => JDict [(K"kind", JStr (K"LiteralType")); (K"literals", JList (map lit_to_jv ls))]
  | TFinal t' => JDict [(K"kind", JStr (K"FinalType")); (K"type", to_dict t')]
  | TTuple ts => JDict [(K"kind", JStr (K"TupleType")); (K"types", JList (map to_dict ts))]
  | TTypeVar n ub => JDict [(K"kind", JStr (K"TypeVarType")); (K"name", JStr n);
                            (K"upper_bound", match ub with Some u => to_dict u | None => JNone end)]
  end.

(* ---- from_dict ---- *)
Inductive err := KeyError | ValueError | TypeError | IndexError | LookupError | AttributeError | AssertionError
               | OutOfFuel | NoFilesFound | OracleMiss | OtherError.
Inductive res (T : Type) := Ok (a : T) | Err (e : err).
Arguments Ok {T}. Arguments Err {T}.

Definition bind {T U} (r : res T) (f : T -> res U) : res U := match r with Ok a => f a | Err e => Err e end.
Notation "'do' x <- r ; k" := (bind r (fun x => k)) (at level 200, x name, r at level 100, k at level 200).

Fixpoint mapM {T U} (f : T -> res U) (l : list T) : res (list U) :=
  match l with
  | [] => Ok []
  | x :: r => do y <- f x; do ys <- mapM f r; Ok (y :: ys)
  end.

Fixpoint jlookup (k : str) (d : list (str * jv)) : res jv :=
  match d with [] => Err KeyError | (k', v) :: r => if str_eqb k k' then Ok v else jlookup k r end.

Definition jv_to_lit (j : jv) : res lit :=
  match j with
  | JStr s => Ok (LStr s) | JInt z => Ok (LInt z) | JBool b => Ok (LBool b) | JFloat r => Ok (LFloat r) | JNone => Ok LNone
  | _ => Err TypeError
  end.

Definition jstr (j : jv) : res str := match j with JStr s => Ok s | _ => Err TypeError end.
Definition jbool (j : jv) : res bool := match j with JBool b => Ok b | _ => Err TypeError end.
Definition jlist (j : jv) : res (list jv) := match j with JList l => Ok l | JSet l => Ok l | _ => Err TypeError end.

(* the kind strings dispatched by AbstractType.from_dict come from the regenerated table; here they are the
   class names, which is what the code uses (X.__name__) *)
Fixpoint from_dict (fuel : nat) (j : jv) : res ty :=
  match fuel with O => Err OutOfFuel | S f =>
  match j with
  | JDict d =>
    do kj <- jlookup (K"kind") d;
    match kj with
    | JStr k =>
      if str_eqb k (K"UnknownType") then Ok TUnknown
      else if str_eqb k (K"NamedType") then
        do n <- jlookup (K"name") d; do q <- jlookup (K"qname") d; do n' <- jstr n; do q' <- jstr q; Ok (TNamed n' q')
      else if str_eqb k (K"NamedSequenceType") then
        do tj <- jlookup (K"types") d; do l <- jlist tj; do ts <- mapM (from_dict f) l;
        do n <- jlookup (K"name") d; do q <- jlookup (K"qname") d; do n' <- jstr n; do q' <- jstr q;
        Ok (TNamedSeq n' q' ts)
      else if str_eqb k (K"EnumType") then
        do vj <- jlookup (K"values") d; do l <- jlist vj; do vs <- mapM jstr l; Ok (TEnum vs)
      else if str_eqb k (K"BoundaryType") then
        do b <- jlookup (K"base_type") d; do b' <- jstr b;
        do mn <- jlookup (K"min") d; do mn' <- jv_to_lit mn;
        do mx <- jlookup (K"max") d; do mx' <- jv_to_lit mx;
        do i1 <- jlookup (K"min_inclusive") d; do i1' <- jbool i1;
        do i2 <- jlookup (K"max_inclusive") d; do i2' <- jbool i2;
        Ok (TBoundary b' mn' mx' i1' i2')
      else if str_eqb k (K"ListType") then
        do tj <- jlookup (K"types") d; do l <- jlist tj; do ts <- mapM (from_dict f) l; Ok (TList ts)
      else if str_eqb k (K"DictType") then
        do kt <- jlookup (K"key_type") d; do kt' <- from_dict f kt;
        do vt <- jlookup (K"value_type") d; do vt' <- from_dict f vt; Ok (TDict kt' vt')
      else if str_eqb k (K"SetType") then
        do tj <- jlookup (K"types") d; do l <- jlist tj; do ts <- mapM (from_dict f) l; Ok (TSet ts)
      else if str_eqb k (K"LiteralType") then
        do lj <- jlookup (K"literals") d; do l <- jlist lj; do ls <- mapM jv_to_lit l; Ok (TLiteral ls)
      else if str_eqb k (K"FinalType") then
        do tj <- jlookup (K"type") d; do t <- from_dict f tj; Ok (TFinal t)
      else if str_eqb k (K"TupleType") then
        do tj <- jlookup (K"types") d; do l <- jlist tj; do ts <- mapM (from_dict f) l; Ok (TTuple ts)
      else if str_eqb k (K"UnionType") then
        do tj <- jlookup (K"types") d; do l <- jlist tj; do ts <- mapM (from_dict f) l; Ok (TUnion ts)
      else if str_eqb k (K"CallableType") then
        do pj <- jlookup (K"parameter_types") d; do l <- jlist pj; do ps <- mapM (from_dict f) l;
        do rj <- jlookup (K"return_type") d; do r <- from_dict f rj; Ok (TCallable ps r)
      else if str_eqb k (K"TypeVarType") then
        do n <- jlookup (K"name") d; do n' <- jstr n;
        do ub <- jlookup (K"upper_bound") d;
        match ub with
        | JNone => Ok (TTypeVar n' None)
        | _ => do u <- from_dict f ub; Ok (TTypeVar n' (Some u))
        end
      else Err ValueError
    | _ => Err ValueError
    end
  | _ => Err TypeError
  end end.

Fixpoint depth (t : ty) : nat :=
  let mx := fix mx (ts : list ty) : nat := match ts with [] => 0 | x :: r => Nat.max (depth x) (mx r) end in
  match t with
  | TUnknown | TNamed _ _ | TEnum _ | TBoundary _ _ _ _ _ | TLiteral _ => 1
  | TNamedSeq _ _ ts | TUnion ts | TList ts | TSet ts | TTuple ts => S (mx ts)
  | TDict k v => S (Nat.max (depth k) (depth v))
  | TCallable ps r => S (Nat.max (mx ps) (depth r))
  | TFinal t' => S (depth t')
  | TTypeVar _ ub => S (match ub with Some u => depth u | None => 0 end)
  end.

(* ---- Python equality ---- *)
Definition lit_eqb (a b : lit) : bool :=
  match a, b with
  | LStr x, LStr y => str_eqb x y
  | LInt x, LInt y => Z.eqb x y
  | LBool x, LBool y => Bool.eqb x y
  | LInt x, LBool y | LBool y, LInt x => Z.eqb x (if y then 1 else 0)
  | LFloat x, LFloat y => str_eqb x y           (* domain: non-integral finite floats, one repr per value *)
  | LNone, LNone => true
  | _, _ => false
  end.

Fixpoint count_pred {T} (p : T -> bool) (l : list T) : nat :=
  match l with [] => 0 | y :: r => (if p y then 1 else 0) + count_pred p r end.
Definition count_of {T} (eqb : T -> T -> bool) (x : T) (l : list T) : nat := count_pred (eqb x) l.

(* Counter(a) == Counter(b) for an equivalence eqb: same length and every element of a is as frequent in b *)
Definition lit_counter_eqb (a b : list lit) : bool :=
  Nat.eqb (List.length a) (List.length b) && forallb (fun x => Nat.eqb (count_of lit_eqb x a) (count_of lit_eqb x b)) a.

Definition strset_eqb (a b : list str) : bool :=
  forallb (fun x => mem_str x b) a && forallb (fun x => mem_str x a) b.

Definition counter_eqb {T} (eqb : T -> T -> bool) (a b : list T) : bool :=
  Nat.eqb (List.length a) (List.length b) && forallb (fun x => Nat.eqb (count_of eqb x a) (count_of eqb x b)) a.

Definition num_of_lit (l : lit) : option Z :=
  match l with LInt z => Some z | LBool b => Some (if b then 1 else 0)%Z | _ => None end.

Fixpoint py_eq (a b : ty) {struct a} : bool :=
  match a, b with
  | TUnknown, TUnknown => true
  | TNamed n q, TNamed n' q' => str_eqb n n' && str_eqb q q'
  | TNamedSeq n q ts, TNamedSeq n' q' ts' => counter_eqb py_eq ts ts' && str_eqb n n' && str_eqb q q'
  | TEnum vs, TEnum vs' => strset_eqb vs vs'
  | TBoundary b1 mn mx i1 i2, TBoundary b1' mn' mx' i1' i2' =>
    if str_eqb b1 b1' && lit_eqb mn mn' && Bool.eqb i1 i1' && lit_eqb mx mx'
    then (if lit_eqb mx (LStr (K"Infinity")) then true else Bool.eqb i2 i2')
    else false
  | TUnion ts, TUnion ts' => counter_eqb py_eq ts ts'
  | TList ts, TList ts' => counter_eqb py_eq ts ts'
  | TDict k v, TDict k' v' => py_eq k k' && py_eq v v'
  | TCallable ps r, TCallable ps' r' => counter_eqb py_eq ps ps' && py_eq r r'
  | TSet ts, TSet ts' => counter_eqb py_eq ts ts'
  | TLiteral ls, TLiteral ls' => counter_eqb lit_eqb ls ls'
  | TFinal t, TFinal t' => py_eq t t'
  | TTuple ts, TTuple ts' => counter_eqb py_eq ts ts'
  | TTypeVar n ub, TTypeVar n' ub' =>
    str_eqb n n' && match ub, ub' with
                    | None, None => true
                    | Some u, Some u' => py_eq u u'
                    | _, _ => false
                    end
  | _, _ => false
  end.

(* ---- hash keys: the canonical structure of what each __hash__ feeds to hash() ---- *)
Inductive hk := HS (s : str) | HZ (z : Z) | HF (repr : str) | HNone | HTup (l : list hk) | HFro (l : list hk).

Definition lit_hk (l : lit) : hk :=
  match l with LStr s => HS s | LInt z => HZ z | LBool b => HZ (if b then 1 else 0) | LFloat r => HF r | LNone => HNone end.

Definition hk_str_eqb (a b : hk) : bool := match a, b with HS x, HS y => str_eqb x y | _, _ => false end.

(* a frozenset keeps one representative of each class of equal elements: first occurrences under the given equality *)
Fixpoint nodup_by {T} (eqb : T -> T -> bool) (l : list T) : list T :=
  match l with
  | [] => []
  | x :: r => x :: filter (fun y => negb (eqb x y)) (nodup_by eqb r)
  end.

Definition keyed_nodup {T} (eqb : T -> T -> bool) (l : list (T * hk)) : list hk :=
  map snd (nodup_by (fun a b => eqb (fst a) (fst b)) l).

Fixpoint hkey (t : ty) : hk :=
  match t with
  | TUnknown => HTup []
  | TNamed n q => HTup [HS n; HS q]
  | TNamedSeq n q ts => HFro (nodup_by hk_str_eqb [HS n; HS q] ++ keyed_nodup py_eq (map (fun x => (x, hkey x)) ts))
  | TEnum vs => HTup [HFro (map HS (nodup_by str_eqb vs))]
  | TBoundary b mn mx i1 i2 =>
    HTup [HS b; lit_hk mn; lit_hk mx; lit_hk (LBool i1);
          if lit_eqb mx (LStr (K"Infinity")) then HNone else lit_hk (LBool i2)]
  | TUnion ts | TList ts | TSet ts | TTuple ts => HFro (keyed_nodup py_eq (map (fun x => (x, hkey x)) ts))
  | TDict k v => HFro (keyed_nodup py_eq [(k, hkey k); (v, hkey v)])
  | TCallable ps r => HFro (keyed_nodup py_eq (map (fun x => (x, hkey x)) ps ++ [(r, hkey r)]))
  | TLiteral ls => HFro (map lit_hk (nodup_by lit_eqb ls))
  | TFinal t' => HFro [hkey t']
  | TTypeVar n ub => HFro [HS n; match ub with Some u => hkey u | None => HNone end]
  end.

(* equality of hash keys: tuples positionally, frozensets as multisets of the keys of their (pairwise unequal) elements.
   Equal keys => equal Python hashes: the hash of a frozenset is a commutative combination of its elements' hashes. *)
Fixpoint hk_eqb (a b : hk) {struct a} : bool :=
  match a, b with
  | HS x, HS y => str_eqb x y
  | HZ x, HZ y => Z.eqb x y
  | HF x, HF y => str_eqb x y
  | HNone, HNone => true
  | HTup l, HTup l' =>
    (fix go (l : list hk) (l' : list hk) : bool :=
       match l, l' with
       | [], [] => true
       | x :: r, y :: r' => hk_eqb x y && go r r'
       | _, _ => false
       end) l l'
  | HFro l, HFro l' =>
    Nat.eqb (List.length l) (List.length l') &&
    forallb (fun x => Nat.eqb (count_pred (hk_eqb x) l) (count_pred (hk_eqb x) l')) l
  | _, _ => false
  end.
