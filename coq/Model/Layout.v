(* Model of stubs_generator/_generate_stubs.py: generate_stub_data and create_stub_files over an abstract file system
   whose paths are relative to the output directory. *)
From Coq Require Import List Ascii String Bool Arith ZArith.
From SV Require Import Lib.Str Gen.Tables Model.Types Model.Naming Model.Api Model.Back.
Import ListNotations.

(* the "has enough information" test of generate_stub_data *)
Definition module_text_is_empty (text : str) : bool :=
  let t := if starts_with (K"/**") text
           then join (K"*/" ++ NL) (tl (split_str (K"*/" ++ NL ++ NL) text)) else text in
  let sp := split_ch nl t in
  (List.length sp <=? 2) || (Nat.eqb (List.length sp) 3 && starts_with (K"package ") (nth 1 sp [])).

(* one entry of stubs_data: directory (relative to out, '/'-separated), module name, text, is_package_module *)
Definition entry := (str * str * str * bool)%type.

Section Gen.
  Variable a : api.
  Variable nc : bool.

  Fixpoint modules_data (ms : list module_) : M (list entry) :=
    match ms with
    | [] => ret []
    | m :: rest =>
      if str_eqb (m_name m) (K"__init__") then modules_data rest
      else
        mdo r <- module_string (api_classes a) (api_reexport_map a) nc m;
        let '(text, package_info) := r in
        if module_text_is_empty text then modules_data rest
        else
          let '((sp, alias), tie) := shortest_public_reexport (api_reexport_map a) (m_name m) [] true in
          modify (with_tie tie) ;;
          let module_id := if nonempty sp then dot_to_slash sp else dot_to_slash package_info in
          let module_name := if nonempty alias then alias else m_name m in
          mdo more <- modules_data rest;
          ret ((module_id, module_name, text, false) :: more)
      end.

  Definition generate_stub_data : M (list entry) :=
    mdo d1 <- modules_data (api_modules a);
    mdo d2 <- reexport_module_strings (api_classes a) (api_reexport_map a) nc;
    ret (d1 ++ map (fun x : str * str * str => let '(id, n, t) := x in (id, n, t, true)) d2).

  Definition run_generate : res (list entry * gst) := generate_stub_data init_gst.
End Gen.

(* ---- files ---- *)
Definition fsys := list (str * str).   (* path relative to the output directory -> content *)

Fixpoint fs_write (p c : str) (fs : fsys) : fsys :=
  match fs with
  | [] => [(p, c)]
  | (q, d) :: r => if str_eqb p q then (q, c) :: r else (q, d) :: fs_write p c r
  end.
Fixpoint fs_lookup (p : str) (fs : fsys) : option str :=
  match fs with [] => None | (q, d) :: r => if str_eqb p q then Some d else fs_lookup p r end.
Definition fs_append (p c : str) (fs : fsys) : fsys :=
  match fs_lookup p fs with Some d => fs_write p (d ++ c) fs | None => fs_write p c fs end.

Definition path_join (dir file : str) : str := match dir with [] => file | _ => dir ++ K"/" ++ file end.

Definition entry_path (e : entry) : str :=
  let '(dir, name, _, is_pkg) := e in
  let dir' := if is_pkg then join (K"/") (removelast (split_ch "/"%char dir)) else dir in
  path_join dir' (lstrip_chars US name ++ K".sdsstub").

Definition outside_class_text (nc : bool) (class_name : str) : str :=
  let cc := convert nc true class_name in
  (if str_eqb class_name cc then [] else NL ++ name_annotation class_name) ++ NL ++ K"class " ++ escape cc ++ NL.

(* _create_outside_package_class *)
Definition create_outside_class (nc : bool) (class_path : str) (st : fsys * list str) : res (fsys * list str) :=
  let '(fs, created) := st in
  let parts_ := split_ch "."%char class_path in
  let class_name := last parts_ [] in
  let path_parts := removelast parts_ in
  match path_parts with
  | [] => Err IndexError
  | _ =>
    let module_name := last path_parts [] in
    let module_path := join (K"/") path_parts in
    let first := negb (mem_str module_path created) in
    let created' := if first then created ++ [module_path] else created in
    let file := path_join module_path (module_name ++ K".sdsstub") in
    match fs_lookup file fs with
    | Some _ =>
      if negb first then Ok (fs_append file (outside_class_text nc class_name) fs, created')
      else
        let py := join (K".") path_parts in
        let cc := convert nc false py in
        Ok (fs_write file ((if str_eqb py cc then [] else K"@PythonModule(""" ++ py ++ K""")" ++ NL) ++
                           K"package " ++ escape_path cc ++ NL ++ outside_class_text nc class_name) fs, created')
    | None =>
      let py := join (K".") path_parts in
      let cc := convert nc false py in
      Ok (fs_write file ((if str_eqb py cc then [] else K"@PythonModule(""" ++ py ++ K""")" ++ NL) ++
                         K"package " ++ escape_path cc ++ NL ++ outside_class_text nc class_name) fs, created')
    end
  end.

Definition create_stub_files (nc : bool) (data : list entry) (outside : list str) (fs0 : fsys) : res fsys :=
  let fs1 := fold_left (fun fs e => fs_write (entry_path e) (let '(_, _, t, _) := e in t) fs) data fs0 in
  let fix go (cs : list str) (st : fsys * list str) : res (fsys * list str) :=
    match cs with
    | [] => Ok st
    | c :: r => match create_outside_class nc c st with Ok st' => go r st' | Err e => Err e end
    end in
  match go (sort_str outside) (fs1, []) with
  | Ok (fs, _) => Ok fs
  | Err e => Err e
  end.

(* a complete generation: stub data, generator state, resulting files on an initially given tree *)
Definition back_run (a : api) (nc : bool) (fs0 : fsys) : res (list entry * gst * fsys) :=
  match run_generate a nc with
  | Err e => Err e
  | Ok (data, s) =>
    match create_stub_files nc data (g_outside s) fs0 with
    | Err e => Err e
    | Ok fs => Ok (data, s, fs)
    end
  end.
