(* Model of the analyzer: api_analyzer/_get_api.py (get_api, _get_aliases), _ast_walker.py (ASTWalker),
   _ast_visitor.py (MyPyAstVisitor, complete) and _mypy_helpers.py, as one function  front : view -> outcome.
   mypy, griffe and the file system are inputs (the view); every raise of the tool's own code is an explicit Err. *)
From Coq Require Import List Ascii String Bool Arith ZArith.
From SV Require Import Lib.Str Gen.Tables Model.Types Model.Naming Model.Discover Model.Api Model.FrontSmall Model.View.
Import ListNotations.

Definition dot : ascii := "."%char.
Definition DOT : str := [dot].
Definition split_dot (s : str) : list str := split_ch dot s.
Definition last_seg (s : str) : str := last (split_dot s) [].
Definition dots_to_slashes (s : str) : str := replace1 dot (K"/") s.
Definition slashes_to_dots (s : str) : str := replace1 "/"%char DOT s.

Fixpoint assoc {V} (k : str) (d : list (str * V)) : option V :=
  match d with [] => None | (k', v) :: r => if str_eqb k k' then Some v else assoc k r end.

Definition opt_str_eqb (o : option str) (s : str) : bool := match o with Some x => str_eqb x s | None => false end.

(* ======================================================================================================== *)
(* _get_aliases                                                                                               *)
(* ======================================================================================================== *)
(* aliases: name -> set of qualified names (insertion-ordered, duplicate-free list) *)
Definition aliases := list (str * list str).

Fixpoint alias_add (name fullname : str) (a : aliases) : aliases :=
  match a with
  | [] => [(name, [fullname])]
  | (n, qs) :: r => if str_eqb n name then (n, if mem_str fullname qs then qs else qs ++ [fullname]) :: r
                    else (n, qs) :: alias_add name fullname r
  end.

(* hasattr(_get_bound_args(type_value)[0], "type") and the fullname found there *)
Definition bound_arg_fullname (t : atype) : option (res str) :=
  match t with
  | ATCallable true true (Some f) => Some (Ok f)
  | ATCallable true true None => Some (Err AttributeError)
  | _ => None
  end.

Definition alias_step (package : str) (e : aentry) (a : aliases) : res aliases :=
  (* first part: name and in_package; None = continue *)
  let first : res (option (str * bool)) :=
    match ae_kind e with
    | AKName =>
      match ae_tinfo e with
      | Some (tn, tf) => Ok (Some (tn, contains package tf))
      | None =>
        match ae_name e with
        | None => Ok (Some ([], false))
        | Some kn =>
          let fullname : res str :=
            match ae_node e with
            | ANAlias f => Ok f
            | _ =>
              match ae_tv e with
              | ATCallable _ _ _ =>
                match bound_arg_fullname (ae_tv e) with Some r => r | None => Ok [] end
              | _ => match ae_node e with ANVar f => Ok f | _ => Ok [] end
              end
            end in
          match fullname with
          | Err x => Err x
          | Ok [] => Ok None
          | Ok f => Ok (Some (kn, contains package f))
          end
        end
      end
    | _ =>
      match ae_fullname e, ae_name e with
      | Some f, Some n => if contains package f then Ok (Some (n, true)) else Ok None
      | _, _ => Err TypeError
      end
    end in
  match first with
  | Err x => Err x
  | Ok None => Ok a
  | Ok (Some (name, false)) => Ok a
  | Ok (Some (name, true)) =>
    match ae_tv e with
    | ATCallable _ _ _ =>
      match bound_arg_fullname (ae_tv e) with
      | Some (Ok f) => Ok (alias_add name f a)
      | Some (Err x) => Err x
      | None =>
        match ae_kind e, ae_fullname e, ae_node e with
        | AKTypeVarExpr, Some f, _ => Ok (alias_add name f a)
        | AKName, _, ANVar f => Ok (alias_add name f a)
        | _, _, _ => Err TypeError
        end
      end
    | ATInstance f => Ok (alias_add name f a)
    | ATOther =>
      match ae_kind e, ae_fullname e, ae_node e with
      | AKTypeVarExpr, Some f, _ => Ok (alias_add name f a)
      | AKName, _, ANVar f => Ok (alias_add name f a)
      | _, _, _ => Err TypeError
      end
    end
  end.

Fixpoint get_aliases (package : str) (es : list aentry) (a : aliases) : res aliases :=
  match es with
  | [] => Ok a
  | e :: r => do a' <- alias_step package e a; get_aliases package r a'
  end.

(* ======================================================================================================== *)
(* mypy type -> API type                                                                                      *)
(* ======================================================================================================== *)
Record tenv := { te_classes : list (str * str);      (* (name, id) of the classes already added to the current module *)
                 te_qimports : list qimport;
                 te_aliases : aliases;
                 te_modfull : str }.

Definition search_alias_in_qimports (qis : list qimport) (alias_name : str) : str * str :=
  match find (fun qi => opt_str_eqb (qi_alias qi) alias_name || str_eqb (last_seg (qi_name qi)) alias_name) qis with
  | Some qi => (last_seg (qi_name qi), qi_name qi)
  | None => ([], [])
  end.

(* _find_alias; the boolean says that the answer depended on the iteration order of a set of strings (several
   candidates define the name in a module whose name contains the current module's name) *)
Definition find_alias (env : tenv) (type_name : str) : str * str * bool :=
  let '(n, q) := search_alias_in_qimports (te_qimports env) type_name in
  if nonempty n && nonempty q then (n, q, false) else
  match assoc type_name (te_aliases env) with
  | Some [q1] => (last_seg q1, q1, false)
  | Some qs =>
    let cands := filter (fun aq => contains (te_modfull env) (join DOT (removelast (split_dot aq)))) qs in
    match cands with
    | [] => (n, q, false)
    | [c] => (last_seg c, c, false)
    | c :: _ => (last_seg c, c, true)
    end
  | None => (n, q, false)
  end.

Definition any_ok (toa : str) : bool := mem_str toa t_type_of_any_ok.       (* has_correct_type_of_any *)

Definition is_object_inst (m : mtype) : bool :=
  match m with MInst _ f _ => str_eqb f (K"builtins.object") | _ => false end.

Definition named (n q : string) : ty := TNamed (K n) (K q).

(* result: type, and whether an order-dependent alias choice was involved *)
Definition tres := res (ty * bool).
Definition tret (t : ty) : tres := Ok (t, false).

Definition resolve_name (env : tenv) (n : str) : tres :=
  match find (fun c => str_eqb (fst c) n) (te_classes env) with
  | Some (cn, cid) => tret (TNamed cn (slashes_to_dots cid))
  | None =>
    let '(an, aq, amb) := find_alias env n in
    match aq with [] => Ok (TUnknown, amb) | _ => Ok (TNamed an aq, amb) end
  end.

(* mypy_type_to_abstract_type(mypy_type) with unanalyzed_type = None *)
Fixpoint mt1 (env : tenv) (m : mtype) : tres :=
  let all := fix all (l : list mtype) : res (list ty * bool) :=
    match l with
    | [] => Ok ([], false)
    | x :: r => do y <- mt1 env x; do ys <- all r; Ok (fst y :: fst ys, snd y || snd ys)
    end in
  match m with
  | MTuple items => do ts <- all items; Ok (TTuple (fst ts), snd ts)
  | MUnion items => do ts <- all items; Ok (TUnion (fst ts), snd ts)
  | MTypeVar n ub =>
    if is_object_inst ub then tret (TTypeVar n None)
    else do u <- mt1 env ub;
         if str_eqb n (K"Self") then Ok u else Ok (TTypeVar n (Some (fst u)), snd u)
  | MCallable args ret _ => do ps <- all args; do r <- mt1 env ret; Ok (TCallable (fst ps) (fst r), snd ps || snd r)
  | MAny toa missing =>
    if str_eqb toa (K"from_unimported_type") then
      match missing with
      | None => Err AttributeError
      | Some mi =>
        let '(an, aq, amb) := find_alias env (last_seg mi) in
        match aq with [] => Ok (TUnknown, amb) | _ => Ok (TNamed an aq, amb) end
      end
    else tret (named "Any" "typing.Any")
  | MNone => tret (named "None" "builtins.None")
  | MLit v => tret (TLiteral [v])
  | MUnbound n args =>
    if str_eqb n (K"list") then do ts <- all args; Ok (TList (fst ts), snd ts)
    else if str_eqb n (K"set") then do ts <- all args; Ok (TSet (fst ts), snd ts)
    else if mem_str n t_unbound_builtin then tret (TNamed n (K"builtins." ++ n))
    else resolve_name env n
  | MInst n q args =>
    if mem_str n t_mypy_basic then tret (TNamed n q)
    else if mem_str n t_mypy_iterables then
      do ts <- all args;
      if str_eqb n (K"tuple") then Ok (TTuple (fst ts), snd ts)
      else if str_eqb n (K"set") then Ok (TSet (fst ts), snd ts)
      else Ok (TList (fst ts), snd ts)
    else if mem_str n t_mypy_mappings then
      match args with
      | k :: v :: _ => do k' <- mt1 env k; do v' <- mt1 env v; Ok (TDict (fst k') (fst v'), snd k' || snd v')
      | _ => Err IndexError
      end
    else match args with
         | [] => tret (TNamed n q)
         | _ => do ts <- all args; Ok (TNamedSeq n q (fst ts), snd ts)
         end
  | MRaw _ | MOther _ _ _ => tret TUnknown
  end.

Fixpoint mt1_list (env : tenv) (l : list mtype) : res (list ty * bool) :=
  match l with
  | [] => Ok ([], false)
  | x :: r => do y <- mt1 env x; do ys <- mt1_list env r; Ok (fst y :: fst ys, snd y || snd ys)
  end.

(* the 'name' attribute of a mypy type object, when its class has one *)
Definition mt_name_attr (u : mtype) : option (option str) :=
  match u with
  | MUnbound n _ => Some (Some n)
  | MTypeVar n _ => Some (Some n)
  | MCallable _ _ c => Some c
  | MOther _ (Some n) _ => Some (Some n)
  | _ => None
  end.
Definition mt_args_attr (u : mtype) : list mtype :=
  match u with
  | MUnbound _ a | MInst _ _ a => a
  | MOther _ _ (Some a) => a
  | _ => []
  end.

(* mypy_type_to_abstract_type(mypy_type, unanalyzed_type) *)
Definition mt2 (env : tenv) (m : mtype) (u : option mtype) : tres :=
  match u with
  | None => mt1 env m
  | Some ut =>
    match mt_name_attr ut with
    | Some nm =>
      if opt_str_eqb nm (K"Final") then
        do ts <- mt1_list env (mt_args_attr ut);
        match fst ts with
        | [t] => Ok (TFinal t, snd ts)
        | [] => Err ValueError
        | l => Ok (TFinal (TUnion l), snd ts)
        end
      else if opt_str_eqb nm (K"list") || opt_str_eqb nm (K"set") then
        match mt_args_attr m with
        | [MAny toa _] => if negb (any_ok toa) then mt1 env ut else mt1 env m
        | _ => mt1 env m
        end
      else mt1 env m
    | None =>
      match ut with
      | MTuple items => do ts <- mt1_list env items; Ok (TTuple (fst ts), snd ts)
      | _ => mt1 env m
      end
    end
  end.

(* the TypeVarType values created (and added to self.type_var_types) while a type is translated: exactly the
   TypeVarType nodes of the result *)
Fixpoint tvars_of (t : ty) : list ty :=
  let all := fix all (l : list ty) : list ty := match l with [] => [] | x :: r => tvars_of x ++ all r end in
  match t with
  | TUnknown | TNamed _ _ | TEnum _ | TBoundary _ _ _ _ _ | TLiteral _ => []
  | TNamedSeq _ _ ts | TUnion ts | TList ts | TSet ts | TTuple ts => all ts
  | TDict k v => tvars_of k ++ tvars_of v
  | TCallable ps r => all ps ++ tvars_of r
  | TFinal t' => tvars_of t'
  | TTypeVar n None => [t]
  | TTypeVar n (Some u) => tvars_of u ++ [t]
  end.

(* ======================================================================================================== *)
(* expressions: default values, types of returned expressions                                                 *)
(* ======================================================================================================== *)
(* mypy_expression_to_sds_type *)
Fixpoint expr_type (e : expr) : res ty :=
  let all := fix all (l : list expr) : res (list ty) :=
    match l with [] => Ok [] | x :: r => do y <- expr_type x; do ys <- all r; Ok (y :: ys) end in
  match e with
  | EName n f _ => if str_eqb n (K"False") || str_eqb n (K"True") then Ok (named "bool" "builtins.bool") else Ok (TNamed n f)
  | EInt _ => Ok (named "int" "builtins.int")
  | EFloat _ => Ok (named "float" "builtins.float")
  | EStr _ => Ok (named "str" "builtins.str")
  | ETuple items => do ts <- all items; Ok (TTuple ts)
  | EUnary _ x => expr_type x
  | _ => Err TypeError
  end.

(* a Python value of a default: None stands for Python's None *)
Definition pyval := option dval.

Inductive logrec := LParamMismatch (fid : str) | LResultMismatch (fid : str) | LCallDefault (fid : str)
                  | LUnaryDefault (fid : str).

Definition quote_str (s : str) : str := """"%char :: s ++ [""""%char].

Definition unary_int (op : str) (z : Z) : option Z :=
  if str_eqb op (K"-") then (if (z <? 0)%Z then None else Some (- z)%Z)
  else if str_eqb op (K"+") then (if (z <? 0)%Z then None else Some z)
  else None.
Definition unary_float (op : str) (r : str) : option str :=
  let neg := starts_with (K"-") r in
  if str_eqb op (K"-") then (if neg then None else Some ("-"%char :: r))
  else if str_eqb op (K"+") then (if neg then None else Some r)
  else None.

(* _get_parameter_type_and_default_value: (default_value, default_is_none, log records) *)
Fixpoint default_of (fid : str) (e : expr) : pyval * bool * list logrec :=
  match e with
  | EName n _ _ =>
    if str_eqb n (K"None") then (None, true, [])
    else if str_eqb n (K"True") then (Some (DBool true), false, [])
    else if str_eqb n (K"False") then (Some (DBool false), false, [])
    else (None, false, [])
  | ECall => (None, false, [LCallDefault fid])
  | EUnary op x =>
    let '(v, isnone, lg) := default_of fid x in
    match v with
    | Some (DInt z) => match unary_int op z with Some z' => (Some (DInt z'), isnone, lg) | None => (Some DUnknown, isnone, lg ++ [LUnaryDefault fid]) end
    | Some (DFloat r) => match unary_float op r with Some r' => (Some (DFloat r'), isnone, lg) | None => (Some DUnknown, isnone, lg ++ [LUnaryDefault fid]) end
    | _ => (Some DUnknown, isnone, lg ++ [LUnaryDefault fid])
    end
  | EInt z => (Some (DInt z), false, [])
  | EFloat r => (Some (DFloat r), false, [])
  | EStr s => (Some (DStr (quote_str s)), false, [])
  | _ => (None, false, [])
  end.

Definition dval_of_pyval (v : pyval) : dval := match v with Some d => d | None => DNone end.

(* ======================================================================================================== *)
(* return statements                                                                                          *)
(* ======================================================================================================== *)
Fixpoint find_returns (s : bstmt) : list (option expr) :=
  let many := fix many (l : list bstmt) : list (option expr) :=
    match l with [] => [] | x :: r => find_returns x ++ many r end in
  let blocks := fix blocks (l : list (list bstmt)) : list (option expr) :=
    match l with [] => [] | b :: r => many b ++ blocks r end in
  match s with
  | BIf bodies els => blocks bodies ++ match els with Some b => many b | None => [] end
  | BBlock b => many b
  | BTry body handlers => many body ++ blocks handlers
  | BMatch bodies => blocks bodies
  | BLoop body => many body
  | BRet e => [e]
  | BAssign _ _ | BOther => []
  end.
Definition find_returns_list (l : list bstmt) : list (option expr) := flat_map find_returns l.

Definition is_call_or_member (e : expr) : bool := match e with ECall | EMember _ _ _ => true | _ => false end.
Definition keeps_inferred (t : ty) : bool := match t with TNamed _ _ | TTuple _ => true | _ => false end.

(* the types one return expression contributes *)
Definition return_types (e : expr) : res (list ty) :=
  if is_call_or_member e then Ok [] else
  match e with
  | ECond a b =>
    do ta <- (if is_call_or_member a then Ok [] else do t <- expr_type a; Ok (if keeps_inferred t then [t] else []));
    do tb <- (if is_call_or_member b then Ok [] else do t <- expr_type b; Ok (if keeps_inferred t then [t] else []));
    Ok (ta ++ tb)
  | EName _ _ (VVar _ vt _ _ true) =>
    match vt with
    | Some (MInst n q _) => Ok [TNamed n q]
    | _ => Err AttributeError
    end
  | _ => do t <- expr_type e; Ok (if keeps_inferred t then [t] else [])
  end.

(* str(x.to_dict()) for the values that can occur here (names without quotes, backslashes or control characters) *)
Definition py_repr_str (s : str) : str := "'"%char :: s ++ ["'"%char].
Fixpoint py_repr_jv (j : jv) : str :=
  match j with
  | JNone => K"None"
  | JBool b => if b then K"True" else K"False"
  | JInt z => Z_dec z
  | JFloat r => r
  | JStr s => py_repr_str s
  | JList l | JSet l => K"[" ++ join (K", ") (map py_repr_jv l) ++ K"]"
  | JDict d => K"{" ++ join (K", ") (map (fun kv => py_repr_str (fst kv) ++ K": " ++ py_repr_jv (snd kv)) d) ++ K"}"
  end.

Definition infer_sort_key (t : ty) : str * str :=
  (match t with
   | TNamed n _ => n
   | TTuple ts => nat_dec (List.length ts)
   | _ => []
   end, py_repr_jv (to_dict t)).
Definition key_leb (a b : str * str) : bool :=
  if str_eqb (fst a) (fst b) then str_leb (snd a) (snd b) else str_leb (fst a) (fst b).

(* _infer_type_from_return_stmts *)
Definition infer_from_returns (body : list bstmt) : res (option ty) :=
  match find_returns_list body with
  | [] => Ok None
  | rets =>
    do tss <- mapM (fun r => match r with None => Ok [] | Some e => return_types e end) rets;
    let types := nodup_by py_eq (List.concat tss) in
    Ok (Some (TTuple (isort (fun a b => key_leb (infer_sort_key a) (infer_sort_key b)) types)))
  end.

(* result_name_generator: result_1, result_2, ... ; k = how many names have been drawn *)
Definition gen_name (k : nat) : str := t_result_prefix ++ nat_dec (S (k mod 999)).

Definition hash_eq (a b : option ty) : bool :=
  match a, b with
  | Some x, Some y => hk_eqb (hkey x) (hkey y)
  | None, None => true
  | _, _ => false
  end.
Definition oty_eq (a b : option ty) : bool :=
  match a, b with Some x, Some y => py_eq x y | None, None => true | _, _ => false end.

Definition mk_result (fid name : str) (t : ty) : result := {| r_id := fid ++ K"/" ++ name; r_name := name; r_type := Some t |}.

(* name from a docstring entry, or the next generated name *)
Definition pick_name (d : option rdoc) (k : nat) : str * nat :=
  match d with
  | Some r => match rd_name r with [] => (gen_name k, S k) | n => (n, k) end
  | None => (gen_name k, S k)
  end.

(* _create_inferred_results *)
Fixpoint list_set_nth {T} (n : nat) (f : T -> T) (l : list T) : list T :=
  match l, n with
  | [], _ => []
  | x :: r, O => f x :: r
  | x :: r, S n' => x :: list_set_nth n' f r
  end.

Definition mem_ty (t : ty) (l : list ty) : bool := existsb (py_eq t) l.

Fixpoint place_tuple (items : list ty) (i : nat) (arr : list (list ty)) (longest : nat) : list (list ty) * nat :=
  match items with
  | [] => (arr, longest)
  | t :: r =>
    if i <? List.length arr then
      let row := nth i arr [] in
      if mem_ty t row then place_tuple r (S i) arr longest
      else let arr' := list_set_nth i (fun ro => ro ++ [t]) arr in
           place_tuple r (S i) arr' (Nat.max longest (S (List.length row)))
    else place_tuple r (S i) (arr ++ [[t]]) longest
  end.

Fixpoint build_array (types : list ty) (arr : list (list ty)) (longest : nat) : res (list (list ty) * nat) :=
  match types with
  | [] => Ok (arr, longest)
  | TNamed n q :: r =>
    (match arr with
     | [] => build_array r [[TNamed n q]] longest
     | row :: rest => build_array r ((row ++ [TNamed n q]) :: rest) longest
     end)
  | TTuple items :: r => let '(arr', l') := place_tuple items 0 arr longest in build_array r arr' l'
  | _ :: _ => Err TypeError
  end.

Definition none_named : ty := named "None" "builtins.None".

Fixpoint inferred_rows (fid : str) (docs_ : list rdoc) (rows : list (list ty)) (k : nat) : list result :=
  match rows with
  | [] => []
  | row :: rest =>
    let rt := match row with [t] => t | _ => TUnion row end in
    let d : option rdoc :=
      match docs_ with
      | [] => None
      | d0 :: dr =>
        match rt with
        | TUnion _ =>
          let possible : option ty :=
            match dr with
            | [] => rd_type d0
            | _ => Some (TUnion (flat_map (fun d => match rd_type d with Some t => [t] | None => [] end) docs_))
            end in
          if oty_eq possible (Some rt) then Some d0 else None
        | _ => find (fun d => hash_eq (rd_type d) (Some rt)) docs_
        end
      end in
    let '(name, k') := pick_name d k in
    mk_result fid name rt :: inferred_rows fid docs_ rest k'
  end.

Definition create_inferred_results (fid : str) (types : list ty) (docs_ : list rdoc) : res (list result) :=
  do al <- build_array types [] 1;
  let '(arr, longest) := al in
  let arr' := map (fun row => if (List.length row <? longest) && negb (mem_ty none_named row) then row ++ [none_named] else row) arr in
  match arr', docs_ with
  | [[t]], [d] => let '(name, _) := pick_name (Some d) 0 in Ok [mk_result fid name t]
  | _, _ => Ok (inferred_rows fid docs_ arr' 0)
  end.

Fixpoint zip_results (fid : str) (ts : list ty) (ds : list rdoc) (k : nat) : list result :=
  match ts, ds with
  | t :: tr, d :: dr => let '(name, k') := pick_name (Some d) k in mk_result fid name t :: zip_results fid tr dr k'
  | _, _ => []
  end.
Fixpoint match_results (fid : str) (ts : list ty) (ds : list rdoc) (k : nat) : list result :=
  match ts with
  | [] => []
  | t :: tr =>
    let '(name, k') := pick_name (find (fun d => hash_eq (rd_type d) (Some t)) ds) k in
    mk_result fid name t :: match_results fid tr ds k'
  end.

(* the test that sends an un-annotated function to return inference *)
Definition uret_allows_inference (u : option mtype) : bool :=
  match u with
  | None => true
  | Some (MRaw true) => true
  | Some (MAny _ _) => true
  | Some _ => false
  end.

(* _parse_results; the boolean is the order-dependence flag of the alias lookup *)
Definition parse_results (env : tenv) (f : fdef) (fid : str) (rdocs : list rdoc) : res (list result * bool) :=
  if str_eqb (fn_name f) (K"__init__") then Ok ([], false) else
  do ri <- (match fn_type f with
            | Some (FRet MNone _) => Ok (Some none_named, false, false)
            | Some (FRet rt u) =>
              match rt with
              | MAny toa _ =>
                if uret_allows_inference u && negb (any_ok toa) then
                  do t <- infer_from_returns (fn_body f); Ok (t, match t with Some _ => true | None => false end, false)
                else do t <- mt2 env rt u; Ok (Some (fst t), false, snd t)
              | _ => do t <- mt2 env rt u; Ok (Some (fst t), false, snd t)
              end
            | Some FNoRet | None =>
              do t <- infer_from_returns (fn_body f); Ok (t, match t with Some _ => true | None => false end, false)
            end);
  let '(ret, inferred, amb) := ri in
  match ret with
  | None => Ok ([], amb)
  | Some rt =>
    match inferred, rt with
    | true, TTuple ts => do rs <- create_inferred_results fid ts rdocs; Ok (rs, amb)
    | _, _ =>
      let rets := match rt with TTuple ts => ts | _ => [rt] end in
      if Nat.eqb (List.length rets) (List.length rdocs) then Ok (zip_results fid rets rdocs 0, amb)
      else Ok (match_results fid rets rdocs 0, amb)
    end
  end.

(* ======================================================================================================== *)
(* the visitor state                                                                                          *)
(* ======================================================================================================== *)
Inductive aitem := AIAttr (a : attr) | AIEnumInst (id name : str).

Inductive frame :=
| FModule (m : module_)
| FClass (c : cls)
| FFunc (f : func)
| FEnum (e : enum_)
| FAssign (items : list aitem).

Record vstate := {
  vs_modules : list (str * module_);
  vs_classes : list (str * cls);
  vs_rmap : list (str * list rmod);
  vs_functions : list (str * func); vs_results : list (str * result); vs_params : list (str * param);
  vs_attrs : list (str * attr); vs_enums : list (str * enum_); vs_enum_insts : list (str * str);
                                                               (* the flat dictionaries id -> declaration, insertion order *)
  vs_stack : list frame;                                       (* top first *)
  vs_modfull : str; vs_modname : str }.                        (* mypy_file.fullname / .name *)

(* what a step adds to the log, and whether it met an order-dependent alias choice; kept outside the state *)
Definition W := (list logrec * bool)%type.
Definition w0 : W := ([], false).
Definition wapp (a b : W) : W := (fst a ++ fst b, snd a || snd b).


Definition rmap_add (key : str) (m : rmod) (rm : list (str * list rmod)) : list (str * list rmod) :=
  (fix go (rm : list (str * list rmod)) : list (str * list rmod) :=
     match rm with
     | [] => [(key, [m])]
     | (k, ms) :: r =>
       if str_eqb k key then (k, if existsb (fun x => str_eqb (rm_id x) (rm_id m)) ms then ms else ms ++ [m]) :: r
       else (k, ms) :: go r
     end) rm.

Definition frame_seg (fr : frame) : list str :=
  match fr with
  | FModule m => [m_id m]
  | FClass c => [c_name c]
  | FFunc f => [f_name f]
  | FEnum e => [e_name e]
  | FAssign _ => []
  end.
(* _create_id_from_stack *)
Definition id_from_stack (st : vstate) (name : str) : str :=
  join (K"/") (flat_map frame_seg (rev (vs_stack st)) ++ [name]).

(* ---- documentation oracle ---- *)
Definition doc_class (d : docs) (q : str) : res docstring :=
  match assoc q (dc_class d) with Some r => r | None => Err OracleMiss end.
Definition doc_func (d : docs) (q : str) : res docstring :=
  match assoc q (dc_func d) with Some r => r | None => Err OracleMiss end.
Definition doc_results (d : docs) (q : str) : res (list rdoc) :=
  match assoc q (dc_result d) with Some r => r | None => Err OracleMiss end.
Definition doc_param (d : docs) (fq pn cq : str) : res pdoc :=
  match find (fun e => let '(a, b, c, _) := e in str_eqb a fq && str_eqb b pn && str_eqb c cq) (dc_param d) with
  | Some (_, _, _, r) => r
  | None => Err OracleMiss
  end.
Definition doc_attr (d : docs) (cq an : str) : res adoc :=
  match find (fun e => let '(a, b, _) := e in str_eqb a cq && str_eqb b an) (dc_attr d) with
  | Some (_, _, r) => r
  | None => Err OracleMiss
  end.

(* ---- re-exports ---- *)
Definition rmap_get (rm : list (str * list rmod)) (k : str) : list rmod := match assoc k rm with Some l => l | None => [] end.

Definition lastn {T} (n : nat) (l : list T) : list T := skipn (List.length l - n) l.

(* _get_reexported_by, sorted by id *)
Definition get_reexported_by (rm : list (str * list rmod)) (qname : str) : list rmod :=
  let path := split_dot qname in
  let n := List.length path in
  let step (i : nat) : list rmod :=
    let fwd := join DOT (firstn (S i) path) in
    let bwd := join DOT (lastn (S i) path) in
    let wl := join DOT (skipn (n - 2 - i) (removelast path)) ++ K".*" in
    rmap_get rm fwd ++ rmap_get rm bwd ++ rmap_get rm wl in
  let all := flat_map step (seq 0 n) in
  sort_by_key rm_id (nodup_by (fun a b => str_eqb (rm_id a) (rm_id b)) all).

(* _check_publicity_in_reexports: Some true or None *)
Definition parent_public_or_module (parent : frame) : bool :=
  match parent with FModule _ => true | FClass c => c_public c | _ => false end.

Definition check_publicity_in_reexports (st : vstate) (name qname : str) (parent : frame) : bool :=
  let not_internal := negb (is_internal name) in
  let module_qname := vs_modfull st in
  let module_name := vs_modname st in
  let package_id := join (K"/") (removelast (split_dot module_qname)) in
  let pm := parent_public_or_module parent in
  existsb (fun kv : str * list rmod =>
    let key := fst kv in
    let module_is_reexported := mem_str key [module_name; module_qname; module_name ++ K".*"; module_qname ++ K".*"] in
    (ends_with name key || module_is_reexported) &&
    existsb (fun src : rmod =>
      let same := str_eqb (rm_id src) package_id in
      let other := mem_str (rstrip_chars (K".*") key) [qname; module_qname] in
      (same || other) &&
      ((module_is_reexported &&
        (existsb (fun w => ((same && str_eqb w module_name) || (other && str_eqb w module_qname)) && not_internal && pm)
                 (rm_wimports src)
         || existsb (fun qi => mem_str (qi_name qi) [module_name; module_qname]
                               && (match qi_alias qi with None => not_internal | Some a => negb (is_internal a) end)
                               && not_internal && pm)
                    (rm_qimports src)))
       || (ends_with name key &&
           existsb (fun qi => ends_with (qi_name qi) qname
                              && (match qi_alias qi with Some a => negb (is_internal a) | None => not_internal end))
                   (rm_qimports src))))
      (snd kv))
    (vs_rmap st).

(* _is_public *)
Definition is_public (st : vstate) (name qname : str) : res bool :=
  match vs_stack st with
  | [] => Err IndexError
  | parent :: _ =>
    let ok_parent := match parent with
                     | FModule _ | FClass _ => true
                     | FFunc f => str_eqb (f_name f) (K"__init__")
                     | _ => false
                     end in
    if negb ok_parent then Err TypeError else
    let reexp := match parent with FFunc _ => false | _ => check_publicity_in_reexports st name qname parent end in
    if reexp then Ok true
    else if is_internal name && negb (ends_with (K"__") name) then Ok false
    else match parent with
         | FClass c => if str_eqb name (K"__init__") || negb (is_internal name) then Ok (c_public c)
                       else Ok (forallb (fun it => negb (is_internal it)) (removelast (split_dot qname)))
         | _ => Ok (forallb (fun it => negb (is_internal it)) (removelast (split_dot qname)))
         end
  end.

(* the environment of the type translation at the current point of the walk *)
Definition bottom_module (st : vstate) : res module_ :=
  match rev (vs_stack st) with
  | FModule m :: _ => Ok m
  | _ => Err TypeError
  end.

Definition tenv_of (al : aliases) (st : vstate) : res tenv :=
  do m <- bottom_module st;
  Ok {| te_classes := map (fun c => (c_name c, c_id c)) (m_classes m); te_qimports := m_qimports m; te_aliases := al;
        te_modfull := vs_modfull st |}.

(* ======================================================================================================== *)
(* enter / leave                                                                                              *)
(* ======================================================================================================== *)
Definition set_stack (st : vstate) (s : list frame) : vstate :=
  {| vs_modules := vs_modules st; vs_classes := vs_classes st; vs_rmap := vs_rmap st; vs_functions := vs_functions st;
     vs_results := vs_results st; vs_params := vs_params st; vs_attrs := vs_attrs st; vs_enums := vs_enums st;
     vs_enum_insts := vs_enum_insts st; vs_stack := s; vs_modfull := vs_modfull st; vs_modname := vs_modname st |}.
Definition push (st : vstate) (fr : frame) : vstate := set_stack st (fr :: vs_stack st).
(* ---- modules ---- *)
Definition imports_of (m : mfile) : list qimport * list str :=
  fold_left (fun acc i =>
    let '(q, w) := acc in
    match i with
    | Imp ids => (q ++ map (fun na => {| qi_name := fst na; qi_alias := snd na |}) ids, w)
    | ImpFrom id names =>
      let pre := match id with [] => [] | _ => id ++ DOT end in
      (q ++ map (fun na => {| qi_name := pre ++ fst na; qi_alias := snd na |}) names, w)
    | ImpAll id => (q, w ++ [id])
    | ImpOther => (q, w)
    end) (mf_imports m) ([], []).

Definition enter_module (st : vstate) (m : mfile) : vstate :=
  let is_package := ends_with t_init_file (mf_path m) in
  let '(qis, wis) := imports_of m in
  let id := dots_to_slashes (mf_fullname m) in
  let md := {| m_id := id; m_name := if is_package then K"__init__" else mf_name m;
               m_doc := match mf_first_doc m with Some d => d | None => [] end;
               m_qimports := qis; m_wimports := wis; m_classes := []; m_functions := []; m_enums := [] |} in
  let rmd := {| rm_id := id; rm_qimports := qis; rm_wimports := wis |} in
  let rm := if is_package then
              fold_left (fun acc w => rmap_add (w ++ K".*") rmd acc) wis
                        (fold_left (fun acc qi => rmap_add (qi_name qi) rmd acc) qis (vs_rmap st))
            else vs_rmap st in
  {| vs_modules := vs_modules st; vs_classes := vs_classes st; vs_rmap := rm; vs_functions := vs_functions st;
     vs_results := vs_results st; vs_params := vs_params st; vs_attrs := vs_attrs st; vs_enums := vs_enums st;
     vs_enum_insts := vs_enum_insts st; vs_stack := FModule md :: vs_stack st; vs_modfull := mf_fullname m;
     vs_modname := mf_name m |}.

Definition leave_module (st : vstate) : res vstate :=
  match vs_stack st with
  | FModule md :: rest =>
    Ok {| vs_modules := dict_set (m_id md) md (vs_modules st); vs_classes := vs_classes st; vs_rmap := vs_rmap st;
          vs_functions := vs_functions st; vs_results := vs_results st; vs_params := vs_params st; vs_attrs := vs_attrs st;
          vs_enums := vs_enums st; vs_enum_insts := vs_enum_insts st; vs_stack := rest; vs_modfull := vs_modfull st;
          vs_modname := vs_modname st |}
  | _ => Err AssertionError
  end.

(* ---- classes ---- *)
Definition variance_of (z : Z) : res variance :=
  if (z =? 0)%Z then Ok INVARIANT else if (z =? 1)%Z then Ok COVARIANT else if (z =? 2)%Z then Ok CONTRAVARIANT else Err ValueError.

Definition type_parameter (env : tenv) (n : tvnode) : res (tparam * bool) :=
  match n with
  | TvBad => Err AttributeError
  | Tv name v values ub =>
    do vk <- variance_of v;
    match vk with
    | INVARIANT =>
      do vs <- mt1_list env values;
      match fst vs with
      | [] => Ok ({| tp_name := name; tp_type := None; tp_variance := vk |}, snd vs)
      | l => Ok ({| tp_name := name; tp_type := Some (TUnion l); tp_variance := vk |}, snd vs)
      end
    | _ =>
      if is_object_inst ub then Ok ({| tp_name := name; tp_type := None; tp_variance := vk |}, false)
      else do u <- mt1 env ub; Ok ({| tp_name := name; tp_type := Some (fst u); tp_variance := vk |}, snd u)
    end
  end.

Definition generic_names : list str := [K"Collection"; K"Generic"; K"Sequence"].

Definition type_parameters (env : tenv) (c : cdef) : res (list tparam * bool) :=
  let generic := filter (fun b => match be_base_name b with Some n => mem_str n generic_names | None => false end)
                        (cd_removed c ++ cd_bases c) in
  match generic with
  | [] => Ok ([], false)
  | g :: _ =>
    do nodes <- (match be_index g with
                 | IxTuple items => Ok (flat_map (fun o => match o with Some n => [n] | None => [] end) items)
                 | IxName n => Ok [n]
                 | IxOther => Err TypeError
                 end);
    do tps <- mapM (type_parameter env) nodes;
    Ok (map fst tps, existsb snd tps)
  end.

Definition superclasses (env : tenv) (c : cdef) : list str * bool * bool :=
  fold_left (fun acc b =>
    let '(sups, exc, amb) := acc in
    let exc' := exc || be_exc b in
    match be_fullname b with
    | None => (sups, exc', amb)
    | Some q =>
      let n := last_seg q in
      match assoc n (te_aliases env) with
      | Some _ =>
        let '(_, aq, a) := find_alias env n in
        (sups ++ [match aq with [] => q | _ => aq end], exc', amb || a)
      | None => (sups ++ [q], exc', amb)
      end
    end) (cd_bases c) ([], false, false).

Definition ctor_fulldoc (d : docs) (c : cdef) : res str :=
  fold_left (fun acc m =>
    do cur <- acc;
    match m with
    | CMFunc f => if str_eqb (fn_name f) (K"__init__") then do ds <- doc_func d (fn_fullname f); Ok (d_full ds) else Ok cur
    | _ => Ok cur
    end) (cd_defs c) (Ok []).

Definition enter_class (al : aliases) (d : docs) (st : vstate) (c : cdef) : res (vstate * W) :=
  let id := id_from_stack st (cd_name c) in
  do doc <- doc_class d (cd_fullname c);
  do env <- tenv_of al st;
  do tps <- type_parameters env c;
  let '(sups, exc, amb) := superclasses env c in
  let reexp := get_reexported_by (vs_rmap st) (cd_fullname c) in
  do cfd <- ctor_fulldoc d c;
  do pub <- is_public st (cd_name c) (cd_fullname c);
  let cl := mkcls id (cd_name c) sups pub doc None cfd exc reexp [] [] [] (fst tps) in
  Ok (push st (FClass cl), ([], amb || snd tps)).

Definition cls_add_class (p c : cls) : cls :=
  mkcls (c_id p) (c_name p) (c_supers p) (c_public p) (c_doc p) (c_ctor p) (c_ctor_fulldoc p) (c_exc p) (c_reexported_by p)
        (c_attrs p) (c_methods p) (c_classes p ++ [c]) (c_tparams p).
Definition cls_add_method (p : cls) (f : func) : cls :=
  mkcls (c_id p) (c_name p) (c_supers p) (c_public p) (c_doc p) (c_ctor p) (c_ctor_fulldoc p) (c_exc p) (c_reexported_by p)
        (c_attrs p) (c_methods p ++ [f]) (c_classes p) (c_tparams p).
Definition cls_set_ctor (p : cls) (f : func) : cls :=
  mkcls (c_id p) (c_name p) (c_supers p) (c_public p) (c_doc p) (Some f) (c_ctor_fulldoc p) (c_exc p) (c_reexported_by p)
        (c_attrs p) (c_methods p) (c_classes p) (c_tparams p).
Definition cls_add_attr (p : cls) (a : attr) : cls :=
  mkcls (c_id p) (c_name p) (c_supers p) (c_public p) (c_doc p) (c_ctor p) (c_ctor_fulldoc p) (c_exc p) (c_reexported_by p)
        (c_attrs p ++ [a]) (c_methods p) (c_classes p) (c_tparams p).
Definition mod_add_class (m : module_) (c : cls) : module_ :=
  {| m_id := m_id m; m_name := m_name m; m_doc := m_doc m; m_qimports := m_qimports m; m_wimports := m_wimports m;
     m_classes := m_classes m ++ [c]; m_functions := m_functions m; m_enums := m_enums m |}.
Definition mod_add_function (m : module_) (f : func) : module_ :=
  {| m_id := m_id m; m_name := m_name m; m_doc := m_doc m; m_qimports := m_qimports m; m_wimports := m_wimports m;
     m_classes := m_classes m; m_functions := m_functions m ++ [f]; m_enums := m_enums m |}.
Definition mod_add_enum (m : module_) (e : enum_) : module_ :=
  {| m_id := m_id m; m_name := m_name m; m_doc := m_doc m; m_qimports := m_qimports m; m_wimports := m_wimports m;
     m_classes := m_classes m; m_functions := m_functions m; m_enums := m_enums m ++ [e] |}.

Definition with_classes (st : vstate) (cs : list (str * cls)) (s : list frame) : vstate :=
  {| vs_modules := vs_modules st; vs_classes := cs; vs_rmap := vs_rmap st; vs_functions := vs_functions st;
     vs_results := vs_results st; vs_params := vs_params st; vs_attrs := vs_attrs st; vs_enums := vs_enums st;
     vs_enum_insts := vs_enum_insts st; vs_stack := s; vs_modfull := vs_modfull st; vs_modname := vs_modname st |}.

Definition leave_class (st : vstate) : res vstate :=
  match vs_stack st with
  | FClass c :: rest =>
    match rest with
    | FModule m :: r' => Ok (with_classes st (dict_set (c_id c) c (vs_classes st)) (FModule (mod_add_class m c) :: r'))
    | FClass p :: r' => Ok (with_classes st (dict_set (c_id c) c (vs_classes st)) (FClass (cls_add_class p c) :: r'))
    | _ => Ok (set_stack st rest)
    end
  | _ => Err AssertionError
  end.

(* ---- functions ---- *)
Definition parent_class_id (st : vstate) : str := match vs_stack st with FClass c :: _ => c_id c | _ => [] end.

Definition parse_parameter (env : tenv) (d : docs) (st : vstate) (f : fdef) (fid : str) (a : arg)
  : res (param * list ty * list logrec * bool) :=
  match ar_vtype a with
  | None => Err ValueError
  | Some vt =>
    do at_ <- (match vt with
               | MAny toa _ => if negb (any_ok toa) then Ok (None, false) else
                                 match ar_annot a with
                                 | Some (MUnbound n args as an) =>
                                   if (str_eqb n (K"list") || str_eqb n (K"set")) && (2 <=? List.length args)
                                   then do t <- mt1 env an; Ok (Some (fst t), snd t)
                                   else do t <- mt1 env vt; Ok (Some (fst t), snd t)
                                 | Some _ => do t <- mt1 env vt; Ok (Some (fst t), snd t)
                                 | None => Ok (None, false)
                                 end
               | _ =>
                 match ar_annot a with
                 | Some (MUnbound n args as an) =>
                   if (str_eqb n (K"list") || str_eqb n (K"set")) && (2 <=? List.length args)
                   then do t <- mt1 env an; Ok (Some (fst t), snd t)
                   else do t <- mt1 env vt; Ok (Some (fst t), snd t)
                 | Some _ => do t <- mt1 env vt; Ok (Some (fst t), snd t)
                 | None => Ok (None, false)
                 end
               end);
    let '(arg_type0, amb) := at_ in
    let tv := match arg_type0 with Some t => tvars_of t | None => [] end in
    do dv <- (match ar_init a with
              | None => Ok (None, false, [], arg_type0)
              | Some e =>
                let '(v, isnone, lg) := default_of fid e in
                match arg_type0 with
                | None => if isnone || (match v with Some _ => true | None => false end)
                          then do t <- expr_type e; Ok (v, isnone, lg, Some t)
                          else Ok (v, isnone, lg, None)
                | Some _ => Ok (v, isnone, lg, arg_type0)
                end
              end);
    let '(v, isnone, lg, arg_type) := dv in
    do kind <- (match get_argument_kind (ar_is_self a || ar_is_cls a) (ar_pos_only a) (ar_kind a) with
                | Some k => Ok k | None => Err ValueError end);
    let pcq := match vs_stack st with
               | FClass c :: _ => if str_eqb (fn_name f) (K"__init__") then slashes_to_dots (c_id c) else []
               | _ => []
               end in
    do pd <- doc_param d (fn_fullname f) (ar_name a) pcq;
    Ok ({| p_id := fid ++ K"/" ++ ar_name a; p_name := ar_name a;
           p_optional := (match v with Some _ => true | None => false end) || isnone;
           p_default := dval_of_pyval v; p_assigned := kind; p_doc_type := pd_type pd; p_doc_default := pd_default pd;
           p_doc_desc := pd_desc pd; p_type := arg_type |}, tv, lg, amb)
  end.

Definition tvar_pair (t : ty) : list (str * option ty) := match t with TTypeVar n u => [(n, u)] | _ => [] end.

Definition enter_func (al : aliases) (d : docs) (pref_doc warn : bool) (st : vstate) (f : fdef) : res (vstate * W) :=
  let fid := id_from_stack st (fn_name f) in
  do pub <- is_public st (fn_name f) (fn_fullname f);
  do doc <- doc_func d (fn_fullname f);
  do env <- tenv_of al st;
  do ps <- (match fn_args f with
            | None => Ok []
            | Some args => mapM (parse_parameter env d st f fid) args
            end);
  let params0 := map (fun x => fst (fst (fst x))) ps in
  let tvs := nodup_by py_eq (flat_map (fun x => snd (fst (fst x))) ps) in
  let tvs_sorted := sort_by_key (fun t => match t with TTypeVar n _ => n | _ => [] end) tvs in
  let plog := flat_map (fun x => snd (fst x)) ps in
  let pamb := existsb snd ps in
  let rec := map (reconcile_param pref_doc warn) params0 in
  let params := map fst rec in
  let wlog := flat_map (fun x : param * bool => if snd x then [LParamMismatch fid] else []) rec in
  do rdocs <- doc_results d (fn_fullname f);
  do rc <- parse_results env f fid rdocs;
  let '(results_code, ramb) := rc in
  let '(results, nwarn) := reconcile_results pref_doc warn fid results_code rdocs in
  let rlog := repeat (LResultMismatch fid) nwarn in
  let reexp := get_reexported_by (vs_rmap st) (fn_fullname f) in
  let fn := {| f_id := fid; f_name := fn_name f; f_doc := doc; f_public := pub; f_static := fn_static f;
               f_classm := fn_class f; f_prop := fn_property f; f_rdocs := rdocs;
               f_tvars := flat_map tvar_pair tvs_sorted; f_results := results; f_reexported_by := reexp; f_params := params |} in
  Ok (push st (FFunc fn), (plog ++ wlog ++ rlog, pamb || ramb)).

Definition leave_func (st : vstate) : res vstate :=
  match vs_stack st with
  | FFunc f :: rest =>
    match rest with
    | [] => Ok (set_stack st rest)
    | parent :: r' =>
      let parent' := match parent with
                     | FModule m => FModule (mod_add_function m f)
                     | FClass c => if str_eqb (f_name f) (K"__init__") then FClass (cls_set_ctor c f) else FClass (cls_add_method c f)
                     | other => other
                     end in
      Ok {| vs_modules := vs_modules st; vs_classes := vs_classes st; vs_rmap := vs_rmap st;
            vs_functions := dict_set (f_id f) f (vs_functions st);
            vs_results := fold_left (fun acc r => dict_set (r_id r) r acc) (f_results f) (vs_results st);
            vs_params := fold_left (fun acc p => dict_set (p_id p) p acc) (f_params f) (vs_params st);
            vs_attrs := vs_attrs st; vs_enums := vs_enums st; vs_enum_insts := vs_enum_insts st;
            vs_stack := parent' :: r'; vs_modfull := vs_modfull st; vs_modname := vs_modname st |}
    end
  | _ => Err AssertionError
  end.

(* ---- enums ---- *)
Definition enter_enum (d : docs) (st : vstate) (c : cdef) : res vstate :=
  let id := id_from_stack st (cd_name c) in
  do doc <- doc_class d (cd_fullname c);
  Ok (push st (FEnum {| e_id := id; e_name := cd_name c; e_doc := doc; e_instances := [] |})).

Definition leave_enum (st : vstate) : res vstate :=
  match vs_stack st with
  | FEnum e :: rest =>
    match rest with
    | FModule m :: r' =>
      Ok {| vs_modules := vs_modules st; vs_classes := vs_classes st; vs_rmap := vs_rmap st; vs_functions := vs_functions st;
            vs_results := vs_results st; vs_params := vs_params st; vs_attrs := vs_attrs st;
            vs_enums := dict_set (e_id e) e (vs_enums st); vs_enum_insts := vs_enum_insts st;
            vs_stack := FModule (mod_add_enum m e) :: r'; vs_modfull := vs_modfull st; vs_modname := vs_modname st;
            |}
    | _ => Ok (set_stack st rest)
    end
  | _ => Err AssertionError
  end.

(* ---- assignments ---- *)
Definition expr_name (e : expr) : option str :=
  match e with
  | EName n _ _ | EMember n _ _ => Some n
  | EOther _ (Some n) => Some n
  | _ => None
  end.
Definition expr_items (e : expr) : option (list expr) :=
  match e with ETuple l | EItems _ l => Some l | _ => None end.

Definition attr_class (st : vstate) : res cls :=
  match vs_stack st with
  | FClass c :: _ => Ok c
  | FFunc _ :: FClass c :: _ => Ok c
  | _ => Err TypeError
  end.

Definition create_attribute (env : tenv) (d : docs) (st : vstate) (e : expr) (ut : option mtype) (is_static : bool)
  : res (attr * bool) :=
  match e with
  | EName name fullname node | EMember name fullname node =>
    let is_member := match e with EMember _ _ _ => true | _ => false end in
    do tn <- (match node with
              | VVar vf vt es inf _ =>
                let qname := if str_eqb fullname name || str_eqb fullname [] then vf else fullname in
                let atype : res (option mtype) :=
                  if is_member then
                    Ok (match vt with Some (MAny toa _) => if negb (any_ok toa) then None else vt | _ => vt end)
                  else if negb es then
                    match vt with
                    | Some (MInst n q args) =>
                      if str_eqb q (K"builtins.list") && negb inf then
                        match ut with
                        | Some u => match u with
                                    | MUnbound _ a | MInst _ _ a => Ok (Some (MInst n q a))
                                    | MOther _ _ (Some a) => Ok (Some (MInst n q a))
                                    | _ => Err AttributeError
                                    end
                        | None => Err AttributeError
                        end
                      else Ok vt
                    | _ => Ok vt
                    end
                  else Ok None in
                do at_ <- atype;
                match at_ with
                | None => Ok (None, qname, false)
                | Some (MAny toa _ as m) => if negb (any_ok toa) then Ok (None, qname, false)
                                            else do t <- mt2 env m ut; Ok (Some (fst t), qname, snd t)
                | Some (MCallable _ _ _) => Ok (None, qname, false)
                | Some m => do t <- mt2 env m ut; Ok (Some (fst t), qname, snd t)
                end
              | _ => match name with [] => Err AttributeError | _ => Ok (Some (TTypeVar name None), fullname, false) end
              end);
    let '(type_, qname, amb) := tn in
    do c <- attr_class st;
    do ad <- doc_attr d (slashes_to_dots (c_id c)) name;
    let id := replace_all (K"__init__/") [] (id_from_stack st name) in
    do pub <- is_public st name qname;
    Ok ({| a_id := id; a_name := name; a_public := pub; a_static := is_static; a_type := type_; a_doc_type := ad_type ad;
           a_doc_desc := ad_desc ad |}, amb)
  | _ => Err AttributeError
  end.

Definition already_defined (st : vstate) (name : str) : res bool :=
  match vs_stack st with
  | FClass c :: _ => Ok (existsb (fun a => str_eqb (a_name a) name) (c_attrs c))
  | FFunc _ :: FClass c :: _ => Ok (existsb (fun a => str_eqb (a_name a) name) (c_attrs c))
  | _ => Err TypeError
  end.

Definition parse_attributes (env : tenv) (d : docs) (st : vstate) (lv : expr) (ut : option mtype) (is_static : bool)
  : res (list attr * bool) :=
  match lv with
  | EName _ _ _ | EMember _ _ _ =>
    match expr_name lv with
    | Some n => do def <- already_defined st n;
                if def then Ok ([], false) else do a <- create_attribute env d st lv ut is_static; Ok ([fst a], snd a)
    | None => Ok ([], false)
    end
  | ETuple items =>
    fold_left (fun acc it =>
      do cur <- acc;
      match expr_name it with
      | None => Err AttributeError
      | Some n => do def <- already_defined st n;
                  if def then Ok cur else do a <- create_attribute env d st it ut is_static; Ok (fst cur ++ [fst a], snd cur || snd a)
      end) items (Ok ([], false))
  | _ => Err AssertionError
  end.

(* a name assigned more than once by one statement (a = a = 1; a, a = 1, 2) is one attribute: the first one *)
Definition add_new_attrs (cur : list aitem) (new : list attr) : list aitem :=
  fold_left (fun acc a =>
               if existsb (fun it => match it with AIAttr b => str_eqb (a_name b) (a_name a) | AIEnumInst _ _ => false end) acc
               then acc else acc ++ [AIAttr a]) new cur.

Definition enter_assign (al : aliases) (d : docs) (st : vstate) (lvs : list expr) (ut : option mtype) : res (vstate * W) :=
  do env <- tenv_of al st;
  do items <- fold_left (fun acc lv =>
      do cur <- acc;
      match vs_stack st with
      | FClass _ :: _ => do a <- parse_attributes env d st lv ut true; Ok (add_new_attrs (fst cur) (fst a), snd cur || snd a)
      | FFunc f :: gp :: _ =>
        if str_eqb (f_name f) (K"__init__") then
          match gp, lv with
          | FClass _, EName _ _ _ => Ok cur
          | FClass _, _ => do a <- parse_attributes env d st lv ut false; Ok (add_new_attrs (fst cur) (fst a), snd cur || snd a)
          | _, _ => Ok cur
          end
        else Ok cur
      | FEnum e :: _ =>
        do names <- (match expr_items lv with
                     | Some its => mapM (fun it => match expr_name it with Some n => Ok n | None => Err AttributeError end) its
                     | None => match expr_name lv with Some n => Ok [n] | None => Err AttributeError end
                     end);
        Ok (fst cur ++ map (fun n => AIEnumInst (e_id e ++ K"/" ++ n) n) names, snd cur)
      | _ => Ok cur
      end) lvs (Ok ([], false));
  Ok (push st (FAssign (fst items)), ([], snd items)).

Definition enum_add_instance (e : enum_) (id name : str) : enum_ :=
  {| e_id := e_id e; e_name := e_name e; e_doc := e_doc e; e_instances := e_instances e ++ [(id, name)] |}.

Definition leave_assign (st : vstate) : res vstate :=
  match vs_stack st with
  | FAssign items :: rest =>
    match rest with
    | [] => Ok (set_stack st rest)
    | parent :: r' =>
      match parent with
      | FFunc _ | FClass _ | FEnum _ =>
        do out <- fold_left (fun acc it =>
            do cur <- acc;
            let '(stack, attrs, insts) := cur in
            match it, stack with
            | AIAttr a, FFunc f :: FClass c :: r2 => Ok (FFunc f :: FClass (cls_add_attr c a) :: r2, dict_set (a_id a) a attrs, insts)
            | AIAttr a, FFunc f :: _ => Err TypeError
            | AIAttr a, FClass c :: r2 => Ok (FClass (cls_add_attr c a) :: r2, dict_set (a_id a) a attrs, insts)
            | AIAttr a, _ => Ok cur
            | AIEnumInst id n, FEnum e :: r2 => Ok (FEnum (enum_add_instance e id n) :: r2, attrs, dict_set id n insts)
            | AIEnumInst _ _, _ => Ok cur
            end) items (Ok (rest, vs_attrs st, vs_enum_insts st));
        let '(stack, attrs, insts) := out in
        Ok {| vs_modules := vs_modules st; vs_classes := vs_classes st; vs_rmap := vs_rmap st; vs_functions := vs_functions st;
              vs_results := vs_results st; vs_params := vs_params st; vs_attrs := attrs; vs_enums := vs_enums st;
              vs_enum_insts := insts; vs_stack := stack; vs_modfull := vs_modfull st; vs_modname := vs_modname st;
              |}
      | _ => Err AssertionError
      end
    end
  | _ => Err AssertionError
  end.

(* ======================================================================================================== *)
(* the walker                                                                                                 *)
(* ======================================================================================================== *)
Definition is_enum_def (c : cdef) : bool :=
  existsb (fun b => match be_fullname b with Some f => str_eqb f (K"enum.Enum") || str_eqb f (K"enum.IntEnum") | None => false end)
          (cd_bases c).

Definition member_name (m : cmember) : option str :=
  match m with
  | CMFunc f | CMDeco f => Some (fn_name f)
  | CMOver n _ _ _ => Some n
  | CMClass c => Some (cd_name c)
  | CMOther _ n => n
  | CMAssign _ _ => None
  end.
Definition is_placeholder (m : cmember) : bool := opt_str_eqb (member_name m) (K"__mypy-replace").

Definition module_child (m : cmember) : bool :=
  match m with CMFunc _ | CMClass _ | CMDeco _ => true | _ => false end.
(* of an enum only the assignments (its instances) are visited *)
Definition enum_child (m : cmember) : bool := match m with CMAssign _ _ => true | _ => false end.
Definition class_child (m : cmember) : bool :=
  match m with CMAssign _ _ | CMFunc _ | CMClass _ | CMDeco _ | CMOver _ _ _ _ => true | _ => false end.

Section Walk.
  Variables (al : aliases) (d : docs) (pref_doc warn : bool).

  (* a function node: enter, the assignment statements of __init__ (top level of the body only), leave *)
  Definition walk_func (st : vstate) (f : fdef) : res (vstate * W) :=
    do e1 <- enter_func al d pref_doc warn st f;
    do e2 <- (if str_eqb (fn_name f) (K"__init__") then
                fold_left (fun acc s =>
                  do cur <- acc;
                  match s with
                  | BAssign lvs ut => do s1 <- enter_assign al d (fst cur) lvs ut; do s2 <- leave_assign (fst s1); Ok (s2, wapp (snd cur) (snd s1))
                  | _ => Ok cur
                  end) (fn_body f) (Ok e1)
              else Ok e1);
    do s3 <- leave_func (fst e2);
    Ok (s3, snd e2).

  Fixpoint walk_member (st : vstate) (m : cmember) {struct m} : res (vstate * W) :=
    match m with
    | CMFunc f | CMDeco f => walk_func st f
    | CMOver _ is_prop impl item0 =>
      match impl with
      | OIFunc f => walk_func st f
      | OIOther => Ok (st, w0)
      | OINone => match is_prop, item0 with
                  | true, OTDeco f => walk_func st f
                  | _, _ => Ok (st, w0)
                  end
      end
    | CMAssign lvs ut => do s1 <- enter_assign al d st lvs ut; do s2 <- leave_assign (fst s1); Ok (s2, snd s1)
    | CMClass c =>
      let enum := is_enum_def c in
      do e1 <- (if enum then do s <- enter_enum d st c; Ok (s, w0) else enter_class al d st c);
      do e2 <- (fix go (cur : vstate * W) (ms : list cmember) : res (vstate * W) :=
                  match ms with
                  | [] => Ok cur
                  | x :: r => if (if enum then enum_child x else class_child x) && negb (is_placeholder x)
                              then do s' <- walk_member (fst cur) x; go (fst s', wapp (snd cur) (snd s')) r else go cur r
                  end) e1 (cd_defs c);
      do s3 <- (if enum then leave_enum (fst e2) else leave_class (fst e2));
      Ok (s3, snd e2)
    | CMOther _ _ => Ok (st, w0)
    end.

  Definition walk_module (st : vstate) (m : mfile) : res (vstate * W) :=
    let st1 := enter_module st m in
    do e2 <- fold_left (fun acc x =>
               do cur <- acc;
               if module_child x && negb (is_placeholder x)
               then do s' <- walk_member (fst cur) x; Ok (fst s', wapp (snd cur) (snd s')) else Ok cur) (mf_defs m) (Ok (st1, w0));
    do s3 <- leave_module (fst e2);
    Ok (s3, snd e2).
End Walk.

(* ======================================================================================================== *)
(* get_api                                                                                                    *)
(* ======================================================================================================== *)
Definition init_vstate : vstate :=
  {| vs_modules := []; vs_classes := []; vs_rmap := []; vs_functions := []; vs_results := []; vs_params := []; vs_attrs := [];
     vs_enums := []; vs_enum_insts := []; vs_stack := []; vs_modfull := []; vs_modname := [] |}.

Definition gentry_path (g : gentry) : res str :=
  match g with GMod m => Ok (mf_path m) | GExt p _ => Ok p | GNoTree _ => Err ValueError end.

(* _get_mypy_asts: packages first, then modules, each in graph order *)
Definition select_asts (graph : list gentry) (walkable packages : list str) : res (list gentry) :=
  do paths <- mapM gentry_path graph;
  let gp := combine graph paths in
  let pk := filter (fun x => ends_with t_init_file (snd x) && mem_str (init_package_path (snd x)) packages) gp in
  let md := filter (fun x => negb (ends_with t_init_file (snd x)) && mem_str (snd x) walkable) gp in
  Ok (map fst (pk ++ md)).

(* the six flat dictionaries of the API object *)
Record flat := { fl_functions : list (str * func); fl_results : list (str * result); fl_params : list (str * param);
                 fl_attrs : list (str * attr); fl_enums : list (str * enum_); fl_enum_insts : list (str * str) }.
Definition flat_keys (f : flat) : list (list str) :=
  [map fst (fl_functions f); map fst (fl_results f); map fst (fl_params f); map fst (fl_attrs f); map fst (fl_enums f);
   map fst (fl_enum_insts f)].
Record outcome := { o_api : api; o_flatd : flat; o_log : list logrec; o_amb : bool }.
Definition o_flat (o : outcome) : list (list str) := flat_keys (o_flatd o).

Definition front (v : view) : res outcome :=
  match get_api_files (v_test_run v) (v_glob v) with
  | NoFiles => Err NoFilesFound
  | Files walkable packages =>
    do trees <- select_asts (v_graph v) walkable packages;
    do al <- get_aliases (v_package v) (v_aliases v) [];
    do e <- fold_left (fun acc g =>
              do cur <- acc;
              match g with
              | GMod m => do s' <- walk_module al (v_docs v) (v_pref_doc v) (v_warn v) (fst cur) m; Ok (fst s', wapp (snd cur) (snd s'))
              | _ => Err OracleMiss
              end) trees (Ok (init_vstate, w0));
    let st := fst e in
    Ok {| o_api := {| api_package := v_package v; api_modules := map snd (vs_modules st); api_classes := vs_classes st;
                      api_reexport_map := vs_rmap st |};
          o_flatd := {| fl_functions := vs_functions st; fl_results := vs_results st; fl_params := vs_params st;
                        fl_attrs := vs_attrs st; fl_enums := vs_enums st; fl_enum_insts := vs_enum_insts st |};
          o_log := fst (snd e); o_amb := snd (snd e) |}
  end.
