(* Model of DocstringParser._griffe_annotation_to_api_type (docstring_parsing/_docstring_parser.py): a type written in a
   docstring, as griffe presents it, to an API type.  griffe's expression objects and the results of its parse_annotation are
   inputs (dumped by the harness); the traversal, the tables of canonical paths, the flattening of `a | b | c` chains and the
   treatment of strings are modelled. *)
From Coq Require Import List Ascii String Bool Arith ZArith.
From SV Require Import Lib.Str Model.Types.
Import ListNotations.

(* a tuple element is either a string or an expression with a canonical path *)
Inductive gexpr :=
| GName (cname cpath : str)                          (* ExprName, ExprAttribute *)
| GSub (cname cpath : str) (slice : gexpr)           (* ExprSubscript: canonical name and path of the subscripted name *)
| GTuple (els : list (option str * gexpr))           (* ExprTuple: per element its canonical path (None for a string) *)
| GList (els : list gexpr)                           (* ExprList *)
| GBoolOp (vals : list gexpr)                        (* ExprBoolOp.values *)
| GBinOp (l r : gexpr)                               (* ExprBinOp *)
| GStr (s : str) (parsed : gexpr)                    (* a string and what parse_annotation makes of it (default stripped) *)
| GOther.

Definition nm (n q : string) : ty := TNamed (K n) (K q).
Definition any_type : ty := nm "Any" "typing.Any".
Definition none_type : ty := nm "None" "builtins.None".

Definition strip_default (numpy : bool) (s : str) : str :=
  if numpy then hd [] (split_str (K", default") s) else s.

Definition named_path (cname cpath : str) : ty :=
  if str_eqb cpath (K"typing.Any") then any_type
  else if str_eqb cpath (K"int") then nm "int" "builtins.int"
  else if str_eqb cpath (K"bool") then nm "bool" "builtins.bool"
  else if str_eqb cpath (K"float") then nm "float" "builtins.float"
  else if str_eqb cpath (K"str") then nm "str" "builtins.str"
  else if str_eqb cpath (K"list") then TList []
  else if str_eqb cpath (K"tuple") then TTuple []
  else if str_eqb cpath (K"set") then TSet []
  else TNamed cname cpath.

Definition subscript_type (cname cpath : str) (types : list ty) : ty :=
  if mem_str cpath [K"list"; K"collections.abc.Sequence"; K"collections.abc.Iterator"] then TList types
  else if str_eqb cpath (K"tuple") then TTuple types
  else if str_eqb cpath (K"set") then TSet types
  else if mem_str cpath [K"collections.abc.Callable"; K"typing.Callable"] then
    match types with
    | [] => TUnknown                                   (* param_type = [any_type] is a list, not a type *)
    | p :: rest =>
      TCallable (match p with TList ts => ts | _ => [p] end) (match rest with r :: _ => r | [] => any_type end)
    end
  else if mem_str cpath [K"dict"; K"collections.abc.Mapping"; K"typing.Mapping"] then
    TDict (match types with k :: _ => k | [] => any_type end) (match types with _ :: v :: _ => v | _ => any_type end)
  else if str_eqb cpath (K"typing.Optional") then TUnion (types ++ [none_type])
  else TNamedSeq cname cpath types.

Definition somes {A} (l : list (option A)) : list A := flat_map (fun o => match o with Some x => [x] | None => [] end) l.

(* the right operands of a chain a | b | c (left-nested), right to left, then the leftmost operand *)
Fixpoint chain (e : gexpr) : list gexpr :=
  match e with
  | GBinOp l r => r :: chain l
  | other => [other]
  end.

Section DocType.
  Variable numpy : bool.

  Fixpoint doc_type (e : gexpr) : option ty :=
    let many := fix many (l : list gexpr) : list ty :=
      match l with [] => [] | x :: r => (match doc_type x with Some t => [t] | None => [] end) ++ many r end in
    let chain_types := fix chain_types (e : gexpr) : list ty :=
      match e with
      | GBinOp l r => (match doc_type r with Some t => [t] | None => [] end) ++ chain_types l
      | other => match doc_type other with Some t => [t] | None => [] end
      end in
    match e with
    | GName cn cp => Some (named_path cn cp)
    | GSub cn cp slice =>
      let types := match slice with
                   | GTuple els => (fix go (l : list (option str * gexpr)) : list ty :=
                                      match l with [] => [] | (_, x) :: r => (match doc_type x with Some t => [t] | None => [] end) ++ go r end) els
                   | other => match doc_type other with Some t => [t] | None => [] end
                   end in
      Some (subscript_type cn cp types)
    | GList els => Some (TList (many els))
    | GBoolOp vals => Some (TUnion (many vals))
    | GTuple els =>
      let has_optional := existsb (fun pe => match fst pe with Some p => str_eqb p (K"optional") | None => false end) els in
      let elements := (fix go (l : list (option str * gexpr)) : list ty :=
                         match l with
                         | [] => []
                         | (cp, x) :: r =>
                           (if match cp with Some p => str_eqb p (K"optional") | None => false end then []
                            else match doc_type x with Some t => [t] | None => [] end) ++ go r
                         end) els in
      if has_optional then Some (TUnion (elements ++ [none_type])) else Some (TTuple elements)
    | GStr s parsed =>
      let new := strip_default numpy s in
      match parsed with
      | GStr p _ =>
        if str_eqb p new || str_eqb p s then (if str_eqb p (K"None") then Some none_type else None)
        else doc_type parsed
      | other => doc_type other
      end
    | GBinOp l r => Some (TUnion ((match doc_type r with Some t => [t] | None => [] end) ++ chain_types l))
    | GOther => Some TUnknown
    end.
End DocType.
