(* The "view": exactly the fields of the mypy build result, and the answers of the docstring parser, that the
   analyzer (api_analyzer/_get_api.py, _ast_walker.py, _ast_visitor.py, _mypy_helpers.py) reads.  The view is dumped by
   tools/viewdump.py inside the wrapper of mypy.build.build, before the analyzer has touched any mypy object. *)
From Coq Require Import List Ascii String Bool Arith ZArith.
From SV Require Import Lib.Str Model.Types Model.Api Model.FrontSmall.
Import ListNotations.

(* ---- mypy types (mypy.types) ---- *)
Inductive mtype :=
| MInst (name fullname : str) (args : list mtype)          (* Instance: type.name, type.fullname, args *)
| MTuple (items : list mtype)                              (* TupleType *)
| MUnion (items : list mtype)                              (* UnionType *)
| MTypeVar (name : str) (ub : mtype)                       (* TypeVarType: name, upper_bound *)
| MCallable (args : list mtype) (ret : mtype) (cname : option str)
| MAny (toa : str) (missing : option str)                  (* AnyType: name of type_of_any, missing_import_name *)
| MNone                                                    (* NoneType *)
| MLit (v : lit)                                           (* LiteralType.value *)
| MUnbound (name : str) (args : list mtype)                (* UnboundType *)
| MRaw (literal_none : bool)                               (* RawExpressionType: literal_value is None *)
| MOther (cls : str) (oname : option str) (oargs : option (list mtype)).   (* any other class; its name/args attributes *)

Section MtInd.
  Variable P : mtype -> Prop.
  Hypothesis HInst : forall n q a, Forall P a -> P (MInst n q a).
  Hypothesis HTuple : forall l, Forall P l -> P (MTuple l).
  Hypothesis HUnion : forall l, Forall P l -> P (MUnion l).
  Hypothesis HTypeVar : forall n u, P u -> P (MTypeVar n u).
  Hypothesis HCallable : forall a r c, Forall P a -> P r -> P (MCallable a r c).
  Hypothesis HAny : forall t m, P (MAny t m).
  Hypothesis HNone : P MNone.
  Hypothesis HLit : forall v, P (MLit v).
  Hypothesis HUnbound : forall n a, Forall P a -> P (MUnbound n a).
  Hypothesis HRaw : forall b, P (MRaw b).
  Hypothesis HOtherN : forall c n, P (MOther c n None).
  Hypothesis HOtherS : forall c n a, Forall P a -> P (MOther c n (Some a)).
  Fixpoint mtype_ind' (m : mtype) : P m :=
    let fix all (l : list mtype) : Forall P l :=
      match l with [] => Forall_nil P | x :: r => Forall_cons x (mtype_ind' x) (all r) end in
    match m with
    | MInst n q a => HInst n q a (all a)
    | MTuple l => HTuple l (all l)
    | MUnion l => HUnion l (all l)
    | MTypeVar n u => HTypeVar n u (mtype_ind' u)
    | MCallable a r c => HCallable a r c (all a) (mtype_ind' r)
    | MAny t m' => HAny t m'
    | MNone => HNone
    | MLit v => HLit v
    | MUnbound n a => HUnbound n a (all a)
    | MRaw b => HRaw b
    | MOther c n None => HOtherN c n
    | MOther c n (Some a) => HOtherS c n a (all a)
    end.
End MtInd.

(* ---- symbol nodes and expressions (mypy.nodes) ---- *)
Inductive vnode :=
| VVar (fullname : str) (vtype : option mtype) (explicit_self inferred is_self : bool)
| VNone
| VOther (cls : str).

Inductive expr :=
| EName (name fullname : str) (node : vnode)
| EMember (name fullname : str) (node : vnode)
| EInt (z : Z) | EFloat (repr : str) | EStr (s : str)
| ETuple (items : list expr)
| EUnary (op : str) (e : expr)
| ECall
| ECond (a b : expr)
| EItems (cls : str) (items : list expr)          (* ListExpr, SetExpr: classes with an 'items' list *)
| EOther (cls : str) (ename : option str).

(* ---- statements of function bodies: what find_return_stmts_recursive and the walker look at ---- *)
Inductive bstmt :=
| BIf (bodies : list (list bstmt)) (els : option (list bstmt))
| BBlock (b : list bstmt)
| BTry (body : list bstmt) (handlers : list (list bstmt))
| BMatch (bodies : list (list bstmt))
| BLoop (body : list bstmt)                        (* WhileStmt, WithStmt, ForStmt: stmt.body.body *)
| BRet (e : option expr)
| BAssign (lvs : list expr) (ut : option mtype)
| BOther.

Record arg := { ar_name : str; ar_vtype : option mtype; ar_is_self : bool; ar_is_cls : bool; ar_annot : option mtype;
                ar_kind : argkind; ar_pos_only : bool; ar_init : option expr }.

(* node.type: None | something without ret_type | CallableType with ret_type and the unanalysed return type *)
Inductive fty := FNoRet | FRet (ret : mtype) (uret : option mtype).

Record fdef := { fn_name : str; fn_fullname : str; fn_static : bool; fn_class : bool; fn_property : bool;
                 fn_args : option (list arg); fn_type : option fty; fn_body : list bstmt }.

(* base class expressions of a ClassDef *)
Inductive tvnode := TvBad | Tv (name : str) (variance : Z) (values : list mtype) (ub : mtype).
Inductive bindex := IxTuple (items : list (option tvnode)) | IxName (n : tvnode) | IxOther.
Record bexpr := { be_fullname : option str; be_exc : bool; be_base_name : option str; be_index : bindex }.

Inductive oimpl := OINone | OIFunc (f : fdef) | OIOther.
Inductive oitem := OTNone | OTDeco (f : fdef) | OTOther.

Inductive cmember :=
| CMAssign (lvs : list expr) (ut : option mtype)
| CMFunc (f : fdef)
| CMDeco (f : fdef)
| CMOver (oname : str) (is_prop : bool) (impl : oimpl) (item0 : oitem)
| CMClass (c : cdef)
| CMOther (cls : str) (oname : option str)
with cdef := mkcdef (cd_name cd_fullname : str) (cd_bases cd_removed : list bexpr) (cd_defs : list cmember).

Definition cd_name (c : cdef) := match c with mkcdef n _ _ _ _ => n end.
Definition cd_fullname (c : cdef) := match c with mkcdef _ f _ _ _ => f end.
Definition cd_bases (c : cdef) := match c with mkcdef _ _ b _ _ => b end.
Definition cd_removed (c : cdef) := match c with mkcdef _ _ _ r _ => r end.
Definition cd_defs (c : cdef) := match c with mkcdef _ _ _ _ d => d end.

Inductive import_ :=
| Imp (ids : list (str * option str))
| ImpFrom (id : str) (names : list (str * option str))
| ImpAll (id : str)
| ImpOther.

Record mfile := { mf_path : str; mf_fullname : str; mf_name : str; mf_imports : list import_; mf_first_doc : option str;
                  mf_defs : list cmember }.

(* entries of the build graph, in iteration order *)
Inductive gentry := GMod (m : mfile) | GExt (path fullname : str) | GNoTree (key : str).

(* ---- the entries of build_result.types the alias pass looks at ---- *)
Inductive akind := AKName | AKMember | AKTypeVarExpr.
Inductive anode := ANAlias (target_fullname : str) | ANVar (fullname : str) | ANOther.
Inductive atype :=
| ATCallable (is_type_obj ret_has_type : bool) (ret_fullname : option str)
| ATInstance (fullname : str)
| ATOther.
Record aentry := { ae_kind : akind; ae_name : option str; ae_fullname : option str; ae_node : anode;
                   ae_tinfo : option (str * str); ae_tv : atype }.

(* ---- answers of the docstring parser (oracle): Ok value, or the exception it raises ---- *)
Record pdoc := { pd_type : option ty; pd_default : str; pd_desc : str }.
Record adoc := { ad_type : option ty; ad_desc : str }.
Record docs := { dc_class : list (str * res docstring);
                 dc_func : list (str * res docstring);
                 dc_param : list (str * str * str * res pdoc);       (* function qname, parameter, class qname or "" *)
                 dc_attr : list (str * str * res adoc);              (* class qname, attribute *)
                 dc_result : list (str * res (list rdoc)) }.

Record view := { v_package : str; v_test_run : bool; v_pref_doc : bool; v_warn : bool; v_glob : list str;
                 v_aliases : list aentry; v_graph : list gentry; v_docs : docs }.
