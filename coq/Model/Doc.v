(* Model of docstring_parsing/_docstring_parser.py: the griffe node lookup by qualified name and the one-entry
   docstring cache (C13). The griffe tree is an input (view). *)
From Coq Require Import List Ascii String Bool Arith.
From SV Require Import Lib.Str Model.Types.
Import ListNotations.

Inductive gkind := GModule | GClass | GFunction | GAttribute.

(* a griffe object: name, kind, docstring text (None when there is no docstring), members *)
Inductive gnode := GNode (name : str) (kind : gkind) (doc : option str) (members : list gnode).

Definition g_name (n : gnode) : str := match n with GNode x _ _ _ => x end.
Definition g_kind (n : gnode) : gkind := match n with GNode _ k _ _ => k end.
Definition g_doc (n : gnode) : option str := match n with GNode _ _ d _ => d end.
Definition g_members (n : gnode) : list gnode := match n with GNode _ _ _ m => m end.

Definition kind_eqb (a b : gkind) : bool :=
  match a, b with GModule, GModule | GClass, GClass | GFunction, GFunction | GAttribute, GAttribute => true | _, _ => false end.

Definition member_of_kind (k : gkind) (part : str) (n : gnode) : option gnode :=
  find (fun m => kind_eqb (g_kind m) k && str_eqb (g_name m) part) (g_members n).

(* one step of _get_griffe_node: Some (Some n') continue at n', Some None = "implicit constructor" (return None), None = ValueError *)
Definition lookup_step (n : gnode) (part : str) : option (option gnode) :=
  if str_eqb (g_name n) part then Some (Some n)
  else match member_of_kind GModule part n with Some m => Some (Some m) | None =>
       match member_of_kind GClass part n with Some m => Some (Some m) | None =>
       match member_of_kind GFunction part n with Some m => Some (Some m) | None =>
       match member_of_kind GAttribute part n with Some m => Some (Some m) | None =>
       if str_eqb part (K"__init__") && kind_eqb (g_kind n) GClass then Some None else None
       end end end end.

Fixpoint lookup_parts (n : gnode) (parts_ : list str) : res (option gnode) :=
  match parts_ with
  | [] => Ok (Some n)
  | p :: rest =>
    match lookup_step n p with
    | None => Err ValueError
    | Some None => Ok None
    | Some (Some n') => lookup_parts n' rest
    end
  end.

Definition get_griffe_node (root : gnode) (qname : str) : res (option gnode) := lookup_parts root (split_ch "."%char qname).

(* the docstring of a qualified name, without any cache *)
Definition lookup_doc (root : gnode) (qname : str) : res (option str) :=
  match get_griffe_node root qname with
  | Ok (Some n) => Ok (g_doc n)
  | Ok None => Ok None
  | Err e => Err e
  end.

(* __get_cached_docstring: state = (cached node name, cached docstring) *)
Definition cstate := (option str * option str)%type.
Definition init_cstate : cstate := (None, None).

Definition cached_get (root : gnode) (st : cstate) (qname : str) : res (option str * cstate) :=
  let '(cn, cd) := st in
  if negb (match cn with Some c => str_eqb c qname | None => false end) || ends_with (K"__init__") qname then
    match lookup_doc root qname with
    | Ok d => Ok (d, (Some qname, d))
    | Err e => Err e
    end
  else Ok (cd, st).

Fixpoint cached_run (root : gnode) (st : cstate) (qs : list str) : res (list (option str)) :=
  match qs with
  | [] => Ok []
  | q :: rest =>
    match cached_get root st q with
    | Err e => Err e
    | Ok (d, st') => match cached_run root st' rest with Ok ds => Ok (d :: ds) | Err e => Err e end
    end
  end.

Fixpoint uncached_run (root : gnode) (qs : list str) : res (list (option str)) :=
  match qs with
  | [] => Ok []
  | q :: rest =>
    match lookup_doc root q with
    | Err e => Err e
    | Ok d => match uncached_run root rest with Ok ds => Ok (d :: ds) | Err e => Err e end
    end
  end.
