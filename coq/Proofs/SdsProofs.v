(* C02: emitted fragments are lexically closed (comments, TODO lines, literals), so that they compose. *)
From Coq Require Import List Ascii String Bool Arith Lia.
From SV Require Import Lib.Str Gen.Tables Spec.Sds Model.Types Model.Naming Model.Api Model.Back Proofs.TypesProofs Proofs.MoreProofs.
Import ListNotations.

Lemma scan_app s a b : scan s (a ++ b) = scan (scan s a) b.
Proof. unfold scan. apply fold_left_app. Qed.

(* closed fragments compose *)
Theorem closed_app a b : closed a -> closed b -> closed (a ++ b).
Proof.
  intros Ha Hb s Hs. rewrite scan_app. destruct (Ha s Hs) as [C1 D1]. destruct (Hb _ C1) as [C2 D2].
  split; [exact C2|]. unfold same_depth in *. intuition congruence.
Qed.

Theorem closed_nil : closed [].
Proof. intros s Hs. cbn. split; [exact Hs|repeat split]. Qed.

Theorem closed_concat l : Forall closed l -> closed (List.concat l).
Proof. induction 1; cbn; [apply closed_nil|now apply closed_app]. Qed.

(* ---------- line comments: "// ..." up to the end of the line ---------- *)
Definition no_nl (s : str) : bool := forallb (fun c => negb (Ascii.eqb c nl)) s.

Lemma scan_line_body s body : s_mode s = MLine -> no_nl body = true -> scan s body = s.
Proof.
  revert s. induction body as [|c r IH]; intros s Hm Hn; [reflexivity|].
  unfold no_nl in Hn. cbn [forallb] in Hn. fold (no_nl r) in Hn. apply andb_true_iff in Hn as [Hc Hr]. apply negb_true_iff in Hc.
  cbn [scan fold_left]. fold (scan (scan_step s c) r).
  assert (E : scan_step s c = s) by (unfold scan_step; now rewrite Hm, Hc).
  rewrite E. now apply IH.
Qed.

Theorem line_comment_closed body : no_nl body = true -> closed (K"//" ++ body ++ NL).
Proof.
  intros Hn s [Hm Hmin]. destruct s as [m p b a mi e]. cbn in Hm, Hmin. subst.
  rewrite scan_app.
  set (s1 := scan {| s_mode := MCode; s_paren := p; s_brace := b; s_angle := a; s_minus := false; s_err := e |} (K"//")).
  assert (E1 : s1 = {| s_mode := MLine; s_paren := p; s_brace := b; s_angle := a; s_minus := false; s_err := e |}) by reflexivity.
  rewrite E1, scan_app. rewrite (scan_line_body _ body); [|reflexivity|exact Hn].
  unfold NL. cbn [scan fold_left]. unfold scan_step. cbn [s_mode]. rewrite Ascii.eqb_refl.
  split; [split; reflexivity|repeat split].
Qed.

(* every TODO line the generator can print is a closed line comment *)
Theorem todo_messages_have_no_newline :
  forallb (fun kv => no_nl (snd kv)) t_todo_messages && no_nl t_todo_prefix && starts_with (K"//") t_todo_prefix = true.
Proof. vm_compute. reflexivity. Qed.

(* ---------- block comments: closed when the body does not contain the terminator ---------- *)
Fixpoint no_terminator (star : bool) (body : str) : bool :=
  match body with
  | [] => true
  | c :: r => if star && is_c c "/" then false else no_terminator (is_c c "*") r
  end.

Lemma same_depth_refl s : same_depth s s.
Proof. repeat split. Qed.
Lemma same_depth_trans a b c : same_depth a b -> same_depth b c -> same_depth a c.
Proof. unfold same_depth. intuition congruence. Qed.
Lemma same_depth_with_mode m s : same_depth s (with_mode m s).
Proof. repeat split. Qed.

Definition block_mode (star : bool) : mode := if star then MBlockStar else MBlock.

Lemma scan_block_body : forall body s star,
  s_mode s = block_mode star -> no_terminator star body = true ->
  exists star', s_mode (scan s body) = block_mode star' /\ same_depth s (scan s body).
Proof.
  induction body as [|c r IH]; intros s star Hm Hn.
  - exists star. split; [exact Hm|apply same_depth_refl].
  - cbn [no_terminator] in Hn. cbn [scan fold_left]. fold (scan (scan_step s c) r).
    destruct star; cbn [block_mode] in Hm.
    + (* a star has just been read *)
      destruct (is_c c "/") eqn:E1; [discriminate|]. cbn [andb] in Hn.
      unfold scan_step. rewrite Hm, E1. destruct (is_c c "*") eqn:E2.
      * destruct (IH s true Hm Hn) as (st & H1 & H2). exists st. auto.
      * destruct (IH (with_mode MBlock s) false eq_refl Hn) as (st & H1 & H2). exists st. split; [exact H1|].
        eapply same_depth_trans; [apply same_depth_with_mode|exact H2].
    + cbn [andb] in Hn. unfold scan_step. rewrite Hm. destruct (is_c c "*") eqn:E2.
      * destruct (IH (with_mode MBlockStar s) true eq_refl Hn) as (st & H1 & H2). exists st. split; [exact H1|].
        eapply same_depth_trans; [apply same_depth_with_mode|exact H2].
      * destruct (IH s false Hm Hn) as (st & H1 & H2). exists st. auto.
Qed.

Theorem block_comment_closed body : no_terminator false body = true -> closed (K"/*" ++ body ++ K"*/").
Proof.
  intros Hn s [Hm Hmin]. rewrite scan_app.
  assert (H1 : s_mode (scan s (K"/*")) = MBlock /\ same_depth s (scan s (K"/*"))).
  { destruct s as [m p b a mi e]. cbn in Hm, Hmin. subst. cbn. split; [reflexivity|repeat split]. }
  destruct H1 as [M1 D1]. rewrite scan_app.
  destruct (scan_block_body body (scan s (K"/*")) false M1 Hn) as (st & M2 & D2).
  set (s2 := scan (scan s (K"/*")) body) in *.
  assert (H3 : clean (scan s2 (K"*/")) /\ same_depth s2 (scan s2 (K"*/"))).
  { destruct s2 as [m p b a mi e]. cbn in M2. destruct st; cbn in M2; subst; cbn; split; try (split; reflexivity); repeat split. }
  destruct H3 as [C3 D3]. split; [exact C3|].
  eapply same_depth_trans; [exact D1|]. eapply same_depth_trans; [exact D2|exact D3].
Qed.

(* ---------- string literals: closed when the content has no quote, backslash or line break ---------- *)
Definition plain_string_char (c : ascii) : bool := negb (is_c c """") && negb (is_c c "\") && negb (Ascii.eqb c nl).

Lemma scan_string_body s body : s_mode s = MStr -> forallb plain_string_char body = true -> scan s body = s.
Proof.
  revert s. induction body as [|c r IH]; intros s Hm Hn; [reflexivity|].
  cbn [forallb] in Hn. apply andb_true_iff in Hn as [Hc Hr]. unfold plain_string_char in Hc.
  apply andb_true_iff in Hc as [Hc H3]. apply andb_true_iff in Hc as [H1 H2]. apply negb_true_iff in H1, H2, H3.
  cbn [scan fold_left]. fold (scan (scan_step s c) r).
  assert (E : scan_step s c = s) by (unfold scan_step; now rewrite Hm, H1, H2, H3).
  rewrite E. now apply IH.
Qed.

Theorem string_literal_closed body : forallb plain_string_char body = true -> closed ([""""%char] ++ body ++ [""""%char]).
Proof.
  intros Hn s [Hm Hmin]. destruct s as [m p b a mi e]. cbn in Hm, Hmin. subst.
  rewrite scan_app.
  set (s1 := scan {| s_mode := MCode; s_paren := p; s_brace := b; s_angle := a; s_minus := false; s_err := e |} [""""%char]).
  assert (E1 : s1 = {| s_mode := MStr; s_paren := p; s_brace := b; s_angle := a; s_minus := false; s_err := e |}) by reflexivity.
  rewrite E1, scan_app. rewrite (scan_string_body _ body); [|reflexivity|exact Hn].
  cbn. split; [split; reflexivity|repeat split].
Qed.

(* ---------- identifiers: closed, escaped or not ---------- *)
Definition ident_char_neutral (c : ascii) : bool := is_ident_char c.

Lemma ident_char_code_step s c : is_ident_char c = true -> clean s -> clean (scan_step s c) /\ same_depth s (scan_step s c).
Proof.
  intros Hc [Hm Hmin]. destruct s as [m p b a mi e]. cbn in Hm, Hmin. subst. unfold scan_step. cbn [s_mode].
  destruct c as [[] [] [] [] [] [] [] []]; cbn in Hc; try discriminate; cbn; (split; [split; reflexivity|repeat split]).
Qed.

Theorem identifier_closed name : ascii_ident name = true -> closed name.
Proof.
  induction name as [|c r IH]; intros Hn; [apply closed_nil|].
  cbn in Hn. apply andb_true_iff in Hn as [Hc Hr].
  intros s Hs. cbn [scan fold_left]. fold (scan (scan_step s c) r).
  destruct (ident_char_code_step s c Hc Hs) as [C1 D1]. destruct (IH Hr _ C1) as [C2 D2].
  split; [exact C2|eapply same_depth_trans; eassumption].
Qed.

(* a closed fragment on its own is a lexically well-formed text *)
Theorem closed_lex_ok frag : closed frag -> lex_ok frag = true.
Proof.
  intro H. destruct (H st0 (conj eq_refl eq_refl)) as [[Hm Hmi] (Hp & Hb & Ha & He)].
  unfold lex_ok, in_code. rewrite Hm. cbn in Hp, Hb, Ha, He. rewrite <- Hp, <- Hb, <- Ha, <- He. reflexivity.
Qed.

(* back-quoted identifiers *)
Lemma scan_bq_body s body : s_mode s = MBq -> ascii_ident body = true -> scan s body = s.
Proof.
  revert s. induction body as [|c r IH]; intros s Hm Hn; [reflexivity|].
  cbn in Hn. apply andb_true_iff in Hn as [Hc Hr].
  cbn [scan fold_left]. fold (scan (scan_step s c) r).
  assert (E : scan_step s c = s).
  { unfold scan_step. rewrite Hm. destruct c as [[] [] [] [] [] [] [] []]; cbn in Hc; try discriminate; reflexivity. }
  rewrite E. now apply IH.
Qed.

Theorem escaped_identifier_closed name : ascii_ident name = true -> closed (bq :: name ++ [bq]).
Proof.
  intros Hn s [Hm Hmin]. destruct s as [m p b a mi e]. cbn in Hm, Hmin. subst.
  change (bq :: name ++ [bq]) with ([bq] ++ name ++ [bq]). rewrite scan_app.
  set (s1 := scan {| s_mode := MCode; s_paren := p; s_brace := b; s_angle := a; s_minus := false; s_err := e |} [bq]).
  assert (E1 : s1 = {| s_mode := MBq; s_paren := p; s_brace := b; s_angle := a; s_minus := false; s_err := e |}) by reflexivity.
  rewrite E1, scan_app. rewrite (scan_bq_body _ name); [|reflexivity|exact Hn].
  cbn. split; [split; reflexivity|repeat split].
Qed.

(* every name the generator prints at a declaration site is closed, keyword or not *)
Theorem emitted_name_closed name : ascii_ident name = true -> closed (escape name).
Proof.
  intro H. destruct (escape_shape name) as [E|E]; rewrite E; [now apply identifier_closed|now apply escaped_identifier_closed].
Qed.

(* ---------- the comment escape: after it no terminator is left ---------- *)
Definition star_c : ascii := "*"%char.
Definition slash_c : ascii := "/"%char.
Definition bslash_c : ascii := "\"%char.

Lemma comment_table : t_comment_escapes = [([star_c; slash_c], [star_c; bslash_c; slash_c])].
Proof. reflexivity. Qed.

Lemma escape_comment_unfold s : escape_comment_text s = replace2 star_c slash_c [star_c; bslash_c; slash_c] s.
Proof. unfold escape_comment_text. rewrite comment_table. reflexivity. Qed.

Definition head_is_slash (s : str) : bool := match s with c :: _ => is_c c "/" | [] => false end.

Lemma replace2_cons2 a b new x y r :
  replace2 a b new (x :: y :: r) = if Ascii.eqb x a && Ascii.eqb y b then new ++ replace2 a b new r else x :: replace2 a b new (y :: r).
Proof. reflexivity. Qed.

Lemma replace2_no_terminator : forall n s star, List.length s <= n -> (star = true -> head_is_slash s = false) ->
  no_terminator star (replace2 star_c slash_c [star_c; bslash_c; slash_c] s) = true.
Proof.
  induction n as [|n IH]; intros s star Hl Hh.
  - destruct s; [reflexivity|cbn in Hl; lia].
  - destruct s as [|x t]; [reflexivity|]. destruct t as [|y r].
    + cbn. destruct star; [|now destruct (is_c x "*")].
      specialize (Hh eq_refl). cbn in Hh. rewrite Hh. cbn. now destruct (is_c x "*").
    + rewrite replace2_cons2. destruct (Ascii.eqb x star_c && Ascii.eqb y slash_c) eqn:E.
      * cbn [app no_terminator]. replace (is_c star_c "/") with false by reflexivity. rewrite andb_false_r.
        replace (is_c star_c "*") with true by reflexivity. replace (is_c bslash_c "/") with false by reflexivity. cbn [andb].
        replace (is_c bslash_c "*") with false by reflexivity. cbn [andb].
        replace (is_c slash_c "*") with false by reflexivity.
        apply IH; [cbn in Hl; lia|discriminate].
      * cbn [no_terminator].
        assert (Hx : (star && is_c x "/") = false).
        { destruct star; [|reflexivity]. exact (Hh eq_refl). }
        rewrite Hx. apply IH; [cbn in Hl |- *; lia|].
        intro Hs. cbn [head_is_slash]. unfold is_c in Hs |- *. unfold star_c, slash_c in E.
        rewrite Hs in E. cbn [andb] in E. exact E.
Qed.

Theorem escaped_comment_has_no_terminator s : no_terminator false (escape_comment_text s) = true.
Proof. rewrite escape_comment_unfold. apply (replace2_no_terminator (List.length s)); [lia|discriminate]. Qed.

(* the terminator test over a concatenation *)
Fixpoint ends_star (star : bool) (s : str) : bool :=
  match s with [] => star | c :: r => ends_star (is_c c "*") r end.

Lemma no_terminator_app a : forall star b,
  no_terminator star (a ++ b) = no_terminator star a && no_terminator (ends_star star a) b.
Proof.
  induction a as [|c r IH]; intros star b; [reflexivity|].
  cbn [app no_terminator ends_star]. destruct (star && is_c c "/"); [reflexivity|]. apply IH.
Qed.

Definition spaces (s : str) : bool := forallb (fun c => Ascii.eqb c " "%char) s.

Lemma no_terminator_spaces ind : forall star, spaces ind = true -> head_is_slash ind = false /\ no_terminator star (ind ++ K" ") = true.
Proof.
  induction ind as [|c r IH]; intros star H.
  - split; [reflexivity|]. cbn. now rewrite andb_false_r.
  - cbn in H. apply andb_true_iff in H as [Hc Hr]. apply Ascii.eqb_eq in Hc. subst c.
    split; [reflexivity|]. cbn. rewrite andb_false_r. now apply (IH false).
Qed.

(* the documentation comment the generator prints around an escaped text is one closed block comment, whatever the text *)
Theorem doc_comment_closed ind text : spaces ind = true ->
  closed (K"/**" ++ NL ++ escape_comment_text text ++ ind ++ K" */").
Proof.
  intro Hs.
  replace (K"/**" ++ NL ++ escape_comment_text text ++ ind ++ K" */")
    with (K"/*" ++ (K"*" ++ NL ++ escape_comment_text text ++ ind ++ K" ") ++ K"*/").
  2:{ cbn. repeat rewrite <- app_assoc. reflexivity. }
  apply block_comment_closed.
  change (K"*" ++ NL ++ escape_comment_text text ++ ind ++ K" ") with ((K"*" ++ NL) ++ escape_comment_text text ++ ind ++ K" ").
  rewrite no_terminator_app. apply andb_true_iff. split; [reflexivity|].
  replace (ends_star false (K"*" ++ NL)) with false by reflexivity.
  rewrite no_terminator_app. apply andb_true_iff. split; [apply escaped_comment_has_no_terminator|].
  now apply no_terminator_spaces.
Qed.

(* ---------- the string escape: whatever the value, the printed literal is one closed string ---------- *)
Lemma replace1_flat_map c new s : replace1 c new s = flat_map (fun x => if Ascii.eqb x c then new else [x]) s.
Proof. induction s as [|x r IH]; [reflexivity|]. cbn. destruct (Ascii.eqb x c); cbn; now rewrite IH. Qed.

Lemma flat_map_flat_map {A B C} (f : A -> list B) (g : B -> list C) s :
  flat_map g (flat_map f s) = flat_map (fun x => flat_map g (f x)) s.
Proof. induction s as [|x r IH]; [reflexivity|]. cbn. now rewrite flat_map_app, IH. Qed.

Definition one (c : ascii) (new : str) : ascii -> str := fun x => if Ascii.eqb x c then new else [x].

(* the per-character form of the chain read from the source *)
Definition esc_char (x : ascii) : str :=
  fold_left (fun acc p => match fst p with [c] => flat_map (one c (snd p)) acc | _ => acc end) t_string_escapes [x].

Lemma string_table_single : forallb (fun p => match fst p with [_] => true | _ => false end) t_string_escapes = true.
Proof. vm_compute. reflexivity. Qed.

Lemma escape_string_flat s : escape_string_content s = flat_map esc_char s.
Proof.
  unfold escape_string_content, replace_chain, esc_char.
  change t_string_escapes with [(K"\", K"\\"); (K"""", K"\"""); ([nl], K"\n"); ([Ascii.ascii_of_nat 13], K"\r"); ([Ascii.ascii_of_nat 9], K"\t")].
  cbn [fold_left fst snd replace_pat K list_ascii_of_string].
  repeat rewrite replace1_flat_map. repeat rewrite flat_map_flat_map.
  apply flat_map_ext. intro a. cbn [flat_map]. repeat rewrite app_nil_r. unfold one.
  repeat rewrite flat_map_flat_map. reflexivity.
Qed.

Definition in_str (s : sstate) : Prop := s_mode s = MStr /\ s_minus s = false.

Lemma esc_char_stays_in_string c s : in_str s -> scan s (esc_char c) = s.
Proof.
  intros [Hm Hmi]. destruct s as [m p b a mi e]. cbn in Hm, Hmi. subst.
  destruct c as [[] [] [] [] [] [] [] []]; vm_compute; reflexivity.
Qed.

Lemma escaped_body_stays_in_string body s : in_str s -> scan s (escape_string_content body) = s.
Proof.
  intro H. rewrite escape_string_flat. induction body as [|c r IH]; [reflexivity|].
  cbn [flat_map]. rewrite scan_app, esc_char_stays_in_string by exact H. exact IH.
Qed.

Theorem escaped_string_closed body : closed (quoted (escape_string_content body)).
Proof.
  intros s [Hm Hmin]. destruct s as [m p b a mi e]. cbn in Hm, Hmin. subst.
  unfold quoted. change (""""%char :: escape_string_content body ++ [""""%char]) with ([""""%char] ++ escape_string_content body ++ [""""%char]).
  rewrite scan_app.
  set (s1 := scan {| s_mode := MCode; s_paren := p; s_brace := b; s_angle := a; s_minus := false; s_err := e |} [""""%char]).
  assert (E1 : s1 = {| s_mode := MStr; s_paren := p; s_brace := b; s_angle := a; s_minus := false; s_err := e |}) by reflexivity.
  rewrite E1, scan_app. rewrite escaped_body_stays_in_string by (split; reflexivity).
  cbn. split; [split; reflexivity|repeat split].
Qed.

(* values without quotation mark, backslash, line break or tabulator are printed as they are *)
Definition plain_value_char (c : ascii) : bool :=
  negb (is_c c """") && negb (is_c c "\") && negb (Ascii.eqb c nl) && negb (Ascii.eqb c (Ascii.ascii_of_nat 13)) && negb (Ascii.eqb c (Ascii.ascii_of_nat 9)).

Lemma esc_char_plain c : plain_value_char c = true -> esc_char c = [c].
Proof. destruct c as [[] [] [] [] [] [] [] []]; vm_compute; intro H; try reflexivity; discriminate. Qed.

Theorem escape_plain_string body : forallb plain_value_char body = true -> escape_string_content body = body.
Proof.
  rewrite escape_string_flat. induction body as [|c r IH]; [reflexivity|]. cbn [forallb flat_map]. intro H.
  apply andb_true_iff in H as [Hc Hr]. now rewrite esc_char_plain, IH.
Qed.

(* a quoted default value is printed as the escaped, re-quoted content; so it is always one closed string literal *)
Theorem requote_quoted body : requote_default (quoted body) = quoted (escape_string_content body).
Proof.
  unfold requote_default, quoted. rewrite rev_app_distr. cbn [rev app]. rewrite rev_involutive. reflexivity.
Qed.

Theorem quoted_default_closed body : closed (requote_default (quoted body)).
Proof. rewrite requote_quoted. apply escaped_string_closed. Qed.

Theorem plain_default_kept body : forallb plain_value_char body = true -> requote_default (quoted body) = quoted body.
Proof. intro H. now rewrite requote_quoted, escape_plain_string. Qed.

Theorem literal_string_closed s : closed (render_lit (LStr s)).
Proof. apply escaped_string_closed. Qed.

(* the generator applies the two escapes at as many places as the model does *)
Theorem escape_sites_as_modelled : t_comment_escape_sites = 2 /\ t_string_escape_sites = 2.
Proof. split; reflexivity. Qed.

(* ---------- identifiers are legal tokens ---------- *)
From SV Require Import Spec.Keywords Proofs.NamingProofs Proofs.DiscoverProofs.

Lemma keyword_spec_iff s : mem_str s spec_keywords = is_keyword s.
Proof.
  pose proof keyword_table_is_spec as H. apply andb_true_iff in H as [H1 H2]. rewrite forallb_forall in H1, H2.
  unfold is_keyword. destruct (mem_str s spec_keywords) eqn:E1, (mem_str s t_keywords) eqn:E2; try reflexivity.
  - apply mem_str_In in E1. apply H2 in E1. congruence.
  - apply mem_str_In in E2. apply H1 in E2. congruence.
Qed.

Theorem escaped_is_legal s : is_ident s = true -> legal_ident spec_keywords (escape s) = true.
Proof.
  intro HI. unfold escape, legal_ident. destruct (is_keyword s) eqn:EK.
  - apply orb_true_iff. right. change (bq :: s ++ [bq]) with (bq :: (s ++ [bq])). cbn [Ascii.eqb]. 
    replace (Ascii.eqb bq "`") with true by reflexivity. cbn [andb]. rewrite rev_app_distr. cbn [rev app].
    replace (Ascii.eqb bq "`") with true by reflexivity. cbn [andb]. now rewrite rev_involutive.
  - rewrite keyword_spec_iff, EK, HI. reflexivity.
Qed.

(* every name printed at a declaration site is a legal identifier token: not empty, not starting with a digit, no
   keyword outside back-quotes - with the naming conversion on or off *)
Theorem emitted_name_is_legal nc c name : is_ident name = true -> legal_ident spec_keywords (escape (convert nc c name)) = true.
Proof. intro H. apply escaped_is_legal. now apply convert_is_ident. Qed.
