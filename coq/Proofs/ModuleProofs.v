(* C03 / C04, generator side, module level: the text of a module stub is its comment, its header, its import block and then
   exactly one piece per function, per class and per enum of the module record, in order - empty for a function that is not
   public and for a class that is not public or derives from an exception, the rendering of that very declaration otherwise. *)
From Coq Require Import List Ascii String Bool Arith Lia.
From SV Require Import Lib.Str Gen.Tables Model.Types Model.Naming Model.Api Model.Back
  Proofs.TypesProofs Proofs.BackProofs.
Import ListNotations.

Lemma mmap_pieces {T U} (f : T -> M U) (l : list T) : forall s ys s',
  mmap f l s = Ok (ys, s') -> Forall2 (fun x y => exists sa sb, f x sa = Ok (y, sb)) l ys.
Proof.
  induction l as [|x r IH]; intros s ys s' H; cbn in H; minv_all; [constructor|].
  constructor; [eauto|eauto].
Qed.

Lemma Forall2_weaken {A B} (P Q : A -> B -> Prop) l l' : (forall a b, P a b -> Q a b) -> Forall2 P l l' -> Forall2 Q l l'.
Proof. intros HI H. induction H; constructor; auto. Qed.

Section WithApi.
  Variable classes : list (str * cls).
  Variable reexport_map : list (str * list rmod).
  Variable nc : bool.

  Definition wrap (x : str) : str := match x with [] => [] | _ => NL ++ x ++ NL end.

  (* the piece of one function / class of the module record *)
  Definition function_piece (rx : bool) (f : func) (t : str) : Prop :=
    if f_public f then exists sa sb x, function_string classes reexport_map nc f [] false rx sa = Ok (x, sb) /\ t = wrap x
    else t = [].
  Definition class_piece (rx : bool) (c : cls) (t : str) : Prop :=
    if c_public c && negb (c_exc c)
    then exists sa sb x, class_string classes reexport_map nc (class_fuel classes) c [] rx sa = Ok (x, sb) /\ t = wrap x
    else t = [].

  Theorem module_string_inventory m s text pkg s' :
    module_string classes reexport_map nc m s = Ok ((text, pkg), s') ->
    exists rx fs cs,
      Forall2 (function_piece rx) (m_functions m) fs /\
      Forall2 (class_piece rx) (m_classes m) cs /\
      text = (match sds_docstring_description (m_doc m) [] with [] => [] | d => d ++ NL end) ++
             module_header nc pkg ++ imports_string nc s' ++ cat fs ++ cat cs ++
             cat (map (fun e => NL ++ enum_string nc e ++ NL) (m_enums m)).
  Proof.
    unfold module_string. intro H. minv_all.
    destruct (shortest_public_reexport reexport_map (m_name m) [] true) as [[pinfo ?] tie]. minv_all.
    match goal with H : (_, _) = (_, _) |- _ => inversion H; subst; clear H end.
    exists (nonempty pinfo). do 2 eexists. refine (conj _ (conj _ eq_refl)).
    - match goal with H : mmap _ (m_functions m) _ = Ok _ |- _ => apply mmap_pieces in H end.
      eapply Forall2_weaken; [|eassumption]. intros f t (sa & sb & HF). unfold function_piece. cbn beta in HF.
      destruct (f_public f); minv_all; [|reflexivity]. eauto.
    - match goal with H : mmap _ (m_classes m) _ = Ok _ |- _ => apply mmap_pieces in H end.
      eapply Forall2_weaken; [|eassumption]. intros c t (sa & sb & HF). unfold class_piece. cbn beta in HF.
      destruct (c_public c && negb (c_exc c)); minv_all; [|reflexivity]. eauto.
  Qed.
End WithApi.
