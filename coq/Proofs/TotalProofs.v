(* C01, generator side: a type whose rendered positions hold only the kinds the analyzer produces (no EnumType / BoundaryType,
   which nothing in the tool constructs) and whose class references have a name and a qualified name is rendered to
   completion from every generator state: _create_type_string raises nothing. *)
From Coq Require Import List Ascii String Bool Arith ZArith Lia.
From SV Require Import Lib.Str Gen.Tables Model.Types Model.Naming Model.Api Model.Back Spec.Markers
  Proofs.TypesProofs Proofs.BackProofs Proofs.SortProofs Proofs.MarkerProofs.
Import ListNotations.

Fixpoint renderable (t : ty) : bool :=
  let all := fix all (l : list ty) : bool := match l with [] => true | x :: r => renderable x && all r end in
  let all_nonlit := fix all_nonlit (l : list ty) : bool :=
    match l with [] => true | x :: r => (if is_literal x then true else renderable x) && all_nonlit r end in
  match t with
  | TNamed name qname =>
    match lookup_pair name t_builtin_type_names with
    | Some _ => true
    | None => nonempty name && nonempty qname
    end
  | TFinal t' => renderable t'
  | TCallable ps r =>
    all ps &&
    match r with
    | TTuple rs => all rs
    | TNamed rn _ => if str_eqb rn (K"None") then true else renderable r
    | _ => renderable r
    end
  | TSet ts | TList ts | TNamedSeq _ _ ts => all ts
  | TUnknown | TLiteral _ | TTypeVar _ _ => true
  | TUnion ts =>
    if union_short ts then true
    else if 2 <=? List.length (filter is_literal ts) then all_nonlit ts else all ts
  | TTuple ts => all ts
  | TDict k v => renderable k && renderable v
  | TEnum _ | TBoundary _ _ _ _ _ => false
  end.

Definition total {T} (m : M T) : Prop := forall s, exists x s', m s = Ok (x, s').

Lemma total_ret {T} (x : T) : total (ret x).
Proof. intro s. eexists _, _. reflexivity. Qed.
Lemma total_bind {T U} (m : M T) (f : T -> M U) : total m -> (forall x, total (f x)) -> total (mbind m f).
Proof.
  intros Hm Hf s. destruct (Hm s) as (x & s1 & E). destruct (Hf x s1) as (y & s2 & E2).
  exists y, s2. unfold mbind. rewrite E. exact E2.
Qed.
Lemma total_modify f : total (modify f).
Proof. intro s. eexists _, _. reflexivity. Qed.
Lemma total_get : total get.
Proof. intro s. eexists _, _. reflexivity. Qed.
Lemma total_add_todo k : total (add_todo k).
Proof. apply total_modify. Qed.
Lemma total_if {T} (b : bool) (m1 m2 : M T) : total m1 -> total m2 -> total (if b then m1 else m2).
Proof. destruct b; auto. Qed.

Lemma total_mmap {T U} (f : T -> M U) (l : list T) : Forall (fun x => total (f x)) l -> total (mmap f l).
Proof.
  induction 1 as [|x r Hx _ IH]; cbn [mmap]; [apply total_ret|].
  apply total_bind; [exact Hx|]. intro y. apply total_bind; [exact IH|]. intro ys. apply total_ret.
Qed.

Section WithApi.
  Variable classes : list (str * cls).
  Variable reexport_map : list (str * list rmod).
  Variable nc : bool.

  Lemma total_add_to_imports q : nonempty q = true -> total (add_to_imports classes reexport_map q).
  Proof.
    intros NE. unfold add_to_imports. destruct q as [|c q0]; [discriminate|].
    destruct (_ || _); [apply total_ret|]. apply total_bind; [apply total_get|]. intro s0.
    destruct (contains _ _); [apply total_ret|].
    destruct (find _ classes) as [[cid ?]|].
    - destruct (shortest_public_reexport _ _ _ _) as [[sh ?] tie].
      apply total_bind; [apply total_modify|]. intros _. apply total_if; [apply total_ret|apply total_modify].
    - apply total_bind; [apply total_modify|]. intros _. apply total_if; [apply total_ret|apply total_modify].
  Qed.

  Lemma total_seq_finish name types : total (seq_finish name types).
  Proof.
    unfold seq_finish. destruct types; [apply total_ret|].
    apply total_bind; [apply total_if; [apply total_add_todo|apply total_ret]|]. intros _. apply total_ret.
  Qed.

  Notation tstring := (type_string classes reexport_map nc).

  Lemma all_forall (P : ty -> Prop) (ts : list ty) :
    Forall (fun t => renderable t = true -> P t) ts ->
    (fix all (l : list ty) : bool := match l with [] => true | x :: r => renderable x && all r end) ts = true -> Forall P ts.
  Proof.
    induction 1 as [|t r Ht _ IH]; intro H; [constructor|]. apply andb_true_iff in H. destruct H as [H1 H2].
    constructor; [exact (Ht H1)|exact (IH H2)].
  Qed.

  Theorem type_string_total_strong : forall t,
    (renderable t = true -> total (tstring t)) /\
    (forall ts, t = TTuple ts -> Forall (fun x => renderable x = true -> total (tstring x)) ts).
  Proof.
    induction t as [| n q | n q ts IH | vs | b mn mx i1 i2 | ts IH | ts IH | k v IHk IHv | ps r IHp IHr | ts IH
                   | ls | t IH | ts IH | n | n u IH] using ty_ind';
      (split; [|try (intros ? E; discriminate E)]); try (intro R; cbn [renderable type_string] in * ).
    - (* unknown *) apply total_bind; [apply total_add_todo|]. intros _. apply total_ret.
    - (* named *)
      destruct (lookup_pair n t_builtin_type_names); [apply total_ret|].
      apply andb_true_iff in R. destruct R as [R1 R2].
      apply total_bind; [apply total_add_to_imports; exact R2|]. intros _.
      destruct n as [|c n]; [discriminate|]. apply total_bind; [apply total_get|]. intro s0.
      apply total_bind; [apply total_if; [apply total_add_todo|apply total_ret]|]. intros _. apply total_ret.
    - (* named sequence *)
      apply total_bind; [|intro; apply total_seq_finish]. apply total_mmap. apply all_forall; [|exact R].
      eapply Forall_impl; [|exact IH]. cbn. tauto.
    - discriminate.
    - discriminate.
    - (* union *)
      unfold union_short in *. cbv zeta in *.
      match goal with |- context [if ?c then _ else _] => destruct c end; [apply total_ret|].
      destruct (2 <=? _).
      + apply total_bind; [|intro; apply total_ret]. apply total_bind; [|intro; apply total_ret].
        apply total_mmap. clear -IH R. induction IH as [|t r [Ht _] _ IHr]; [constructor|].
        apply andb_true_iff in R. destruct R as [R1 R2]. constructor; [|exact (IHr R2)].
        destruct (is_literal t); [apply total_ret|]. apply total_bind; [exact (Ht R1)|]. intro. apply total_ret.
      + apply total_bind; [|intro; apply total_ret]. apply total_mmap. apply all_forall; [|exact R].
        eapply Forall_impl; [|exact IH]. cbn. tauto.
    - (* list *)
      apply total_bind; [|intro; apply total_seq_finish]. apply total_mmap. apply all_forall; [|exact R].
      eapply Forall_impl; [|exact IH]. cbn. tauto.
    - (* dict *)
      apply andb_true_iff in R. destruct R as [R1 R2]. destruct IHk as [IHk _], IHv as [IHv _].
      apply total_bind; [exact (IHk R1)|]. intro. apply total_bind; [exact (IHv R2)|]. intro. apply total_ret.
    - (* callable *)
      apply andb_true_iff in R. destruct R as [R1 R2]. destruct IHr as [IHr IHrt].
      apply total_bind; [apply total_mmap; apply all_forall; [|exact R1]; eapply Forall_impl; [|exact IHp]; cbn; tauto|]. intro pstrs.
      destruct r; try (apply total_bind; [exact (IHr R2)|]; intro; apply total_ret).
      + destruct (str_eqb name (K"None")); [apply total_ret|]. apply total_bind; [exact (IHr R2)|]. intro. apply total_ret.
      + apply total_bind; [|intro; apply total_ret]. apply total_mmap. apply all_forall; [exact (IHrt _ eq_refl)|exact R2].
    - (* set *)
      apply total_bind; [apply total_mmap; apply all_forall; [|exact R]; eapply Forall_impl; [|exact IH]; cbn; tauto|]. intro.
      apply total_bind; [apply total_add_todo|]. intros _. apply total_seq_finish.
    - (* literal *) apply total_ret.
    - (* final *) destruct IH as [IH _]. exact (IH R).
    - (* tuple *)
      apply total_bind; [apply total_add_todo|]. intros _.
      apply total_bind; [apply total_mmap; apply all_forall; [|exact R]; eapply Forall_impl; [|exact IH]; cbn; tauto|]. intro. apply total_ret.
    - intro E. inversion E; subst. eapply Forall_impl; [|exact IH]. cbn. tauto.
    - (* type variable *) apply total_ret.
    - apply total_ret.
  Qed.

  Theorem type_string_total : forall t, renderable t = true -> forall s, exists x s', tstring t s = Ok (x, s').
  Proof. intros t R. exact (proj1 (type_string_total_strong t) R). Qed.

  (* ---------- parameters, results, type variables: total when their types are renderable ---------- *)
  Definition param_renderable (p : param) : bool :=
    match p_type p with
    | Some t => renderable (match p_assigned p, t with POSITIONAL_VARARG, TTuple ts => TList ts | _, _ => t end)
    | None => true
    end.
  Fixpoint results_renderable (rs : list result) : bool :=
    match rs with
    | [] => true
    | r :: rest =>
      match r_type r with
      | None => results_renderable rest
      | Some t => if is_none_result t then true else renderable t && results_renderable rest
      end
    end.
  Definition tvars_renderable (tvs : list (str * option ty)) : bool :=
    forallb (fun tv : str * option ty => match snd tv with Some ub => renderable ub | None => true end) tvs.
  Definition func_renderable (is_method : bool) (f : func) : bool :=
    forallb param_renderable (if negb (f_static f) && is_method then tl (f_params f) else f_params f) &&
    tvars_renderable (f_tvars f) && results_renderable (f_results f).

  Lemma total_render_default p : total (render_default p).
  Proof.
    unfold render_default. destruct (p_default p); try apply total_ret.
    - destruct (p_assigned p); try apply total_ret. apply total_if; apply total_ret.
    - apply total_bind; [apply total_add_todo|]. intros _. apply total_ret.
  Qed.

  Lemma total_param_fields p : param_renderable p = true -> total (param_fields classes reexport_map nc p).
  Proof.
    unfold param_renderable, param_fields. intro R.
    apply total_bind.
    - destruct (p_type p) as [t|].
      + apply total_bind; [apply total_if; [apply total_bind; [apply total_render_default|intro; apply total_ret]|apply total_ret]|]. intro.
        apply total_bind; [exact (type_string_total _ R)|]. intro. apply total_ret.
      + apply total_bind; [apply total_add_todo|]. intros _. apply total_ret.
    - intro tv. apply total_bind.
      + destruct (p_assigned p); try apply total_ret; apply total_if; try apply total_add_todo; apply total_ret.
      + intros _. apply total_bind; [apply total_if; [apply total_add_todo|apply total_ret]|]. intros _. apply total_ret.
  Qed.

  Lemma total_parameter_string (ps : list param) indent (im : bool) :
    forallb param_renderable (if im then tl ps else ps) = true -> total (parameter_string classes reexport_map nc ps indent im).
  Proof.
    intro R. unfold parameter_string. apply total_bind.
    - apply total_mmap. rewrite forallb_forall in R. apply Forall_forall. intros p Hp. unfold one_param.
      apply total_bind; [apply total_param_fields; exact (R p Hp)|]. intro. apply total_ret.
    - intro data. destruct data; apply total_ret.
  Qed.

  Lemma total_result_items rs : results_renderable rs = true -> forall acc, total (result_items classes reexport_map nc rs acc).
  Proof.
    induction rs as [|r rest IH]; intros R acc; cbn [result_items results_renderable] in *; [apply total_ret|].
    destruct (r_type r) as [t|]; [|exact (IH R acc)].
    destruct (is_none_result t); [apply total_ret|]. apply andb_true_iff in R. destruct R as [R1 R2].
    apply total_bind; [exact (type_string_total _ R1)|]. intro ts. destruct ts; apply IH; exact R2.
  Qed.

  Lemma total_result_string rs : results_renderable rs = true -> total (result_string classes reexport_map nc rs).
  Proof.
    intro R. unfold result_string. apply total_bind; [apply total_result_items; exact R|].
    intro items. destruct items as [[|a [|b l]]|]; try apply total_ret.
    apply total_bind; [apply total_add_todo|]. intros _. apply total_ret.
  Qed.

  Lemma total_type_var_info f is_method : tvars_renderable (f_tvars f) = true -> total (type_var_info classes reexport_map nc f is_method).
  Proof.
    unfold type_var_info, tvars_renderable. intro R. destruct (f_tvars f) as [|tv0 tvs0] eqn:TV; [apply total_ret|].
    rewrite <- TV in *. clear TV. apply total_bind; [apply total_get|]. intro s0.
    apply total_bind.
    - apply total_mmap. rewrite forallb_forall in R. apply Forall_forall. intros tv Htv. specialize (R tv Htv). cbn beta zeta.
      apply total_bind; [apply total_get|]. intro s1. apply total_if; [|apply total_ret].
      destruct (snd tv) as [ub|]; [|apply total_ret]. apply total_bind; [exact (type_string_total _ R)|]. intro. apply total_ret.
    - intro names. destruct (List.concat names); apply total_ret.
  Qed.

  (* ---------- the pending markers always have a message ---------- *)
  Definition known (s : gst) : Prop := Forall (fun k => In k raisable_keys) (g_todos s).
  Definition all_known (l : list str) : Prop := Forall (fun k => In k raisable_keys) l.

  Lemma ext_known s s' L : ext s s' L -> known s -> all_known L -> known s'.
  Proof.
    intros (A & _ & _) K HL. unfold known, all_known in *. rewrite Forall_forall in *. intros k Hk. apply A in Hk.
    destruct Hk as [Hk|Hk]; auto.
  Qed.

  Lemma internal_known : In INTERNAL raisable_keys.
  Proof. vm_compute. tauto. Qed.

  Lemma covers_known spec L : covers spec L -> all_known spec -> all_known L.
  Proof.
    intros [_ CO] HS. unfold all_known in *. rewrite Forall_forall in *. intros k Hk. destruct (CO k Hk) as [H | ->]; [auto|apply internal_known].
  Qed.

  Lemma all_known_app a b : all_known a -> all_known b -> all_known (a ++ b).
  Proof. intros; apply Forall_app; split; assumption. Qed.
  Lemma all_known_flat_map {X} (g : X -> list str) l : (forall x, In x l -> all_known (g x)) -> all_known (flat_map g l).
  Proof.
    induction l as [|x r IH]; intro H; cbn; [constructor|]. apply all_known_app; [apply H; left; reflexivity|apply IH; intros; apply H; right; assumption].
  Qed.

  Lemma seq_marks_known name n : all_known (seq_marks name n).
  Proof.
    unfold seq_marks. destruct (2 <=? n); cbn [andb]; [|constructor].
    destruct (mem_str name t_many_args_names) eqn:E; [|constructor]. constructor; [|constructor].
    apply mem_str_In in E. revert E. clear. generalize name. apply Forall_forall.
    assert (H : forallb (fun k => mem_str k raisable_keys) t_many_args_names = true) by (vm_compute; reflexivity).
    rewrite forallb_forall in H. apply Forall_forall. intros k Hk. apply mem_str_In. exact (H k Hk).
  Qed.

  Ltac known1 := constructor; [vm_compute; tauto|constructor].

  Lemma tmarks_known_strong : forall t, all_known (tmarks t) /\ (forall ts, t = TTuple ts -> Forall (fun x => all_known (tmarks x)) ts).
  Proof.
    induction t as [| n q | n q ts IH | vs | b mn mx i1 i2 | ts IH | ts IH | k v IHk IHv | ps r IHp IHr | ts IH
                   | ls | t IH | ts IH | n | n u IH] using ty_ind';
      (split; [|try (intros ? E; discriminate E)]); cbn [tmarks].
    - known1.
    - constructor.
    - apply all_known_app; [|apply seq_marks_known]. apply all_known_flat_map. intros x Hx. rewrite Forall_forall in IH. exact (proj1 (IH x Hx)).
    - constructor.
    - constructor.
    - destruct (union_short ts); [constructor|]. destruct (2 <=? _).
      + apply all_known_flat_map. intros x Hx. destruct (is_literal x); [constructor|]. rewrite Forall_forall in IH. exact (proj1 (IH x Hx)).
      + apply all_known_flat_map. intros x Hx. rewrite Forall_forall in IH. exact (proj1 (IH x Hx)).
    - apply all_known_app; [|apply seq_marks_known]. apply all_known_flat_map. intros x Hx. rewrite Forall_forall in IH. exact (proj1 (IH x Hx)).
    - apply all_known_app; [exact (proj1 IHk)|exact (proj1 IHv)].
    - apply all_known_app; [apply all_known_flat_map; intros x Hx; rewrite Forall_forall in IHp; exact (proj1 (IHp x Hx))|].
      destruct IHr as [IHr IHrt]. destruct r; try exact IHr.
      + destruct (str_eqb name (K"None")); [constructor|exact IHr].
      + apply all_known_flat_map. intros x Hx. specialize (IHrt _ eq_refl). rewrite Forall_forall in IHrt. exact (IHrt x Hx).
    - apply all_known_app; [apply all_known_flat_map; intros x Hx; rewrite Forall_forall in IH; exact (proj1 (IH x Hx))|].
      apply (all_known_app [_]); [known1|apply seq_marks_known].
    - constructor.
    - exact (proj1 IH).
    - constructor; [vm_compute; tauto|]. apply all_known_flat_map. intros x Hx. rewrite Forall_forall in IH. exact (proj1 (IH x Hx)).
    - intros ts0 E. inversion E; subst. eapply Forall_impl; [|exact IH]. cbn. tauto.
    - constructor.
    - constructor.
  Qed.
  Lemma tmarks_known t : all_known (tmarks t).
  Proof. exact (proj1 (tmarks_known_strong t)). Qed.

  Lemma param_marks_known p : all_known (param_marks p).
  Proof.
    unfold param_marks. apply all_known_app; [|apply all_known_app].
    - destruct (p_type p); [|known1]. apply all_known_app; [|apply tmarks_known].
      destruct (p_optional p); [|constructor]. destruct (p_default p); try apply Forall_nil. known1.
    - destruct (p_assigned p); try apply Forall_nil.
      + destruct (negb _); [known1|constructor].
      + destruct (negb _); [known1|constructor].
    - destruct (is_vararg _); [known1|constructor].
  Qed.

  Lemma result_marks_known rs : all_known (result_marks rs).
  Proof.
    induction rs as [|r rest IH]; cbn [result_marks]; [constructor|]. destruct (r_type r) as [t|]; [|exact IH].
    destruct (is_none_result t); [constructor|]. apply all_known_app; [apply tmarks_known|exact IH].
  Qed.

  Lemma func_marks_known gens is_method f : all_known (func_marks nc gens is_method f).
  Proof.
    unfold func_marks. apply all_known_app; [destruct (f_classm f); [known1|constructor]|].
    apply all_known_app; [apply all_known_flat_map; intros; apply param_marks_known|].
    apply all_known_app.
    - unfold tvar_marks. apply all_known_flat_map. intros tv _. destruct (_ || _); [|constructor]. destruct (snd tv); [apply tmarks_known|constructor].
    - unfold results_marks. apply all_known_app; [apply result_marks_known|]. destruct (result_texts nc (f_results f) []) as [[|? ?]|]; try apply Forall_nil. known1.
  Qed.

  (* ---------- a function or method written here is rendered to completion ---------- *)
  Theorem function_string_total f indent is_method rx s :
    func_renderable is_method f = true -> known s ->
    exists x s', function_string classes reexport_map nc f indent is_method rx s = Ok (x, s').
  Proof.
    unfold func_renderable. intros R KN. apply andb_true_iff in R. destruct R as [R R3]. apply andb_true_iff in R. destruct R as [R1 R2].
    destruct (if negb is_method && negb rx then shorter_reexport (f_name f) (f_reexported_by f) s else None) as [[bucket alias]|] eqn:HR.
    - unfold function_string, mbind, get. rewrite HR. destruct alias as [[|a al]|]; eexists _, _; reflexivity.
    - (* everything up to the flush is total; the pending set then holds known keys only *)
      set (pre := (if f_classm f then add_todo (K"class_method") else ret tt) ;;
                  mdo params <- parameter_string classes reexport_map nc (f_params f) indent (negb (f_static f) && is_method);
                  mdo tvi <- type_var_info classes reexport_map nc f is_method;
                  mdo rs <- result_string classes reexport_map nc (f_results f);
                  ret (params, tvi, rs)).
      assert (TP : total pre).
      { unfold pre. apply total_bind; [apply total_if; [apply total_add_todo|apply total_ret]|]. intros _.
        apply total_bind; [apply total_parameter_string; exact R1|]. intro.
        apply total_bind; [apply total_type_var_info; exact R2|]. intro.
        apply total_bind; [apply total_result_string; exact R3|]. intro. apply total_ret. }
      destruct (TP s) as ([[params tvi] rs] & s4 & EP).
      assert (K4 : known s4).
      { unfold pre in EP. minv_all.
        match goal with H : (if f_classm f then _ else _) _ = Ok _ |- _ => apply if_add_todo_ext in H end.
        match goal with H : parameter_string _ _ _ _ _ _ _ = Ok _ |- _ => apply parameter_string_marks in H; destruct H as (L1 & E1 & C1) end.
        match goal with H : type_var_info _ _ _ _ _ _ = Ok _ |- _ => apply type_var_info_marks in H; destruct H as (L2 & E2 & C2) end.
        match goal with H : result_string _ _ _ _ _ = Ok _ |- _ => apply result_string_marks in H; destruct H as (L3 & E3 & C3) end.
        match goal with H : (_, _, _) = (_, _, _) |- _ => inversion H; subst; clear H end.
        eapply ext_known; [exact E3| |eapply covers_known; [exact C3|]].
        - eapply ext_known; [exact E2| |eapply covers_known; [exact C2|]].
          + eapply ext_known; [exact E1| |eapply covers_known; [exact C1|]].
            * eapply ext_known; [eassumption|exact KN|]. destruct (f_classm f); [known1|constructor].
            * apply all_known_flat_map. intros; apply param_marks_known.
          + unfold tvar_marks. apply all_known_flat_map. intros tv _. destruct (_ || _); [|constructor]. destruct (snd tv); [apply tmarks_known|constructor].
        - unfold results_marks. apply all_known_app; [apply result_marks_known|].
          destruct (result_texts nc (f_results f) []) as [[|? ?]|]; try apply Forall_nil. known1. }
      destruct (create_todo_msg_total indent s4 K4) as (todo & s5 & ET).
      unfold pre in EP. unfold function_string. unfold mbind in *. unfold get at 1. rewrite HR.
      destruct ((if f_classm f then add_todo (K"class_method") else ret tt) s) as [[u s1]|] eqn:E1; [|discriminate].
      destruct (parameter_string classes reexport_map nc (f_params f) indent (negb (f_static f) && is_method) s1) as [[p1 s2]|] eqn:E2; [|discriminate].
      destruct (type_var_info classes reexport_map nc f is_method s2) as [[t1 s3]|] eqn:E3; [|discriminate].
      destruct (result_string classes reexport_map nc (f_results f) s3) as [[r1 s4']|] eqn:E4; [|discriminate].
      unfold ret in EP. inversion EP; subst. rewrite ET. eexists _, _. reflexivity.
  Qed.
End WithApi.
