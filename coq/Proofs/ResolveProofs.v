(* C12: every id that a record of the API object refers to resolves: the classes, functions and enums listed by a module, the
   methods, constructor, attributes and nested classes listed by a class, the results and parameters listed by a function and
   the instances listed by an enum are keys of the corresponding flat dictionary - for every view.  Carried through the walk:
   a declaration is added to its owner and to the dictionary by the same step, and dictionaries only grow. *)
From Coq Require Import List Ascii String Bool Arith Lia.
From SV Require Import Lib.Str Gen.Tables Model.Types Model.Api Model.Discover Model.FrontSmall Model.View Model.Front
     Proofs.TypesProofs Proofs.SortProofs Proofs.FrontSmallProofs Proofs.WalkProofs Proofs.JsonProofs.
Import ListNotations.

Record keys := { kC : list str; kF : list str; kR : list str; kP : list str; kA : list str; kE : list str; kI : list str }.
Definition keys_of (st : vstate) : keys :=
  {| kC := map fst (vs_classes st); kF := map fst (vs_functions st); kR := map fst (vs_results st); kP := map fst (vs_params st);
     kA := map fst (vs_attrs st); kE := map fst (vs_enums st); kI := map fst (vs_enum_insts st) |}.
Definition sub_keys (a b : keys) : Prop :=
  incl (kC a) (kC b) /\ incl (kF a) (kF b) /\ incl (kR a) (kR b) /\ incl (kP a) (kP b) /\ incl (kA a) (kA b) /\
  incl (kE a) (kE b) /\ incl (kI a) (kI b).
Lemma sub_keys_refl a : sub_keys a a.
Proof. repeat split; apply incl_refl. Qed.

Definition func_res (K : keys) (f : func) : Prop :=
  Forall (fun r => In (r_id r) (kR K)) (f_results f) /\ Forall (fun p => In (p_id p) (kP K)) (f_params f).
Definition cls_res (K : keys) (c : cls) : Prop :=
  Forall (fun m => In (f_id m) (kF K)) (c_methods c) /\
  (match c_ctor c with Some k => In (f_id k) (kF K) | None => True end) /\
  Forall (fun a => In (a_id a) (kA K)) (c_attrs c) /\
  Forall (fun x => In (c_id x) (kC K)) (c_classes c).
Definition enum_res (K : keys) (e : enum_) : Prop := Forall (fun it : str * str => In (fst it) (kI K)) (e_instances e).
Definition mod_res (K : keys) (m : module_) : Prop :=
  Forall (fun c => In (c_id c) (kC K)) (m_classes m) /\ Forall (fun f => In (f_id f) (kF K)) (m_functions m) /\
  Forall (fun e => In (e_id e) (kE K)) (m_enums m).
Definition frame_res (K : keys) (fr : frame) : Prop :=
  match fr with FModule m => mod_res K m | FClass c => cls_res K c | FEnum e => enum_res K e | _ => True end.

Definition dicts_res (K : keys) (st : vstate) : Prop :=
  Forall (frame_res K) (vs_stack st) /\
  Forall (fun kv : str * cls => cls_res K (snd kv)) (vs_classes st) /\
  Forall (fun kv : str * func => func_res K (snd kv)) (vs_functions st) /\
  Forall (fun kv : str * enum_ => enum_res K (snd kv)) (vs_enums st) /\
  Forall (fun kv : str * module_ => mod_res K (snd kv)) (vs_modules st).
Definition res_inv (st : vstate) : Prop := dicts_res (keys_of st) st.

(* ---------- monotonicity in the key sets ---------- *)
Lemma Forall_incl {X} (g : X -> str) l a b : incl a b -> Forall (fun x => In (g x) a) l -> Forall (fun x => In (g x) b) l.
Proof. intros I H. eapply Forall_impl; [|exact H]. intros x Hx. apply I. exact Hx. Qed.

Lemma func_res_mono K K' f : sub_keys K K' -> func_res K f -> func_res K' f.
Proof. intros (IC & IF & IR & IP & IA & IE & II) [A B]. split; eapply Forall_incl; eassumption. Qed.
Lemma cls_res_mono K K' c : sub_keys K K' -> cls_res K c -> cls_res K' c.
Proof.
  intros (IC & IF & IR & IP & IA & IE & II) (A & B & C & D). refine (conj _ (conj _ (conj _ _))); try (eapply Forall_incl; eassumption).
  destruct (c_ctor c); [apply IF; exact B|exact I].
Qed.
Lemma enum_res_mono K K' e : sub_keys K K' -> enum_res K e -> enum_res K' e.
Proof. intros (IC & IF & IR & IP & IA & IE & II) A. unfold enum_res. eapply Forall_incl; eassumption. Qed.
Lemma mod_res_mono K K' m : sub_keys K K' -> mod_res K m -> mod_res K' m.
Proof. intros (IC & IF & IR & IP & IA & IE & II) (A & B & C). refine (conj _ (conj _ _)); eapply Forall_incl; eassumption. Qed.
Lemma frame_res_mono K K' fr : sub_keys K K' -> frame_res K fr -> frame_res K' fr.
Proof. intros S H. destruct fr; cbn in *; auto; [eapply mod_res_mono|eapply cls_res_mono|eapply enum_res_mono]; eassumption. Qed.

Lemma dicts_res_mono K K' st : sub_keys K K' -> dicts_res K st -> dicts_res K' st.
Proof.
  intros S (A & B & C & D & E). refine (conj _ (conj _ (conj _ (conj _ _)))); (eapply Forall_impl; [|eassumption]); cbn; intros x Hx.
  - eapply frame_res_mono; eassumption.
  - eapply cls_res_mono; eassumption.
  - eapply func_res_mono; eassumption.
  - eapply enum_res_mono; eassumption.
  - eapply mod_res_mono; eassumption.
Qed.

(* ---------- keys of dict_set ---------- *)
Lemma dict_set_has {V} k (v : V) d : In k (map fst (dict_set k v d)).
Proof.
  rewrite dict_set_keys. destruct (mem_str k (map fst d)) eqn:E; [apply mem_str_In; exact E|apply in_or_app; right; left; reflexivity].
Qed.
Lemma dict_set_keeps {V} k (v : V) d : incl (map fst d) (map fst (dict_set k v d)).
Proof. rewrite dict_set_keys. destruct (mem_str k (map fst d)); [apply incl_refl|apply incl_appl, incl_refl]. Qed.

Lemma fold_dict_set_keeps {V} (id : V -> str) l : forall d, incl (map fst d) (map fst (fold_left (fun acc x => dict_set (id x) x acc) l d)).
Proof.
  induction l as [|x r IH]; intro d; cbn; [apply incl_refl|]. eapply incl_tran; [apply dict_set_keeps|apply IH].
Qed.
Lemma fold_dict_set_has {V} (id : V -> str) l : forall d,
  Forall (fun x => In (id x) (map fst (fold_left (fun acc x => dict_set (id x) x acc) l d))) l.
Proof.
  induction l as [|x r IH]; intro d; cbn; constructor.
  - apply (fold_dict_set_keeps id r). apply dict_set_has.
  - apply IH.
Qed.

Lemma Forall_dict_set {V} (Q : V -> Prop) k v (d : list (str * V)) :
  Forall (fun kv => Q (snd kv)) d -> Q v -> Forall (fun kv => Q (snd kv)) (dict_set k v d).
Proof. intros H Hv. apply dict_set_forall; [exact H|exact Hv|intros; exact Hv]. Qed.

Ltac keys_goal := unfold sub_keys, keys_of; cbn [kC kF kR kP kA kE kI vs_classes vs_functions vs_results vs_params vs_attrs vs_enums vs_enum_insts];
  repeat split; first [apply incl_refl | apply dict_set_keeps | apply (fold_dict_set_keeps r_id) | apply (fold_dict_set_keeps p_id)].

Section Inv.
  Variables (al : aliases) (d : docs) (pref_doc warn : bool).

  Lemma r_enter_func st f st' w : enter_func al d pref_doc warn st f = Ok (st', w) -> res_inv st -> res_inv st'.
  Proof.
    unfold enter_func. intros H (A & R). inv_ok.
    match goal with H : (let '(_, _) := ?X in _) = _ |- _ => destruct X as [rc ramb] end.
    match goal with H : (let '(_, _) := ?X in _) = _ |- _ => destruct X as [r n] end. inv_ok.
    split; [|exact R]. cbn. constructor; [exact I|exact A].
  Qed.

  Lemma r_enter_class st c st' w : enter_class al d st c = Ok (st', w) -> res_inv st -> res_inv st'.
  Proof.
    unfold enter_class. intros H (A & R). inv_ok. destruct (superclasses _ _) as [[sups exc] amb]. inv_ok.
    split; [|exact R]. cbn. constructor; [|exact A]. cbn. unfold cls_res. cbn. auto.
  Qed.

  Lemma r_enter_enum st c st' : enter_enum d st c = Ok st' -> res_inv st -> res_inv st'.
  Proof. unfold enter_enum. intros H (A & R). inv_ok. split; [|exact R]. cbn. constructor; [constructor|exact A]. Qed.

  Lemma r_enter_assign st l u st' w : enter_assign al d st l u = Ok (st', w) -> res_inv st -> res_inv st'.
  Proof. unfold enter_assign. intros H (A & R). inv_ok. split; [|exact R]. cbn. constructor; [exact I|exact A]. Qed.

  Lemma r_enter_module st m : res_inv st -> res_inv (enter_module st m).
  Proof.
    unfold enter_module. destruct (imports_of m). intros (A & R). split; [|exact R]. cbn. constructor; [|exact A].
    cbn. unfold mod_res. cbn. auto.
  Qed.

  Lemma r_leave_module st st' : leave_module st = Ok st' -> res_inv st -> res_inv st'.
  Proof.
    unfold leave_module. destruct (vs_stack st) as [|[m|c|f|e|i] rest] eqn:S; try discriminate.
    intros H (A & B & C & D & E). rewrite S in A. inversion A; subst. inv_ok.
    refine (conj _ (conj B (conj C (conj D _)))); cbn; [assumption|]. apply Forall_dict_set; assumption.
  Qed.

  Lemma r_leave_func st st' : leave_func st = Ok st' -> res_inv st -> res_inv st'.
  Proof.
    unfold leave_func. destruct (vs_stack st) as [|[m|c|f|e|i] rest] eqn:S; try discriminate.
    intros H R. destruct rest as [|parent r']; inv_ok.
    - destruct R as (A & R). rewrite S in A. inversion A; subst. split; [cbn; assumption|exact R].
    - set (st' := {| vs_modules := vs_modules st; vs_classes := vs_classes st; vs_rmap := vs_rmap st;
                     vs_functions := dict_set (f_id f) f (vs_functions st);
                     vs_results := fold_left (fun acc r => dict_set (r_id r) r acc) (f_results f) (vs_results st);
                     vs_params := fold_left (fun acc p => dict_set (p_id p) p acc) (f_params f) (vs_params st);
                     vs_attrs := vs_attrs st; vs_enums := vs_enums st; vs_enum_insts := vs_enum_insts st;
                     vs_stack := match parent with
                                 | FModule m => FModule (mod_add_function m f)
                                 | FClass c => if str_eqb (f_name f) (K"__init__") then FClass (cls_set_ctor c f) else FClass (cls_add_method c f)
                                 | other => other
                                 end :: r'; vs_modfull := vs_modfull st; vs_modname := vs_modname st |}).
      assert (SK : sub_keys (keys_of st) (keys_of st')) by keys_goal.
      assert (HF : In (f_id f) (kF (keys_of st'))) by (cbn; apply dict_set_has).
      assert (FR : func_res (keys_of st') f) by (split; cbn; [apply (fold_dict_set_has r_id)|apply (fold_dict_set_has p_id)]).
      apply (dicts_res_mono _ _ _ SK) in R. destruct R as (A & B & C & D & E). rewrite S in A.
      inversion A as [|x1 l1 _ A1]; subst. inversion A1 as [|x2 l2 AP AR]; subst.
      refine (conj _ (conj B (conj _ (conj D E)))); cbn [vs_stack vs_functions st'].
      + constructor; [|exact AR]. destruct parent as [m|c|f'|e|i]; cbn in *; auto.
        * destruct AP as (P1 & P2 & P3). refine (conj P1 (conj _ P3)). apply Forall_app. split; [exact P2|constructor; [exact HF|constructor]].
        * destruct AP as (P1 & P2 & P3 & P4). destruct (str_eqb _ _); cbn; unfold cls_res; cbn.
          -- refine (conj P1 (conj HF (conj P3 P4))).
          -- refine (conj _ (conj P2 (conj P3 P4))). apply Forall_app. split; [exact P1|constructor; [exact HF|constructor]].
      + apply Forall_dict_set; [exact C|exact FR].
  Qed.

  Lemma r_leave_class st st' : leave_class st = Ok st' -> res_inv st -> res_inv st'.
  Proof.
    unfold leave_class. destruct (vs_stack st) as [|[m|c|f|e|i] rest] eqn:S; try discriminate.
    intros H R.
    destruct rest as [|[m|p|f|e|i] r']; inv_ok;
      try (destruct R as (A & R); rewrite S in A; inversion A; subst; split; [cbn; assumption|exact R]).
    - set (st' := with_classes st (dict_set (c_id c) c (vs_classes st)) (FModule (mod_add_class m c) :: r')).
      assert (SK : sub_keys (keys_of st) (keys_of st')) by keys_goal.
      assert (HC : In (c_id c) (kC (keys_of st'))) by (cbn; apply dict_set_has).
      apply (dicts_res_mono _ _ _ SK) in R. destruct R as (A & B & C & D & E). rewrite S in A.
      inversion A as [|x1 l1 AC A1]; subst. inversion A1 as [|x2 l2 AP AR]; subst.
      refine (conj _ (conj _ (conj C (conj D E)))); cbn [vs_stack vs_classes st' with_classes].
      + constructor; [|exact AR]. cbn in *. destruct AP as (P1 & P2 & P3). refine (conj _ (conj P2 P3)).
        apply Forall_app. split; [exact P1|constructor; [exact HC|constructor]].
      + apply Forall_dict_set; [exact B|exact AC].
    - set (st' := with_classes st (dict_set (c_id c) c (vs_classes st)) (FClass (cls_add_class p c) :: r')).
      assert (SK : sub_keys (keys_of st) (keys_of st')) by keys_goal.
      assert (HC : In (c_id c) (kC (keys_of st'))) by (cbn; apply dict_set_has).
      apply (dicts_res_mono _ _ _ SK) in R. destruct R as (A & B & C & D & E). rewrite S in A.
      inversion A as [|x1 l1 AC A1]; subst. inversion A1 as [|x2 l2 AP AR]; subst.
      refine (conj _ (conj _ (conj C (conj D E)))); cbn [vs_stack vs_classes st' with_classes].
      + constructor; [|exact AR]. cbn in *. destruct AP as (P1 & P2 & P3 & P4). unfold cls_res. cbn. refine (conj P1 (conj P2 (conj P3 _))).
        apply Forall_app. split; [exact P4|constructor; [exact HC|constructor]].
      + apply Forall_dict_set; [exact B|exact AC].
  Qed.

  Lemma r_leave_enum st st' : leave_enum st = Ok st' -> res_inv st -> res_inv st'.
  Proof.
    unfold leave_enum. destruct (vs_stack st) as [|[m|c|f|e|i] rest] eqn:S; try discriminate.
    intros H R.
    destruct rest as [|[m|p|f|e'|i] r']; inv_ok;
      try (destruct R as (A & R); rewrite S in A; inversion A; subst; split; [cbn; assumption|exact R]).
    set (st' := {| vs_modules := vs_modules st; vs_classes := vs_classes st; vs_rmap := vs_rmap st; vs_functions := vs_functions st;
                   vs_results := vs_results st; vs_params := vs_params st; vs_attrs := vs_attrs st;
                   vs_enums := dict_set (e_id e) e (vs_enums st); vs_enum_insts := vs_enum_insts st;
                   vs_stack := FModule (mod_add_enum m e) :: r'; vs_modfull := vs_modfull st; vs_modname := vs_modname st |}).
    assert (SK : sub_keys (keys_of st) (keys_of st')) by keys_goal.
    assert (HE : In (e_id e) (kE (keys_of st'))) by (cbn; apply dict_set_has).
    apply (dicts_res_mono _ _ _ SK) in R. destruct R as (A & B & C & D & E). rewrite S in A.
    inversion A as [|x1 l1 AE A1]; subst. inversion A1 as [|x2 l2 AP AR]; subst.
    refine (conj _ (conj B (conj C (conj _ E)))); cbn [vs_stack vs_enums st'].
    - constructor; [|exact AR]. cbn in *. destruct AP as (P1 & P2 & P3). refine (conj P1 (conj P2 _)).
      apply Forall_app. split; [exact P3|constructor; [exact HE|constructor]].
    - apply Forall_dict_set; [exact D|exact AE].
  Qed.

  Definition keysAI (K0 : keys) (Ats : list (str * attr)) (Ins : list (str * str)) : keys :=
    {| kC := kC K0; kF := kF K0; kR := kR K0; kP := kP K0; kA := map fst Ats; kE := kE K0; kI := map fst Ins |}.

  Lemma keysAI_sub K0 A I A' I' : incl (map fst A) (map fst A') -> incl (map fst I) (map fst I') -> sub_keys (keysAI K0 A I) (keysAI K0 A' I').
  Proof. intros HA HI. unfold sub_keys, keysAI. cbn. repeat split; try apply incl_refl; assumption. Qed.

  Lemma sub_keys_trans a b c : sub_keys a b -> sub_keys b c -> sub_keys a c.
  Proof.
    intros (A1 & A2 & A3 & A4 & A5 & A6 & A7) (B1 & B2 & B3 & B4 & B5 & B6 & B7).
    repeat split; eapply incl_tran; eassumption.
  Qed.

  Lemma assign_fold_res K0 items : forall stack Ats Ins out,
    fold_left assign_step items (Ok (stack, Ats, Ins)) = Ok out ->
    Forall (frame_res (keysAI K0 Ats Ins)) stack ->
    Forall (frame_res (keysAI K0 (snd (fst out)) (snd out))) (fst (fst out)) /\
    sub_keys (keysAI K0 Ats Ins) (keysAI K0 (snd (fst out)) (snd out)).
  Proof.
    induction items as [|it r IH]; intros stack Ats Ins out H F; cbn [fold_left] in H.
    - inversion H; subst. cbn. split; [exact F|apply sub_keys_refl].
    - destruct (assign_step (Ok (stack, Ats, Ins)) it) as [[[stack' Ats'] Ins']|e] eqn:E; [|rewrite assign_fold_err in H; discriminate].
      assert (STEP : Forall (frame_res (keysAI K0 Ats' Ins')) stack' /\ sub_keys (keysAI K0 Ats Ins) (keysAI K0 Ats' Ins')).
      { clear H IH. unfold assign_step in E. cbn [bind] in E.
        destruct it as [a|id n]; destruct stack as [|[m|c|f|e|i] r2]; inv_ok; try (split; [exact F|apply sub_keys_refl]).
        - (* attribute on a class *)
          match goal with |- _ /\ sub_keys ?x ?y => assert (SK : sub_keys x y) by (apply keysAI_sub; [apply dict_set_keeps|apply incl_refl]) end.
          split; [|exact SK]. inversion F as [|x l FC FR]; subst. constructor.
          + apply (cls_res_mono _ _ _ SK) in FC. destruct FC as (P1 & P2 & P3 & P4). unfold frame_res, cls_res. cbn.
            refine (conj P1 (conj P2 (conj _ P4))). apply Forall_app. split; [exact P3|constructor; [apply dict_set_has|constructor]].
          + eapply Forall_impl; [|exact FR]. intros fr. apply frame_res_mono. exact SK.
        - (* attribute in __init__ *)
          destruct r2 as [|[m|c|f'|e|i] r3]; inv_ok.
          match goal with |- _ /\ sub_keys ?x ?y => assert (SK : sub_keys x y) by (apply keysAI_sub; [apply dict_set_keeps|apply incl_refl]) end.
          split; [|exact SK]. inversion F as [|x l _ F1]; subst. inversion F1 as [|x2 l2 FC FR]; subst. constructor; [exact Logic.I|]. constructor.
          + apply (cls_res_mono _ _ _ SK) in FC. destruct FC as (P1 & P2 & P3 & P4). unfold frame_res, cls_res. cbn.
            refine (conj P1 (conj P2 (conj _ P4))). apply Forall_app. split; [exact P3|constructor; [apply dict_set_has|constructor]].
          + eapply Forall_impl; [|exact FR]. intros fr. apply frame_res_mono. exact SK.
        - (* enum instance *)
          match goal with |- _ /\ sub_keys ?x ?y => assert (SK : sub_keys x y) by (apply keysAI_sub; [apply incl_refl|apply dict_set_keeps]) end.
          split; [|exact SK]. inversion F as [|x l FE FR]; subst. constructor.
          + apply (enum_res_mono _ _ _ SK) in FE. unfold frame_res, enum_res in *. cbn.
            apply Forall_app. split; [exact FE|constructor; [cbn; apply dict_set_has|constructor]].
          + eapply Forall_impl; [|exact FR]. intros fr. apply frame_res_mono. exact SK. }
      destruct STEP as [F' SK']. destruct (IH _ _ _ _ H F') as [G SKG]. split; [exact G|eapply sub_keys_trans; eassumption].
  Qed.

  Lemma r_leave_assign st st' : leave_assign st = Ok st' -> res_inv st -> res_inv st'.
  Proof.
    unfold leave_assign. destruct (vs_stack st) as [|[m|c|f|e|items] rest] eqn:S; try discriminate.
    intros H R. destruct rest as [|parent r'].
    - inv_ok. destruct R as (A & R). rewrite S in A. inversion A; subst. split; [cbn; assumption|exact R].
    - assert (G : forall X, (do out <- fold_left assign_step items (Ok (parent :: r', vs_attrs st, vs_enum_insts st));
                             let '(stack, attrs, insts) := out in X stack attrs insts) = Ok st' ->
                  exists stack attrs insts, fold_left assign_step items (Ok (parent :: r', vs_attrs st, vs_enum_insts st)) = Ok (stack, attrs, insts) /\
                                            X stack attrs insts = Ok st').
      { intros X HX. destruct (fold_left assign_step items _) as [[[stack attrs] insts]|] eqn:EF; cbn [bind] in HX; [|discriminate].
        exists stack, attrs, insts. auto. }
      destruct R as (A & B & C & D & E). rewrite S in A. inversion A as [|x1 l1 _ A1]; subst.
      assert (K0 : keysAI (keys_of st) (vs_attrs st) (vs_enum_insts st) = keys_of st) by reflexivity.
      destruct parent as [m|c|f|e|i]; try discriminate;
        (apply G in H; destruct H as (stack & attrs & insts & HF & HX); inv_ok;
         rewrite <- K0 in A1; destruct (assign_fold_res _ _ _ _ _ _ HF A1) as [FS SK]; cbn [fst snd] in FS, SK; rewrite K0 in SK;
         refine (conj FS (conj _ (conj _ (conj _ _)))); cbn [vs_classes vs_functions vs_enums vs_modules];
         (eapply Forall_impl; [|eassumption]); cbn; intros x Hx;
         first [eapply cls_res_mono; eassumption | eapply func_res_mono; eassumption | eapply enum_res_mono; eassumption | eapply mod_res_mono; eassumption]).
  Qed.

  Lemma walk_module_res st m st' w : walk_module al d pref_doc warn st m = Ok (st', w) -> res_inv st -> res_inv st'.
  Proof.
    apply (walk_module_inv al d pref_doc warn res_inv); eauto using r_enter_func, r_leave_func, r_enter_class, r_leave_class,
      r_enter_enum, r_leave_enum, r_enter_assign, r_leave_assign, r_enter_module, r_leave_module.
  Qed.
End Inv.

Lemma init_res : res_inv init_vstate.
Proof. unfold res_inv, dicts_res, init_vstate. cbn. repeat split; constructor. Qed.

(* the outcome: every id a record lists is a key of the flat dictionary of its kind *)
Definition outcome_keys (o : outcome) : keys :=
  {| kC := map fst (api_classes (o_api o)); kF := map fst (fl_functions (o_flatd o)); kR := map fst (fl_results (o_flatd o));
     kP := map fst (fl_params (o_flatd o)); kA := map fst (fl_attrs (o_flatd o)); kE := map fst (fl_enums (o_flatd o));
     kI := map fst (fl_enum_insts (o_flatd o)) |}.

Theorem front_ids_resolve v o : front v = Ok o ->
  let K := outcome_keys o in
  Forall (mod_res K) (api_modules (o_api o)) /\
  Forall (fun kv : str * cls => cls_res K (snd kv)) (api_classes (o_api o)) /\
  Forall (fun kv : str * func => func_res K (snd kv)) (fl_functions (o_flatd o)) /\
  Forall (fun kv : str * enum_ => enum_res K (snd kv)) (fl_enums (o_flatd o)).
Proof.
  unfold front. destruct (get_api_files (v_test_run v) (v_glob v)); [discriminate|].
  destruct (select_asts (v_graph v) walkable packages) as [trees|]; cbn [bind]; [|discriminate].
  destruct (get_aliases (v_package v) (v_aliases v) []) as [al|]; cbn [bind]; [|discriminate].
  match goal with |- context [fold_left ?F trees ?I] => destruct (fold_left F trees I) as [[st lg]|] eqn:EF end; cbn [bind]; [|discriminate].
  intro H. inversion H; subst; clear H.
  assert (K : res_inv st).
  { revert EF. generalize init_res. generalize init_vstate w0. induction trees as [|g r IH]; intros s0 wz K0 EF; cbn [fold_left] in EF; [inversion EF; subst; exact K0|].
    cbn [bind fst snd] in EF. destruct g as [m|pth fn|k].
    - destruct (walk_module al (v_docs v) (v_pref_doc v) (v_warn v) s0 m) as [[s1 w1]|] eqn:EW; cbn [bind fst snd] in EF.
      + eapply IH; [|exact EF]. eapply walk_module_res; eassumption.
      + exfalso. clear -EF. induction r as [|x r IHr]; cbn in EF; [discriminate|auto].
    - exfalso. clear -EF. induction r as [|x r IHr]; cbn in EF; [discriminate|auto].
    - exfalso. clear -EF. induction r as [|x r IHr]; cbn in EF; [discriminate|auto]. }
  destruct K as (_ & B & C & D & E). cbn. refine (conj _ (conj B (conj C D))).
  rewrite Forall_map. exact E.
Qed.

(* ---------- the same on the lists the JSON writer prints ---------- *)
From Coq Require Import Permutation.
From SV Require Import Model.Json.

Lemma keyed_keys_are_ids {V} (id : V -> str) (d : list (str * V)) k :
  keyed id d -> In k (map fst d) -> In k (map id (sorted_values id d)).
Proof.
  intros [KF _] H. unfold sorted_values, sort_by_key.
  assert (P : Permutation (map id (isort (fun a b => str_leb (id a) (id b)) (map snd d))) (map id (map snd d)))
    by (apply Permutation_map, isort_perm).
  eapply Permutation_in; [apply Permutation_sym; exact P|].
  clear P. induction d as [|[k' v] r IH]; cbn in *; [exact H|]. inversion KF; subst. cbn in *. destruct H as [E|H]; [left; congruence|right; auto].
Qed.

(* every id string that the JSON value lists inside a module, class, function or enum entry is the "id" of an entry of the
   top-level list of its kind (the lists are those of Model/Json.v: api_json) *)
Theorem json_ids_resolve v o : front v = Ok o ->
  let a := o_api o in let f := o_flatd o in
  let CI := map c_id (sorted_values c_id (api_classes a)) in
  let FI := map f_id (sorted_values f_id (fl_functions f)) in
  let RI := map r_id (sorted_values r_id (fl_results f)) in
  let PI := map p_id (sorted_values p_id (fl_params f)) in
  let AI := map a_id (sorted_values a_id (fl_attrs f)) in
  let EI := map e_id (sorted_values e_id (fl_enums f)) in
  let II := map fst (sort_by_key fst (fl_enum_insts f)) in
  (forall m, In m (sort_by_key m_id (api_modules a)) ->
     incl (map c_id (m_classes m)) CI /\ incl (map f_id (m_functions m)) FI /\ incl (map e_id (m_enums m)) EI) /\
  (forall c, In c (sorted_values c_id (api_classes a)) ->
     incl (map f_id (c_methods c)) FI /\ (match c_ctor c with Some k => In (f_id k) FI | None => True end) /\
     incl (map a_id (c_attrs c)) AI /\ incl (map c_id (c_classes c)) CI) /\
  (forall fn, In fn (sorted_values f_id (fl_functions f)) ->
     incl (map r_id (f_results fn)) RI /\ incl (map p_id (f_params fn)) PI) /\
  (forall e, In e (sorted_values e_id (fl_enums f)) -> incl (map fst (e_instances e)) II).
Proof.
  intro H. pose proof (front_ids_resolve _ _ H) as (RM & RC & RF & RE). pose proof (front_keyed _ _ H) as (KC & KF & KR & KP & KA & KE & KI & _).
  cbn zeta in *.
  assert (INS : forall k, In k (map fst (fl_enum_insts (o_flatd o))) -> In k (map fst (sort_by_key fst (fl_enum_insts (o_flatd o))))).
  { intros k Hk. unfold sort_by_key. eapply Permutation_in; [apply Permutation_sym, Permutation_map, isort_perm|exact Hk]. }
  assert (LIFT : forall {X} (g : X -> str) (l : list X) (K K' : list str), (forall k, In k K -> In k K') -> Forall (fun x => In (g x) K) l -> incl (map g l) K').
  { intros X g l K K' HK HF k Hk. apply in_map_iff in Hk. destruct Hk as (x & <- & Hx). apply HK. rewrite Forall_forall in HF. exact (HF x Hx). }
  refine (conj _ (conj _ (conj _ _))).
  - intros m Hm. assert (Hm' : In m (api_modules (o_api o))) by (eapply Permutation_in; [apply isort_perm|exact Hm]).
    rewrite Forall_forall in RM. destruct (RM m Hm') as (A & B & C).
    refine (conj _ (conj _ _)); (eapply LIFT; [|eassumption]); intros k Hk; apply keyed_keys_are_ids; assumption.
  - intros c Hc. assert (Hc' : In c (map snd (api_classes (o_api o)))) by (eapply Permutation_in; [apply isort_perm|exact Hc]).
    apply in_map_iff in Hc'. destruct Hc' as (kv & <- & Hkv). rewrite Forall_forall in RC. destruct (RC kv Hkv) as (A & B & C & D).
    refine (conj _ (conj _ (conj _ _))); try ((eapply LIFT; [|eassumption]); intros k Hk; apply keyed_keys_are_ids; assumption).
    destruct (c_ctor (snd kv)); [apply keyed_keys_are_ids; assumption|exact I].
  - intros fn Hf. assert (Hf' : In fn (map snd (fl_functions (o_flatd o)))) by (eapply Permutation_in; [apply isort_perm|exact Hf]).
    apply in_map_iff in Hf'. destruct Hf' as (kv & <- & Hkv). rewrite Forall_forall in RF. destruct (RF kv Hkv) as (A & B).
    split; (eapply LIFT; [|eassumption]); intros k Hk; apply keyed_keys_are_ids; assumption.
  - intros e He. assert (He' : In e (map snd (fl_enums (o_flatd o)))) by (eapply Permutation_in; [apply isort_perm|exact He]).
    apply in_map_iff in He'. destruct He' as (kv & <- & Hkv). rewrite Forall_forall in RE. specialize (RE kv Hkv).
    unfold enum_res in RE. eapply LIFT; [|exact RE]. exact INS.
Qed.
