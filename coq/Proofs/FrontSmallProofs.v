(* Proofs about Model/FrontSmall.v (C12 container and ids, C06 argument kinds, C14 reconciliation). *)
From Coq Require Import List Ascii String Bool Arith ZArith Lia Permutation Sorting.Sorted.
From SV Require Import Lib.Str Gen.Tables Model.Types Model.Api Model.FrontSmall Proofs.TypesProofs Proofs.SortProofs.
Import ListNotations.

(* ---------- C12: the id-keyed dictionaries and their serialisation ---------- *)
Lemma dict_set_keys {V} k (v : V) d :
  map fst (dict_set k v d) = if mem_str k (map fst d) then map fst d else map fst d ++ [k].
Proof.
  induction d as [|[k' v'] r IH]; cbn; [reflexivity|].
  destruct (str_eqb k k') eqn:E; cbn; [apply str_eqb_eq in E; now subst|].
  rewrite IH. destruct (mem_str k (map fst r)); reflexivity.
Qed.

Lemma dict_set_nodup {V} k (v : V) d : NoDup (map fst d) -> NoDup (map fst (dict_set k v d)).
Proof.
  intro H. rewrite dict_set_keys. destruct (mem_str k (map fst d)) eqn:E; [exact H|].
  assert (Hn : ~ In k (map fst d)) by (intro C; apply mem_str_In in C; congruence).
  clear E. induction (map fst d) as [|x r IH]; cbn; [repeat constructor; intros []|].
  inversion H; subst. constructor.
  - rewrite in_app_iff. intros [C|[C|[]]]; [contradiction|]. subst. apply Hn. now left.
  - apply IH; [assumption|]. intro C. apply Hn. now right.
Qed.

Lemma add_all_nodup {V} (ops : list (str * V)) : NoDup (map fst (add_all ops)).
Proof.
  unfold add_all. assert (H : forall d, NoDup (map fst d) -> NoDup (map fst (fold_left (fun d kv => dict_set (fst kv) (snd kv) d) ops d))).
  { induction ops as [|[k v] r IH]; intros d Hd; cbn; [exact Hd|]. apply IH. now apply dict_set_nodup. }
  apply H. constructor.
Qed.

Definition key_leb {V} (a b : str * V) : bool := str_leb (fst a) (fst b).

Theorem sorted_entries_perm {V} (d : list (str * V)) : Permutation (sorted_entries d) d.
Proof. apply isort_perm. Qed.

Theorem sorted_entries_sorted {V} (d : list (str * V)) : Sorted (fun a b => key_leb a b = true) (sorted_entries d).
Proof.
  apply (isort_sorted key_leb).
  intros a b. unfold key_leb. apply str_leb_total.
Qed.

(* each top-level list of to_dict is sorted by id and free of duplicates *)
Theorem to_dict_list_sorted_nodup {V} (ops : list (str * V)) :
  Sorted (fun a b => key_leb a b = true) (sorted_entries (add_all ops)) /\ NoDup (map fst (sorted_entries (add_all ops))).
Proof.
  split; [apply sorted_entries_sorted|].
  eapply Permutation_NoDup; [apply Permutation_map, Permutation_sym, sorted_entries_perm|apply add_all_nodup].
Qed.

(* nothing is lost: the serialised list holds exactly the entries of the dictionary *)
Theorem to_dict_list_complete {V} (d : list (str * V)) x : In x (sorted_entries d) <-> In x d.
Proof. split; apply Permutation_in; [apply sorted_entries_perm|apply Permutation_sym, sorted_entries_perm]. Qed.

(* ids are <owner id>/<name> *)
Lemma join_app_single sep (l : list str) x : l <> [] -> join sep (l ++ [x]) = join sep l ++ sep ++ x.
Proof.
  induction l as [|a r IH]; [congruence|]. intros _. destruct r as [|b r'].
  - reflexivity.
  - cbn [app join] in *. rewrite IH by discriminate. now rewrite <- !app_assoc.
Qed.

Theorem id_form stack name : stack <> [] -> create_id stack name = join (K"/") stack ++ K"/" ++ name.
Proof. intro H. unfold create_id. now apply join_app_single. Qed.

(* ---------- C06: the passing kind ---------- *)
Theorem kind_table : forall receiver pos_only k, get_argument_kind receiver pos_only k = Some (spec_kind receiver pos_only k).
Proof. intros [] [] []; vm_compute; reflexivity. Qed.

(* ---------- C14: parameters ---------- *)
Definition chosen_type (pref_doc : bool) (code doc : option ty) : option ty :=
  match code, doc with
  | Some c, Some d => if pref_doc then Some d else Some c
  | Some c, None => Some c
  | None, Some d => Some d
  | None, None => None
  end.

Theorem param_choice pref_doc warn p : p_type (fst (reconcile_param pref_doc warn p)) = chosen_type pref_doc (p_type p) (p_doc_type p).
Proof. destruct p as [id nm opt dflt asg dt dd ddesc ty_]. unfold reconcile_param, chosen_type. cbn. destruct ty_, dt, pref_doc; reflexivity. Qed.

(* the warning option never alters the result *)
Theorem param_warn_pure pref_doc w1 w2 p : fst (reconcile_param pref_doc w1 p) = fst (reconcile_param pref_doc w2 p).
Proof. reflexivity. Qed.

(* a warning is logged exactly when both types exist, differ, and warnings are on *)
Theorem param_warn_iff pref_doc warn p :
  snd (reconcile_param pref_doc warn p) = true <->
  exists c d, p_type p = Some c /\ p_doc_type p = Some d /\ py_eq c d = false /\ warn = true.
Proof.
  destruct p as [id nm opt dflt asg dt dd ddesc ty_]. unfold reconcile_param. cbn.
  destruct ty_ as [c|], dt as [d|]; split; intro H;
    try discriminate H; try (destruct H as (c' & d' & H1 & H2 & _); discriminate).
  - apply andb_true_iff in H as [H1 H2]. apply negb_true_iff in H1. exists c, d. auto.
  - destruct H as (c' & d' & H1 & H2 & H3 & H4). inversion H1; inversion H2; subst. now rewrite H3.
Qed.

(* results: the warning option never alters the result list *)
Lemma results_go_warn_pure pref_doc w1 w2 fid orig docs : forall i acc n1 n2,
  fst (reconcile_results_go pref_doc w1 fid orig docs i acc n1) = fst (reconcile_results_go pref_doc w2 fid orig docs i acc n2).
Proof. induction docs as [|d rest IH]; intros i acc n1 n2; cbn; [reflexivity|]. apply IH. Qed.

Theorem result_warn_pure pref_doc w1 w2 fid rs docs :
  fst (reconcile_results pref_doc w1 fid rs docs) = fst (reconcile_results pref_doc w2 fid rs docs).
Proof. apply results_go_warn_pure. Qed.

(* no warning without warnings enabled *)
Lemma results_go_no_warn pref_doc fid orig docs : forall i acc n, snd (reconcile_results_go pref_doc false fid orig docs i acc n) = n.
Proof.
  induction docs as [|d rest IH]; intros i acc n; cbn; [reflexivity|]. rewrite IH.
  destruct (nth_error orig i), (rd_type d); reflexivity.
Qed.
Theorem result_no_warn_when_ignored pref_doc fid rs docs : snd (reconcile_results pref_doc false fid rs docs) = 0.
Proof. apply results_go_no_warn. Qed.

(* without docstring types nothing changes under either preference *)
Lemma results_go_no_doc_types pref_doc warn fid orig docs : Forall (fun d => rd_type d = None) docs ->
  forall i acc n, reconcile_results_go pref_doc warn fid orig docs i acc n = (acc, n).
Proof.
  induction 1 as [|d rest Hd _ IH]; intros i acc n; cbn; [reflexivity|]. rewrite Hd.
  destruct (nth_error orig i); apply IH.
Qed.
Theorem result_only_hint pref_doc warn fid rs docs :
  Forall (fun d => rd_type d = None) docs -> reconcile_results pref_doc warn fid rs docs = (rs, 0).
Proof. intro H. now apply results_go_no_doc_types. Qed.

(* under the CODE preference existing results keep their hint; docstring types only complete missing results *)
Lemma results_go_code_keeps warn fid orig docs : forall i acc n,
  exists extra, fst (reconcile_results_go false warn fid orig docs i acc n) = acc ++ extra.
Proof.
  induction docs as [|d rest IH]; intros i acc n; cbn [reconcile_results_go]; [exists []; now rewrite app_nil_r|].
  destruct (rd_type d) as [dt|]; [|apply IH].
  destruct (nth_error orig i); [apply IH|].
  match goal with |- exists extra, fst (reconcile_results_go _ _ _ _ _ _ (acc ++ ?x) ?m) = _ =>
    destruct (IH (S i) (acc ++ x) m) as (extra & He); exists (x ++ extra); rewrite He, <- app_assoc; reflexivity end.
Qed.
Theorem result_code_preference_keeps_hints warn fid rs docs :
  exists extra, fst (reconcile_results false warn fid rs docs) = rs ++ extra.
Proof. apply results_go_code_keeps. Qed.

(* the result warning fires whenever both a result and a docstring type exist - also when they agree
   (recorded finding result_warn_always): a result is compared with a type *)
Example result_warn_always_refuted :
  exists fid rs docs, snd (reconcile_results false true fid rs docs) = 1 /\
    (exists r d t, rs = [r] /\ docs = [d] /\ r_type r = Some t /\ rd_type d = Some t).
Proof.
  exists (K"p/f"), [{| r_id := K"p/f/result_1"; r_name := K"result_1"; r_type := Some (TNamed (K"int") (K"builtins.int")) |}],
         [{| rd_type := Some (TNamed (K"int") (K"builtins.int")); rd_desc := []; rd_name := [] |}].
  split; [vm_compute; reflexivity|]. do 3 eexists. repeat split; reflexivity.
Qed.
