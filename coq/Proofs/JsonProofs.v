(* C12: every dictionary of the API object is keyed by the id of its values without duplicate keys, throughout the walk;
   hence every top-level list of the JSON value is sorted by id and free of duplicates. *)
From Coq Require Import List Ascii String Bool Arith ZArith Lia Permutation Sorting.Sorted.
From SV Require Import Lib.Str Gen.Tables Model.Types Model.Api Model.Discover Model.FrontSmall Model.View Model.Front Model.Json
     Proofs.TypesProofs Proofs.SortProofs Proofs.FrontSmallProofs Proofs.WalkProofs.
Import ListNotations.

Definition keyed {V} (id : V -> str) (d : list (str * V)) : Prop :=
  Forall (fun kv => fst kv = id (snd kv)) d /\ NoDup (map fst d).

Lemma keyed_nil {V} (id : V -> str) : keyed id [].
Proof. split; constructor. Qed.

Lemma dict_set_forall {V} (Q : str * V -> Prop) k v d : Forall Q d -> Q (k, v) -> (forall k', str_eqb k k' = true -> Q (k', v)) -> Forall Q (dict_set k v d).
Proof.
  intros HF HQ HK. induction d as [|[k' v'] r IH]; cbn; [constructor; auto|].
  inversion HF; subst. destruct (str_eqb k k') eqn:E; constructor; auto.
Qed.

Lemma dict_set_keyed {V} (id : V -> str) v d : keyed id d -> keyed id (dict_set (id v) v d).
Proof.
  intros [HF HN]. split; [|apply dict_set_nodup; exact HN].
  apply dict_set_forall; [exact HF|reflexivity|]. intros k' E. cbn. apply str_eqb_eq in E. symmetry. exact E.
Qed.

Lemma fold_dict_set_keyed {V} (id : V -> str) l : forall d, keyed id d -> keyed id (fold_left (fun acc x => dict_set (id x) x acc) l d).
Proof. induction l as [|x r IH]; intros d H; cbn; [exact H|]. apply IH. apply dict_set_keyed. exact H. Qed.

Definition keyed_all (st : vstate) : Prop :=
  keyed m_id (vs_modules st) /\ keyed c_id (vs_classes st) /\ keyed f_id (vs_functions st) /\ keyed r_id (vs_results st) /\
  keyed p_id (vs_params st) /\ keyed a_id (vs_attrs st) /\ keyed e_id (vs_enums st) /\ NoDup (map fst (vs_enum_insts st)).

Ltac keyed8 := unfold keyed_all; cbn [vs_modules vs_classes vs_functions vs_results vs_params vs_attrs vs_enums vs_enum_insts];
  refine (conj _ (conj _ (conj _ (conj _ (conj _ (conj _ (conj _ _)))))));
  first [assumption | apply dict_set_keyed; assumption | apply (fold_dict_set_keyed r_id); assumption
        | apply (fold_dict_set_keyed p_id); assumption | apply dict_set_nodup; assumption].

Section Keyed.
  Variables (al : aliases) (d : docs) (pref_doc warn : bool).

  Ltac same_fields := intros H K; unfold keyed_all in *; repeat match goal with H : _ /\ _ |- _ => destruct H end;
                      first [apply enter_func_pushed in H | apply enter_class_pushed in H | apply enter_enum_pushed in H | apply enter_assign_pushed in H].

  Lemma k_enter_func st f st' w : enter_func al d pref_doc warn st f = Ok (st', w) -> keyed_all st -> keyed_all st'.
  Proof.
    unfold enter_func. intro H. inv_ok.
    match goal with H : (let '(_, _) := ?X in _) = _ |- _ => destruct X as [rc ramb] end.
    match goal with H : (let '(_, _) := ?X in _) = _ |- _ => destruct X as [r n] end. inv_ok. exact (fun K => K).
  Qed.
  Lemma k_enter_class st c st' w : enter_class al d st c = Ok (st', w) -> keyed_all st -> keyed_all st'.
  Proof. unfold enter_class. intro H. inv_ok. destruct (superclasses _ _) as [[sups exc] amb]. inv_ok. exact (fun K => K). Qed.
  Lemma k_enter_enum st c st' : enter_enum d st c = Ok st' -> keyed_all st -> keyed_all st'.
  Proof. unfold enter_enum. intro H. inv_ok. exact (fun K => K). Qed.
  Lemma k_enter_assign st l u st' w : enter_assign al d st l u = Ok (st', w) -> keyed_all st -> keyed_all st'.
  Proof. unfold enter_assign. intro H. inv_ok. exact (fun K => K). Qed.

  Lemma k_leave_func st st' : leave_func st = Ok st' -> keyed_all st -> keyed_all st'.
  Proof.
    unfold leave_func. destruct (vs_stack st) as [|[m|c|f|e|i] rest]; try discriminate.
    destruct rest as [|parent r']; intros H [K1 [K2 [K3 [K4 [K5 [K6 [K7 K8]]]]]]]; inv_ok; keyed8.
  Qed.

  Lemma k_leave_class st st' : leave_class st = Ok st' -> keyed_all st -> keyed_all st'.
  Proof.
    unfold leave_class. destruct (vs_stack st) as [|[m|c|f|e|i] rest]; try discriminate.
    destruct rest as [|[m|p|f|e|i] r']; intros H [K1 [K2 [K3 [K4 [K5 [K6 [K7 K8]]]]]]]; inv_ok; keyed8.
  Qed.

  Lemma k_leave_enum st st' : leave_enum st = Ok st' -> keyed_all st -> keyed_all st'.
  Proof.
    unfold leave_enum. destruct (vs_stack st) as [|[m|c|f|e|i] rest]; try discriminate.
    destruct rest as [|[m|p|f|e'|i] r']; intros H [K1 [K2 [K3 [K4 [K5 [K6 [K7 K8]]]]]]]; inv_ok; keyed8.
  Qed.

  Lemma assign_fold_keyed items : forall stack A I out,
    fold_left assign_step items (Ok (stack, A, I)) = Ok out -> keyed a_id A -> NoDup (map fst I) ->
    keyed a_id (snd (fst out)) /\ NoDup (map fst (snd out)).
  Proof.
    induction items as [|it r IH]; intros stack A I out H KA KI; cbn [fold_left] in H; [inversion H; subst; auto|].
    destruct (assign_step (Ok (stack, A, I)) it) as [[[stack' A'] I']|e] eqn:E; [|rewrite assign_fold_err in H; discriminate].
    eapply IH; [exact H| |]; unfold assign_step in E; cbn [bind] in E;
      destruct it as [a|id n]; destruct stack as [|[m|c|f|e|i] r2]; inv_ok; try assumption;
      try (apply dict_set_keyed; assumption); try (apply dict_set_nodup; assumption);
      destruct r2 as [|[m|c|f'|e|i] r3]; inv_ok; try assumption; try (apply dict_set_keyed; assumption).
  Qed.

  Lemma k_leave_assign st st' : leave_assign st = Ok st' -> keyed_all st -> keyed_all st'.
  Proof.
    unfold leave_assign. destruct (vs_stack st) as [|[m|c|f|e|items] rest]; try discriminate.
    destruct rest as [|parent r']; intros H K; [inv_ok; exact K|].
    destruct K as [K1 [K2 [K3 [K4 [K5 [K6 [K7 K8]]]]]]].
    assert (G : forall X, (do out <- fold_left assign_step items (Ok (parent :: r', vs_attrs st, vs_enum_insts st));
                           let '(stack, attrs, insts) := out in X stack attrs insts) = Ok st' ->
                exists stack attrs insts, keyed a_id attrs /\ NoDup (map fst insts) /\ X stack attrs insts = Ok st').
    { intros X HX. destruct (fold_left assign_step items _) as [[[stack attrs] insts]|] eqn:EF; cbn [bind] in HX; [|discriminate].
      exists stack, attrs, insts. destruct (assign_fold_keyed _ _ _ _ _ EF K6 K8) as [A B]. auto. }
    destruct parent as [m|c|f|e|i]; try discriminate;
      (apply G in H; destruct H as [stack [attrs [insts [HA [HI HX]]]]]; inv_ok; keyed8).
  Qed.

  Lemma k_enter_module st m : keyed_all st -> keyed_all (enter_module st m).
  Proof. unfold enter_module. destruct (imports_of m). exact (fun K => K). Qed.
  Lemma k_leave_module st st' : leave_module st = Ok st' -> keyed_all st -> keyed_all st'.
  Proof.
    unfold leave_module. destruct (vs_stack st) as [|[m|c|f|e|i] rest]; try discriminate.
    intros H [K1 [K2 [K3 [K4 [K5 [K6 [K7 K8]]]]]]]. inv_ok. keyed8.
  Qed.

  Lemma walk_module_keyed st m st' w : walk_module al d pref_doc warn st m = Ok (st', w) -> keyed_all st -> keyed_all st'.
  Proof.
    apply (walk_module_inv al d pref_doc warn keyed_all); eauto using k_enter_func, k_leave_func, k_enter_class, k_leave_class,
      k_enter_enum, k_leave_enum, k_enter_assign, k_leave_assign, k_enter_module, k_leave_module.
  Qed.
End Keyed.

Lemma init_keyed : keyed_all init_vstate.
Proof. unfold keyed_all, init_vstate. cbn. refine (conj _ (conj _ (conj _ (conj _ (conj _ (conj _ (conj _ _))))))); try apply keyed_nil; constructor. Qed.

(* the dictionaries of the outcome *)
Definition outcome_keyed (o : outcome) : Prop :=
  keyed c_id (api_classes (o_api o)) /\ keyed f_id (fl_functions (o_flatd o)) /\ keyed r_id (fl_results (o_flatd o)) /\
  keyed p_id (fl_params (o_flatd o)) /\ keyed a_id (fl_attrs (o_flatd o)) /\ keyed e_id (fl_enums (o_flatd o)) /\
  NoDup (map fst (fl_enum_insts (o_flatd o))) /\ NoDup (map m_id (api_modules (o_api o))).

Theorem front_keyed v o : front v = Ok o -> outcome_keyed o.
Proof.
  unfold front. destruct (get_api_files (v_test_run v) (v_glob v)); [discriminate|].
  destruct (select_asts (v_graph v) walkable packages) as [trees|]; cbn [bind]; [|discriminate].
  destruct (get_aliases (v_package v) (v_aliases v) []) as [al|]; cbn [bind]; [|discriminate].
  match goal with |- context [fold_left ?F trees ?I] => destruct (fold_left F trees I) as [[st lg]|] eqn:EF end; cbn [bind]; [|discriminate].
  intro H. inversion H; subst; clear H.
  assert (K : keyed_all st).
  { revert EF. generalize init_keyed. generalize init_vstate w0. induction trees as [|g r IH]; intros s0 wz K0 EF; cbn [fold_left] in EF; [inversion EF; subst; exact K0|].
    cbn [bind fst snd] in EF. destruct g as [m|pth fn|k].
    - destruct (walk_module al (v_docs v) (v_pref_doc v) (v_warn v) s0 m) as [[s1 w1]|] eqn:EW; cbn [bind fst snd] in EF.
      + eapply IH; [|exact EF]. eapply walk_module_keyed; eassumption.
      + exfalso. clear -EF. induction r as [|x r IHr]; cbn in EF; [discriminate|auto].
    - exfalso. clear -EF. induction r as [|x r IHr]; cbn in EF; [discriminate|auto].
    - exfalso. clear -EF. induction r as [|x r IHr]; cbn in EF; [discriminate|auto]. }
  destruct K as [K1 [K2 [K3 [K4 [K5 [K6 [K7 K8]]]]]]]. unfold outcome_keyed. cbn.
  refine (conj K2 (conj K3 (conj K4 (conj K5 (conj K6 (conj K7 (conj K8 _))))))).
  destruct K1 as [KF KN]. clear -KF KN. induction (vs_modules st) as [|[k m] r IH]; cbn in *; [constructor|].
  inversion KF; subst. inversion KN; subst. cbn in *. constructor; [|apply IH; assumption].
  intro C. apply H3. apply in_map_iff in C. destruct C as [m' [E1 E2]]. apply in_map_iff in E2. destruct E2 as [[k' m''] [E3 E4]]. cbn in E3. subst m''.
  apply in_map_iff. exists (k', m'). split; [|exact E4]. cbn. rewrite Forall_forall in H2. specialize (H2 _ E4). cbn in H2. congruence.
Qed.

(* sorting the values of a keyed dictionary by their id gives a list sorted by id whose ids are pairwise different *)
Lemma sorted_values_spec {V} (id : V -> str) (d : list (str * V)) : keyed id d ->
  Sorted (fun a b => str_leb (id a) (id b) = true) (sorted_values id d) /\ NoDup (map id (sorted_values id d)) /\
  (forall x, In x (sorted_values id d) <-> In x (map snd d)).
Proof.
  intros [KF KN]. unfold sorted_values, sort_by_key. split; [|split].
  - apply (isort_sorted (fun a b => str_leb (id a) (id b))). intros a b. apply str_leb_total.
  - eapply Permutation_NoDup; [apply Permutation_map, Permutation_sym, isort_perm|].
    assert (E : map id (map snd d) = map fst d).
    { clear KN. induction d as [|[k v] r IH]; cbn; [reflexivity|]. inversion KF; subst. cbn in *. rewrite IH by assumption. congruence. }
    rewrite E. exact KN.
  - intro x. split; apply Permutation_in; [apply isort_perm|apply Permutation_sym, isort_perm].
Qed.

Definition sorted_nodup {V} (id : V -> str) (l : list V) : Prop :=
  Sorted (fun a b => str_leb (id a) (id b) = true) l /\ NoDup (map id l).

Lemma sort_by_key_sorted_nodup {V} (id : V -> str) (l : list V) : NoDup (map id l) -> sorted_nodup id (sort_by_key id l).
Proof.
  intro N. split.
  - apply (isort_sorted (fun a b => str_leb (id a) (id b))). intros a b. apply str_leb_total.
  - eapply Permutation_NoDup; [apply Permutation_map, Permutation_sym, isort_perm|exact N].
Qed.

(* the eight top-level lists of the JSON value of any run of the analyzer *)
Theorem front_json_lists_sorted v o : front v = Ok o ->
  sorted_nodup m_id (sort_by_key m_id (api_modules (o_api o))) /\
  sorted_nodup c_id (sorted_values c_id (api_classes (o_api o))) /\
  sorted_nodup f_id (sorted_values f_id (fl_functions (o_flatd o))) /\
  sorted_nodup r_id (sorted_values r_id (fl_results (o_flatd o))) /\
  sorted_nodup e_id (sorted_values e_id (fl_enums (o_flatd o))) /\
  sorted_nodup fst (sort_by_key fst (fl_enum_insts (o_flatd o))) /\
  sorted_nodup a_id (sorted_values a_id (fl_attrs (o_flatd o))) /\
  sorted_nodup p_id (sorted_values p_id (fl_params (o_flatd o))).
Proof.
  intro H. destruct (front_keyed v o H) as [KC [KF [KR [KP [KA [KE [KI KM]]]]]]].
  assert (SV : forall V (id : V -> str) dct, keyed id dct -> sorted_nodup id (sorted_values id dct)).
  { intros V id dct K. destruct (sorted_values_spec id dct K) as [S [N _]]. split; assumption. }
  refine (conj _ (conj (SV _ _ _ KC) (conj (SV _ _ _ KF) (conj (SV _ _ _ KR) (conj (SV _ _ _ KE) (conj _ (conj (SV _ _ _ KA) (SV _ _ _ KP)))))))).
  - apply sort_by_key_sorted_nodup. exact KM.
  - apply sort_by_key_sorted_nodup. exact KI.
Qed.
