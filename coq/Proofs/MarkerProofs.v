(* C20: the pending-marker set after rendering a type / parameter / result list / function is the set before plus exactly
   the markers of Spec/Markers.v (plus possibly "internal class as type", which depends on the imports made so far). *)
From Coq Require Import List Ascii String Bool Arith ZArith Lia Permutation.
From SV Require Import Lib.Str Gen.Tables Model.Types Model.Naming Model.Api Model.Back Spec.Markers
  Proofs.TypesProofs Proofs.BackProofs Proofs.SortProofs.
Import ListNotations.

(* ---------- the relation between two generator states: [L] was raised in between ---------- *)
Definition ext (s s' : gst) (L : list str) : Prop :=
  (forall k, In k (g_todos s') <-> In k (g_todos s) \/ In k L) /\
  (NoDup (g_todos s) -> NoDup (g_todos s')) /\
  g_class_generics s' = g_class_generics s.

(* what was raised is what the specification lists, plus possibly INTERNAL *)
Definition covers (spec L : list str) : Prop :=
  incl spec L /\ forall k, In k L -> In k spec \/ k = INTERNAL.

Lemma covers_nil : covers [] [].
Proof. split; [apply incl_refl|intros k []]. Qed.
Lemma covers_refl l : covers l l.
Proof. split; [apply incl_refl|auto]. Qed.
Lemma covers_app a b L1 L2 : covers a L1 -> covers b L2 -> covers (a ++ b) (L1 ++ L2).
Proof.
  intros [I1 C1] [I2 C2]. split.
  - apply incl_app; [apply incl_appl|apply incl_appr]; assumption.
  - intros k Hk. apply in_app_or in Hk. destruct Hk as [Hk|Hk]; [destruct (C1 _ Hk)|destruct (C2 _ Hk)]; auto;
      left; apply in_or_app; auto.
Qed.
Lemma covers_internal : covers [] [INTERNAL].
Proof. split; [intros k []|]. intros k [E|[]]. auto. Qed.

Lemma ext_refl s : ext s s [].
Proof. repeat split; auto. - intros [H|[]]; exact H. Qed.

Lemma ext_trans s s1 s2 L1 L2 : ext s s1 L1 -> ext s1 s2 L2 -> ext s s2 (L1 ++ L2).
Proof.
  intros (A1 & N1 & G1) (A2 & N2 & G2). refine (conj _ (conj _ _)).
  - intro k. rewrite A2, A1, in_app_iff. tauto.
  - auto.
  - congruence.
Qed.

Lemma set_add_In k x l : In k (set_add x l) <-> In k l \/ k = x.
Proof.
  unfold set_add. destruct (mem_str x l) eqn:E.
  - split; [auto|]. intros [H|H]; [exact H|]. subst. apply mem_str_In. exact E.
  - rewrite in_app_iff. cbn. split; intros [H|H]; auto. + destruct H as [H|[]]; auto.
Qed.

Lemma set_add_NoDup x l : NoDup l -> NoDup (set_add x l).
Proof.
  unfold set_add. destruct (mem_str x l) eqn:E; [auto|]. intro N.
  apply NoDup_rev in N. rewrite <- (rev_involutive (l ++ [x])). apply NoDup_rev. rewrite rev_app_distr. cbn.
  constructor; [|exact N]. rewrite <- in_rev. intro H. apply mem_str_In in H. congruence.
Qed.

Lemma ext_add_todo k s x s' : add_todo k s = Ok (x, s') -> ext s s' [k].
Proof.
  unfold add_todo. intro H. minv_all. refine (conj _ (conj _ _)); cbn.
  - intro k'. rewrite set_add_In. cbn. intuition.
  - apply set_add_NoDup.
  - reflexivity.
Qed.

Definition same_marks (s s' : gst) : Prop := g_todos s' = g_todos s /\ g_class_generics s' = g_class_generics s.
Lemma same_ext s s' : same_marks s s' -> ext s s' [].
Proof. intros [T G]. refine (conj _ (conj _ _)); [|rewrite T; auto|exact G]. intro k. rewrite T. cbn. tauto. Qed.

Section WithApi.
  Variable classes : list (str * cls).
  Variable reexport_map : list (str * list rmod).
  Variable nc : bool.

  Lemma add_to_imports_same q s x s' : add_to_imports classes reexport_map q s = Ok (x, s') -> same_marks s s'.
  Proof.
    unfold add_to_imports. destruct q; [discriminate|].
    destruct (_ || _); [intro H; minv_all; split; reflexivity|].
    intro H. minv_all. destruct (contains _ _); [minv_all; split; reflexivity|].
    destruct (find _ classes) as [[cid ?]|].
    - destruct (shortest_public_reexport _ _ _ _) as [[sh ?] tie]. minv_all.
      match goal with H : (if ?c then _ else _) _ = Ok _ |- _ => destruct c end; minv_all; split; reflexivity.
    - minv_all.
      match goal with H : (if ?c then _ else _) _ = Ok _ |- _ => destruct c end; minv_all; split; reflexivity.
  Qed.

  Notation tstring := (type_string classes reexport_map nc).

  Definition marks_ok {T} (f : T -> M str) (g : T -> list str) (x : T) : Prop :=
    forall s y s', f x s = Ok (y, s') -> exists L, ext s s' L /\ covers (g x) L.

  Lemma mmap_ext {T U} (f : T -> M U) (g : T -> list str) (l : list T) :
    Forall (fun x => forall s y s', f x s = Ok (y, s') -> exists L, ext s s' L /\ covers (g x) L) l ->
    forall s ys s', mmap f l s = Ok (ys, s') -> exists L, ext s s' L /\ covers (flat_map g l) L.
  Proof.
    induction 1 as [|x r Hx _ IH]; intros s ys s' H; cbn in H.
    - minv_all. exists []. split; [apply ext_refl|apply covers_nil].
    - minv_all.
      match goal with H1 : f x s = Ok _, H2 : mmap f r _ = Ok _ |- _ =>
        destruct (Hx _ _ _ H1) as (L1 & E1 & C1); destruct (IH _ _ _ H2) as (L2 & E2 & C2) end.
      exists (L1 ++ L2). split; [eapply ext_trans; eassumption|]. cbn. apply covers_app; assumption.
  Qed.

  Lemma mmap_length {T U} (f : T -> M U) (l : list T) : forall s ys s', mmap f l s = Ok (ys, s') -> List.length ys = List.length l.
  Proof.
    induction l as [|x r IH]; intros s ys s' H; cbn in H; minv_all; [reflexivity|]. cbn. f_equal. eauto.
  Qed.

  Lemma seq_finish_ext name types s x s' :
    seq_finish name types s = Ok (x, s') -> ext s s' (seq_marks name (List.length types)).
  Proof.
    unfold seq_finish, seq_marks. destruct types as [|t r]; intro H.
    - minv_all. cbn. apply ext_refl.
    - minv_all. destruct ((2 <=? _) && _); minv_all; [eapply ext_add_todo; eassumption|apply ext_refl].
  Qed.

  Definition tmarks_ok (t : ty) : Prop :=
    forall s x s', tstring t s = Ok (x, s') -> exists L, ext s s' L /\ covers (tmarks t) L.

  Lemma mmap_tmarks ts : Forall tmarks_ok ts ->
    forall s ys s', mmap tstring ts s = Ok (ys, s') -> exists L, ext s s' L /\ covers (flat_map tmarks ts) L.
  Proof. intro HF. apply mmap_ext. exact HF. Qed.

  Ltac use_mmap IH :=
    match goal with H : mmap _ ?ts _ = Ok (?l, _) |- _ =>
      let L := fresh "L" in let E := fresh "E" in let C := fresh "C" in
      pose proof (mmap_length _ _ _ _ _ H) as ?;
      destruct (mmap_tmarks ts IH _ _ _ H) as (L & E & C); clear H end.

  Lemma type_string_marks_strong : forall t,
    tmarks_ok t /\ (forall ts, t = TTuple ts -> Forall tmarks_ok ts).
  Proof.
    induction t as [| n q | n q ts IH | vs | b mn mx i1 i2 | ts IH | ts IH | k v IHk IHv | ps r IHp IHr | ts IH
                   | ls | t IH | ts IH | n | n u IH] using ty_ind';
      (split; [|try (intros ? E; discriminate E)]); try (intros s x s' H; cbn [type_string tmarks] in * ).
    - (* unknown *) minv_all. eexists. split; [eapply ext_add_todo; eassumption|apply covers_refl].
    - (* named *)
      destruct (lookup_pair n t_builtin_type_names); [minv_all; exists []; split; [apply ext_refl|apply covers_nil]|].
      minv_all. destruct n as [|c n]; [minv_all|]. minv_all.
      match goal with H : add_to_imports _ _ _ _ = Ok _ |- _ => apply add_to_imports_same in H; apply same_ext in H end.
      match goal with H : (if ?c then _ else _) _ = Ok _ |- _ => destruct c end; minv_all.
      + exists ([] ++ [INTERNAL]). split; [eapply ext_trans; [eassumption|eapply ext_add_todo; eassumption]|apply covers_internal].
      + exists []. split; [assumption|apply covers_nil].
    - (* named sequence *)
      assert (IH' : Forall tmarks_ok ts) by (eapply Forall_impl; [|exact IH]; cbn; tauto).
      minv_all. use_mmap IH'.
      match goal with H : seq_finish _ _ _ = Ok _ |- _ => apply seq_finish_ext in H end.
      eexists. split; [eapply ext_trans; eassumption|]. apply covers_app; [assumption|].
      match goal with H : List.length _ = List.length ts |- _ => rewrite H end. apply covers_refl.
    - discriminate.
    - discriminate.
    - (* union *)
      assert (IH' : Forall tmarks_ok ts) by (eapply Forall_impl; [|exact IH]; cbn; tauto).
      unfold union_short. cbv zeta.
      match goal with |- context [if ?c then _ else _] => destruct c end.
      + minv_all. exists []. split; [apply ext_refl|apply covers_nil].
      + minv_all. destruct (2 <=? _).
        * minv_all.
          match goal with H : mmap _ ts _ = Ok _ |- _ =>
            eapply (mmap_ext _ (fun x => if is_literal x then [] else tmarks x)) in H; [exact H|] end.
          eapply Forall_impl; [|exact IH']. cbn. intros a Ha s1 y s2 Hy. destruct (is_literal a); minv_all.
          -- exists []. split; [apply ext_refl|apply covers_nil].
          -- eauto.
        * eapply mmap_tmarks; eassumption.
    - (* list *)
      assert (IH' : Forall tmarks_ok ts) by (eapply Forall_impl; [|exact IH]; cbn; tauto).
      minv_all. use_mmap IH'.
      match goal with H : seq_finish _ _ _ = Ok _ |- _ => apply seq_finish_ext in H end.
      eexists. split; [eapply ext_trans; eassumption|]. apply covers_app; [assumption|].
      match goal with H : List.length _ = List.length ts |- _ => rewrite H end. apply covers_refl.
    - (* dict *)
      destruct IHk as [IHk _], IHv as [IHv _]. minv_all.
      match goal with H1 : tstring k _ = Ok _, H2 : tstring v _ = Ok _ |- _ =>
        destruct (IHk _ _ _ H1) as (L1 & E1 & C1); destruct (IHv _ _ _ H2) as (L2 & E2 & C2) end.
      exists (L1 ++ L2). split; [eapply ext_trans; eassumption|apply covers_app; assumption].
    - (* callable *)
      assert (IHp' : Forall tmarks_ok ps) by (eapply Forall_impl; [|exact IHp]; cbn; tauto).
      destruct IHr as [IHr IHrt]. minv_all. use_mmap IHp'.
      assert (GEN : forall s1 y s2, tstring r s1 = Ok (y, s2) -> exists L, ext s1 s2 L /\ covers (tmarks r) L) by exact IHr.
      destruct r; minv_all;
        try (match goal with H : type_string _ _ _ _ _ = Ok _ |- _ => destruct (GEN _ _ _ H) as (L2 & E2 & C2) end;
             eexists; split; [eapply ext_trans; eassumption|apply covers_app; assumption]).
      * destruct (str_eqb name (K"None")); minv_all.
        -- eexists. split; [eapply ext_trans; [eassumption|apply ext_refl]|apply covers_app; [assumption|apply covers_nil]].
        -- match goal with H : type_string _ _ _ _ _ = Ok _ |- _ => destruct (GEN _ _ _ H) as (L2 & E2 & C2) end.
           eexists; split; [eapply ext_trans; eassumption|apply covers_app; assumption].
      * match goal with H : mmap _ ?rs _ = Ok _ |- _ =>
          destruct (mmap_tmarks rs (IHrt _ eq_refl) _ _ _ H) as (L2 & E2 & C2) end.
        eexists; split; [eapply ext_trans; eassumption|apply covers_app; assumption].
    - (* set *)
      assert (IH' : Forall tmarks_ok ts) by (eapply Forall_impl; [|exact IH]; cbn; tauto).
      minv_all. use_mmap IH'.
      match goal with H : add_todo _ _ = Ok _ |- _ => apply ext_add_todo in H end.
      match goal with H : seq_finish _ _ _ = Ok _ |- _ => apply seq_finish_ext in H end.
      eexists. split; [eapply ext_trans; [eassumption|eapply ext_trans; eassumption]|].
      apply covers_app; [assumption|]. apply covers_app; [apply covers_refl|].
      match goal with H : List.length _ = List.length ts |- _ => rewrite H end. apply covers_refl.
    - (* literal *) minv_all. exists []. split; [apply ext_refl|apply covers_nil].
    - (* final *) destruct IH as [IH _]. eauto.
    - (* tuple *)
      assert (IH' : Forall tmarks_ok ts) by (eapply Forall_impl; [|exact IH]; cbn; tauto).
      minv_all.
      match goal with H : add_todo _ _ = Ok _ |- _ => apply ext_add_todo in H end.
      use_mmap IH'.
      eexists. split; [eapply ext_trans; eassumption|]. apply (covers_app [_] _ [_] _); [apply covers_refl|assumption].
    - intros ts0 E. inversion E; subst. eapply Forall_impl; [|exact IH]. cbn. tauto.
    - (* type variable *) minv_all. exists []. split; [apply ext_refl|apply covers_nil].
    - minv_all. exists []. split; [apply ext_refl|apply covers_nil].
  Qed.

  Theorem type_string_marks : forall t s x s',
    tstring t s = Ok (x, s') -> exists L, ext s s' L /\ covers (tmarks t) L.
  Proof. intro t. exact (proj1 (type_string_marks_strong t)). Qed.

  (* ---------- parameters ---------- *)
  Lemma render_default_ext p s x s' :
    render_default p s = Ok (x, s') ->
    ext s s' (match p_default p with DUnknown => [K"unknown value"] | _ => [] end).
  Proof.
    unfold render_default. destruct (p_default p) eqn:D; intro H; minv_all; try apply ext_refl.
    - destruct (p_assigned p); try (minv_all; apply ext_refl).
      destruct (str_eqb _ _); minv_all; apply ext_refl.
    - eapply ext_add_todo; eassumption.
  Qed.

  Lemma if_add_todo_ext (b : bool) k s x s' :
    (if b then add_todo k else ret tt) s = Ok (x, s') -> ext s s' (if b then [k] else []).
  Proof. destruct b; intro H; [eapply ext_add_todo; eassumption|minv_all; apply ext_refl]. Qed.

  Ltac chain :=
    solve [ eassumption | apply ext_refl
          | multimatch goal with H : ext ?a _ _ |- ext ?a _ _ => eapply ext_trans; [exact H | chain] end ].

  Definition type_part_marks (p : param) : list str :=
    match p_type p with
    | Some t =>
      (if p_optional p then match p_default p with DUnknown => [K"unknown value"] | _ => [] end else []) ++
      tmarks (match p_assigned p, t with POSITIONAL_VARARG, TTuple ts => TList ts | _, _ => t end)
    | None => [K"param without type"]
    end.
  Definition kind_marks (p : param) : list str :=
    match p_assigned p with
    | POSITION_ONLY => if negb (default_is_none (p_default p)) then [K"OPT_POS_ONLY"] else []
    | NAME_ONLY => if negb (p_optional p) then [K"REQ_NAME_ONLY"] else []
    | _ => []
    end.

  Lemma param_fields_marks p s x s' :
    param_fields classes reexport_map nc p s = Ok (x, s') -> exists L, ext s s' L /\ covers (param_marks p) L.
  Proof.
    unfold param_fields. intro H. minv_all.
    match goal with H : (if is_vararg _ then _ else _) _ = Ok _ |- _ => apply if_add_todo_ext in H end.
    match goal with H : (match p_assigned p with _ => _ end) ?sa = Ok (_, ?sb) |- _ =>
      assert (EK : ext sa sb (kind_marks p))
        by (unfold kind_marks; destruct (p_assigned p); try (minv_all; apply ext_refl); eapply if_add_todo_ext; exact H);
      clear H end.
    match goal with H : (match p_type p with _ => _ end) ?sa = Ok (_, ?sb) |- _ =>
      assert (ET : exists LT, ext sa sb LT /\ covers (type_part_marks p) LT); [|clear H] end.
    { unfold type_part_marks. destruct (p_type p) as [t|].
      - minv_all.
        match goal with H : type_string _ _ _ _ _ = Ok _ |- _ => destruct (type_string_marks _ _ _ _ H) as (LT & ET & CT); clear H end.
        destruct (p_optional p); minv_all.
        + match goal with H : render_default _ _ = Ok _ |- _ => apply render_default_ext in H end.
          eexists. split; [chain|]. apply covers_app; [apply covers_refl|exact CT].
        + eexists. split; [chain|]. exact CT.
      - minv_all. match goal with H : add_todo _ _ = Ok _ |- _ => apply ext_add_todo in H end.
        eexists. split; [chain|apply covers_refl]. }
    destruct ET as (LT & ET & CT).
    eexists. split; [chain|].
    unfold param_marks. fold (type_part_marks p) (kind_marks p).
    apply covers_app; [exact CT|]. apply covers_app; apply covers_refl.
  Qed.

  Lemma one_param_marks p s x s' :
    one_param classes reexport_map nc p s = Ok (x, s') -> exists L, ext s s' L /\ covers (param_marks p) L.
  Proof. unfold one_param. intro H. minv_all. eapply param_fields_marks; eassumption. Qed.

  Lemma parameter_string_marks ps indent im s x s' :
    parameter_string classes reexport_map nc ps indent im s = Ok (x, s') ->
    exists L, ext s s' L /\ covers (flat_map param_marks (if im then tl ps else ps)) L.
  Proof.
    unfold parameter_string. intro H. minv_all.
    match goal with H : mmap _ _ _ = Ok _ |- _ =>
      eapply (mmap_ext _ param_marks) in H; [destruct H as (L & E & C)|apply Forall_forall; intros p _ s1 y s2; apply one_param_marks] end.
    exists L. split; [|exact C].
    match goal with H : (match ?d with [] => _ | _ => _ end) _ = Ok _ |- _ => destruct d; minv_all; exact E end.
  Qed.

  (* ---------- results ---------- *)
  Lemma result_items_marks rs : forall acc s x s',
    result_items classes reexport_map nc rs acc s = Ok (x, s') ->
    x = result_texts nc rs acc /\ exists L, ext s s' L /\ covers (result_marks rs) L.
  Proof.
    induction rs as [|r rest IH]; intros acc s x s' H; cbn [result_items result_texts result_marks] in *.
    - minv_all. split; [reflexivity|]. exists []. split; [apply ext_refl|apply covers_nil].
    - destruct (r_type r) as [t|]; [|eauto].
      destruct (is_none_result t).
      + minv_all. split; [reflexivity|]. exists []. split; [apply ext_refl|apply covers_nil].
      + minv_all.
        match goal with H : type_string _ _ _ _ _ = Ok _ |- _ =>
          pose proof (type_string_is_tstr _ _ _ _ _ _ _ H) as ->; destruct (type_string_marks _ _ _ _ H) as (LT & ET & CT); clear H end.
        destruct (tstr nc t) eqn:TS.
        * match goal with H : result_items _ _ _ _ _ _ = Ok _ |- _ => destruct (IH _ _ _ _ H) as (-> & L2 & E2 & C2) end.
          split; [reflexivity|]. eexists. split; [chain|]. apply covers_app; assumption.
        * match goal with H : result_items _ _ _ _ _ _ = Ok _ |- _ => destruct (IH _ _ _ _ H) as (-> & L2 & E2 & C2) end.
          split; [reflexivity|]. eexists. split; [chain|]. apply covers_app; assumption.
  Qed.

  Lemma result_string_marks rs s x s' :
    result_string classes reexport_map nc rs s = Ok (x, s') -> exists L, ext s s' L /\ covers (results_marks nc rs) L.
  Proof.
    unfold result_string, results_marks. intro H. minv_all.
    match goal with H : result_items _ _ _ _ _ _ = Ok _ |- _ => destruct (result_items_marks _ _ _ _ _ H) as (-> & L1 & E1 & C1); clear H end.
    destruct (result_texts nc rs []) as [[|a [|b l]]|]; minv_all.
    - match goal with H : add_todo _ _ = Ok _ |- _ => apply ext_add_todo in H end.
      eexists. split; [chain|]. apply covers_app; [assumption|apply covers_refl].
    - eexists. split; [chain|]. rewrite app_nil_r. assumption.
    - eexists. split; [chain|]. rewrite app_nil_r. assumption.
    - eexists. split; [chain|]. rewrite app_nil_r. assumption.
  Qed.

  (* ---------- type variables of a function ---------- *)
  Lemma type_var_info_marks f is_method s x s' :
    type_var_info classes reexport_map nc f is_method s = Ok (x, s') ->
    exists L, ext s s' L /\ covers (tvar_marks nc (g_class_generics s) is_method (f_tvars f)) L.
  Proof.
    unfold type_var_info, tvar_marks. destruct (f_tvars f) as [|tv0 tvs0] eqn:TV.
    - intro H. minv_all. exists []. split; [apply ext_refl|apply covers_nil].
    - intro H. minv_all. remember (tv0 :: tvs0) as tvs. clear Heqtvs TV.
      match goal with H : (match ?d with [] => _ | _ => _ end) ?sa = Ok (_, ?sb) |- _ => assert (sb = sa) by (destruct d; minv_all; reflexivity); subst; clear H end.
      (* the class generics never change, so every iteration reads the same set *)
      assert (GEN : forall l s1 ys s2, g_class_generics s1 = g_class_generics s ->
                mmap (fun tv : str * option ty =>
                        let n := conv_esc nc (fst tv) in
                        mdo s <- get;
                        if negb is_method || negb (mem_str n (g_class_generics s)) then
                          match snd tv with
                          | Some ub => mdo x <- type_string classes reexport_map nc ub; ret [n ++ K" sub " ++ x]
                          | None => ret [n]
                          end
                        else ret []) l s1 = Ok (ys, s2) ->
                exists L, ext s1 s2 L /\
                  covers (flat_map (fun tv : str * option ty =>
                            if negb is_method || negb (mem_str (conv_esc nc (fst tv)) (g_class_generics s))
                            then match snd tv with Some ub => tmarks ub | None => [] end else []) l) L).
      { induction l as [|tv l IHl]; intros s1 ys s2 G H1; cbn in H1.
        - minv_all. exists []. split; [apply ext_refl|apply covers_nil].
        - minv_all. cbn [flat_map]. rewrite <- G.
          destruct (negb is_method || negb (mem_str _ _)).
          + destruct (snd tv) as [ub|]; minv_all.
            * match goal with H : type_string _ _ _ _ _ = Ok _ |- _ => destruct (type_string_marks _ _ _ _ H) as (LT & ET & CT); clear H end.
              match goal with H : mmap _ l _ = Ok _ |- _ => apply IHl in H; [destruct H as (L2 & E2 & C2)|] end.
              -- eexists. split; [chain|]. rewrite G. apply covers_app; assumption.
              -- destruct ET as (_ & _ & GG). congruence.
            * match goal with H : mmap _ l _ = Ok _ |- _ => apply IHl in H; [destruct H as (L2 & E2 & C2)|assumption] end.
              eexists. split; [chain|]. rewrite G. apply (covers_app [] _ [] _); [apply covers_nil|assumption].
          + minv_all.
            match goal with H : mmap _ l _ = Ok _ |- _ => apply IHl in H; [destruct H as (L2 & E2 & C2)|assumption] end.
            eexists. split; [chain|]. rewrite G. apply (covers_app [] _ [] _); [apply covers_nil|assumption]. }
      match goal with H : mmap _ tvs _ = Ok _ |- _ => eapply GEN; [reflexivity|exact H] end.
  Qed.

  (* ---------- the printed marker block ---------- *)
  Definition todo_text (indent : str) (ks : list str) : str :=
    match ks with
    | [] => []
    | _ => match mapM (fun k => todo_lookup k t_todo_messages) ks with
           | Ok msgs => indent ++ join (NL ++ indent) (sort_str (map (fun m => t_todo_prefix ++ m) msgs)) ++ NL
           | Err _ => []
           end
    end.

  Lemma create_todo_msg_text indent s x s' :
    create_todo_msg indent s = Ok (x, s') -> x = todo_text indent (g_todos s) /\ g_todos s' = [] /\ g_class_generics s' = g_class_generics s.
  Proof.
    unfold create_todo_msg, todo_text. destruct (g_todos s) eqn:E.
    - intro H; inversion H; subst. auto.
    - destruct (mapM _ _); [|discriminate]. intro H; inversion H. auto.
  Qed.

  Definition msg_of (k : str) : str := match todo_lookup k t_todo_messages with Ok v => v | Err _ => [] end.

  Lemma mapM_lookup_ok l msgs :
    mapM (fun k => todo_lookup k t_todo_messages) l = Ok msgs -> msgs = map msg_of l.
  Proof.
    revert msgs. induction l as [|k r IH]; intros msgs H; cbn [mapM bind] in H.
    - inversion H. reflexivity.
    - cbn [map]. unfold msg_of at 1. destruct (todo_lookup k t_todo_messages); [|discriminate]. cbn [bind] in H.
      destruct (mapM _ r); [|discriminate]. cbn [bind] in H. inversion H. f_equal. apply IH. reflexivity.
  Qed.

  Lemma mapM_lookup_err l :
    (exists e, mapM (fun k => todo_lookup k t_todo_messages) l = Err e) <->
    (exists k, In k l /\ exists e, todo_lookup k t_todo_messages = Err e).
  Proof.
    induction l as [|k r IH]; cbn [mapM bind In].
    - split; [intros [e H]; discriminate|intros (k & [] & _)].
    - destruct (todo_lookup k t_todo_messages) eqn:E; cbn [bind].
      + destruct (mapM _ r) eqn:M; cbn [bind].
        * split; [intros [e H]; discriminate|]. intros (k' & [<-|Hin] & e & He); [congruence|].
          destruct (proj2 IH) as [e' He']; [eauto|discriminate].
        * split; [|eauto]. intros _. destruct (proj1 IH) as (k' & Hin & He); eauto.
      + split; [|eauto]. intros _. exists k. split; eauto.
  Qed.

  (* the block depends only on the SET of pending markers *)
  Lemma todo_text_perm indent L L' : Permutation L L' -> todo_text indent L = todo_text indent L'.
  Proof.
    intro P. unfold todo_text.
    destruct L as [|a L0]; [apply Permutation_nil in P; subst; reflexivity|].
    destruct L' as [|a' L0']; [apply Permutation_sym, Permutation_nil in P; discriminate|].
    destruct (mapM _ (a :: L0)) as [m|e] eqn:M1; destruct (mapM _ (a' :: L0')) as [m'|e'] eqn:M2; try reflexivity.
    - apply mapM_lookup_ok in M1, M2. subst.
      rewrite (sort_str_perm _ (map (fun m => t_todo_prefix ++ m) (map msg_of (a' :: L0')))); [reflexivity|].
      apply Permutation_map, Permutation_map. exact P.
    - exfalso. destruct (proj1 (mapM_lookup_err (a' :: L0'))) as (k & Hin & e & He); [eauto|].
      assert (Hin' : In k (a :: L0)) by (eapply Permutation_in; [apply Permutation_sym; exact P|exact Hin]).
      destruct (proj2 (mapM_lookup_err (a :: L0))) as [e2 H2]; [eauto|]. congruence.
    - exfalso. destruct (proj1 (mapM_lookup_err (a :: L0))) as (k & Hin & e0 & He); [eauto|].
      assert (Hin' : In k (a' :: L0')) by (eapply Permutation_in; [exact P|exact Hin]).
      destruct (proj2 (mapM_lookup_err (a' :: L0'))) as [e2 H2]; [eauto|]. congruence.
  Qed.

  Theorem todo_text_set indent L L' :
    NoDup L -> NoDup L' -> (forall k, In k L <-> In k L') -> todo_text indent L = todo_text indent L'.
  Proof. intros N N' E. apply todo_text_perm. apply NoDup_Permutation; assumption. Qed.

  (* ---------- a function / method declared here: its marker block is that of its own features ---------- *)
  Theorem function_string_markers f indent is_method in_rx s x s' :
    function_string classes reexport_map nc f indent is_method in_rx s = Ok (x, s') ->
    (if negb is_method && negb in_rx then shorter_reexport (f_name f) (f_reexported_by f) s else None) = None ->
    g_todos s = [] ->
    exists L params tvi rs,
      NoDup L /\ covers (func_marks nc (g_class_generics s) is_method f) L /\ g_todos s' = [] /\
      x = todo_text indent L ++
          sds_docstring nc (d_desc (f_doc f)) (d_examples (f_doc f)) (Some (f_params f)) (Some (f_rdocs f)) indent ++
          indent ++ K"@Pure" ++ NL ++
          (match fst (emit_name nc false (f_name f)) with None => [] | Some n => indent ++ name_annotation n ++ NL end) ++
          indent ++ (if f_classm f || f_static f then K"static " else []) ++ K"fun " ++ snd (emit_name nc false (f_name f)) ++
          tvi ++ K"(" ++ params ++ K")" ++ rs.
  Proof.
    unfold function_string. intros H HR H0. minv_all. rewrite HR in *. minv_all.
    match goal with H : (if f_classm f then _ else _) _ = Ok _ |- _ => apply if_add_todo_ext in H end.
    match goal with H : parameter_string _ _ _ _ _ _ _ = Ok _ |- _ => apply parameter_string_marks in H; destruct H as (LP & EP & CP) end.
    match goal with H : type_var_info _ _ _ _ _ _ = Ok _ |- _ => apply type_var_info_marks in H; destruct H as (LV & EV & CV) end.
    match goal with H : result_string _ _ _ _ _ = Ok _ |- _ => apply result_string_marks in H; destruct H as (LR & ER & CR) end.
    match goal with H : create_todo_msg _ _ = Ok _ |- _ => apply create_todo_msg_text in H; destruct H as (-> & HC & _) end.
    match goal with |- context [todo_text indent (g_todos ?sx)] =>
      assert (EX : exists L, ext s sx L /\ covers (func_marks nc (g_class_generics s) is_method f) L) end.
    { eexists. split; [chain|]. unfold func_marks.
      apply covers_app; [apply covers_refl|]. apply covers_app; [exact CP|]. apply covers_app; [|exact CR].
      match goal with H : ext s ?s1 (if f_classm f then _ else _), H2 : ext ?s1 ?s2 LP |- _ =>
        destruct H as (_ & _ & G1); destruct H2 as (_ & _ & G2); rewrite G2, G1 in CV end. exact CV. }
    destruct EX as (L & (A & N & G) & C).
    match goal with |- context [todo_text indent (g_todos ?sx)] => exists (g_todos sx) end.
    do 3 eexists. refine (conj _ (conj _ (conj HC eq_refl))).
    - apply N. rewrite H0. constructor.
    - destruct C as [CI CO]. split.
      + intros k Hk. apply A. right. apply CI. exact Hk.
      + intros k Hk. apply A in Hk. rewrite H0 in Hk. destruct Hk as [[]|Hk]. apply CO. exact Hk.
  Qed.

  (* a property: the block is that of its (union) type *)
  Theorem property_string_markers f indent s x s' :
    property_string classes reexport_map nc f indent s = Ok (x, s') -> g_todos s = [] ->
    exists L ts,
      NoDup L /\ covers (property_marks f) L /\ g_todos s' = [] /\
      x = todo_text indent L ++ sds_docstring_description (d_desc (f_doc f)) indent ++ indent ++
          (match fst (emit_name nc false (f_name f)) with None => [] | Some n => name_annotation n ++ K" " end) ++
          K"attr " ++ snd (emit_name nc false (f_name f)) ++ ts.
  Proof.
    unfold property_string. intros H H0. minv_all.
    match goal with H : type_string _ _ _ _ _ = Ok _ |- _ => apply type_string_marks in H; destruct H as (L & (A & N & G) & [CI CO]) end.
    match goal with H : create_todo_msg _ _ = Ok _ |- _ => apply create_todo_msg_text in H; destruct H as (-> & HC & _) end.
    match goal with |- context [todo_text indent (g_todos ?sx)] => exists (g_todos sx) end.
    eexists. refine (conj _ (conj _ (conj HC eq_refl))).
    - apply N. rewrite H0. constructor.
    - split.
      + intros k Hk. apply A. right. apply CI. exact Hk.
      + intros k Hk. apply A in Hk. rewrite H0 in Hk. destruct Hk as [[]|Hk]. apply CO. exact Hk.
  Qed.

  (* ---------- attributes: each written attribute carries the block of its own features, whatever its neighbours are ---------- *)
  Definition attr_line (inner : str) (a : attr) (line : str) : Prop :=
    exists L, NoDup L /\ covers (attr_marks nc a) L /\
      line = todo_text inner L ++ sds_docstring nc (a_doc_desc a) [] None None inner ++ inner ++
             (match fst (emit_name nc false (a_name a)) with None => [] | Some n => name_annotation n ++ NL ++ inner end) ++
             (if a_static a then K"static " else []) ++ K"attr " ++ snd (emit_name nc false (a_name a)) ++
             (match attr_text nc a with [] => [] | ts => K": " ++ ts end).

  Theorem class_attrs_markers ats inner : forall acc names s lines names' s',
    class_attrs classes reexport_map nc ats inner acc names s = Ok ((lines, names'), s') -> g_todos s = [] ->
    g_todos s' = [] /\ exists new, lines = acc ++ new /\ Forall2 (attr_line inner) (filter attr_rendered ats) new.
  Proof.
    induction ats as [|a rest IH]; intros acc names s lines names' s' H H0; cbn [class_attrs] in H.
    - minv_all. match goal with H : (_, _) = (_, _) |- _ => inversion H; subst end.
      split; [assumption|]. exists []. rewrite app_nil_r. split; [reflexivity|constructor].
    - cbn [filter]. unfold attr_rendered at 1.
      destruct (a_public a); cbn [negb andb] in *; [|eauto].
      destruct (match a_type a with Some (TTypeVar _ _) => true | _ => false end) eqn:TV; cbn [negb] in *; [eauto|].
      minv_all.
      match goal with H : type_string_opt _ _ _ _ ?sa = Ok (?ts, ?sb) |- _ =>
        assert (TT : ts = attr_text nc a /\ exists LT, ext sa sb LT /\ covers (match a_type a with Some t => tmarks t | None => [] end) LT) end.
      { unfold attr_text. match goal with H : type_string_opt _ _ _ _ _ = Ok _ |- _ => unfold type_string_opt in H end.
        destruct (a_type a) as [t|].
        - match goal with H : type_string _ _ _ _ _ = Ok _ |- _ =>
            split; [eapply type_string_is_tstr; exact H|eapply type_string_marks; exact H] end.
        - minv_all. split; [reflexivity|]. exists []. split; [apply ext_refl|apply covers_nil]. }
      destruct TT as (-> & LT & ET & CT).
      match goal with H : context [add_todo (K"attr without type")] |- _ =>
        match type of H with ?ff ?sa = Ok (_, ?sb) =>
          assert (EA : ext sa sb (match attr_text nc a with [] => [K"attr without type"] | _ => [] end));
          [destruct (attr_text nc a); [eapply ext_add_todo; exact H|cbn in H; minv_all; apply ext_refl]|clear H] end end.
      match goal with H : create_todo_msg _ _ = Ok _ |- _ => apply create_todo_msg_text in H; destruct H as (-> & HC & _) end.
      match goal with H : class_attrs _ _ _ _ _ _ _ _ = Ok _ |- _ => destruct (IH _ _ _ _ _ _ H HC) as (HE & new & -> & HF) end.
      split; [exact HE|]. eexists (_ :: new). split; [rewrite <- app_assoc; reflexivity|]. constructor; [|exact HF].
      assert (EX : ext s x2 (LT ++ match attr_text nc a with [] => [K"attr without type"] | _ => [] end)) by chain.
      destruct EX as (A & N & _).
      exists (g_todos x2). refine (conj _ (conj _ _)).
      + apply N. rewrite H0. constructor.
      + unfold attr_marks. assert (CC := covers_app _ _ _ _ CT (covers_refl (match attr_text nc a with [] => [K"attr without type"] | _ => [] end))).
        destruct CC as [CI CO]. split.
        * intros k Hk. apply A. right. apply CI. exact Hk.
        * intros k Hk. apply A in Hk. rewrite H0 in Hk. destruct Hk as [[]|Hk]. apply CO. exact Hk.
      + destruct (attr_text nc a); reflexivity.
  Qed.
End WithApi.

(* ---------- the premises of function_string_markers are met by a concrete function, and its conclusion has content ---------- *)
Definition ex_doc : docstring := {| d_desc := K"Doc."; d_full := []; d_examples := [] |}.
Definition ex_param : param :=
  {| p_id := K"m/f/p"; p_name := K"p"; p_optional := false; p_default := DNone; p_assigned := NAME_ONLY; p_doc_type := None;
     p_doc_default := []; p_doc_desc := []; p_type := Some (TTuple [TNamed (K"int") (K"builtins.int")]) |}.
Definition ex_func : func :=
  {| f_id := K"m/f"; f_name := K"f"; f_doc := ex_doc; f_public := true; f_static := false; f_classm := false; f_prop := false;
     f_rdocs := []; f_tvars := []; f_results := []; f_reexported_by := []; f_params := [ex_param] |}.

Example function_markers_example :
  func_marks false [] false ex_func = [K"no tuple support"; K"REQ_NAME_ONLY"; K"result without type"] /\
  (if negb false && negb false then shorter_reexport (f_name ex_func) (f_reexported_by ex_func) init_gst else None) = None /\
  g_todos init_gst = [] /\
  exists x s', function_string [] [] false ex_func [] false false init_gst = Ok (x, s') /\ g_todos s' = [] /\
    starts_with (K"// TODO Result type information missing." ++ NL ++
                 K"// TODO Safe-DS does not support required but name only parameter assignments." ++ NL ++
                 K"// TODO Safe-DS does not support tuple types." ++ NL) x = true.
Proof.
  split; [vm_compute; reflexivity|]. split; [vm_compute; reflexivity|]. split; [reflexivity|].
  eexists. eexists. split; [vm_compute; reflexivity|]. split; vm_compute; reflexivity.
Qed.
