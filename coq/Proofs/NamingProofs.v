(* Proofs about Model/Naming.v (C09, identifier part of C02). *)
From Coq Require Import List Ascii String Bool Arith Lia.
From SV Require Import Lib.Str Gen.Tables Model.Naming Proofs.TypesProofs.
Import ListNotations.

Definition is_us (c : ascii) : bool := Ascii.eqb c us.
Definition no_us (s : str) : bool := forallb (fun c => negb (is_us c)) s.
Definition remove_us (s : str) : str := filter (fun c => negb (is_us c)) s.

Theorem convert_off c n : convert false c n = n.
Proof. unfold convert. now rewrite orb_true_r. Qed.

Theorem convert_single_underscore nc c : convert nc c US = US.
Proof. unfold convert. cbn. reflexivity. Qed.

(* ---- split ---- *)
Lemma split_ch_nonempty c s : split_ch c s <> [].
Proof. induction s as [|x r IH]; cbn; [discriminate|]. destruct (Ascii.eqb x c); [discriminate|]. destruct (split_ch c r); discriminate. Qed.

Lemma no_us_cons c p : no_us (c :: p) = negb (is_us c) && no_us p.
Proof. reflexivity. Qed.

Lemma split_us_no_us s : Forall (fun p => no_us p = true) (split_ch us s).
Proof.
  induction s as [|c r IH]; cbn.
  - constructor; [reflexivity|constructor].
  - destruct (Ascii.eqb c us) eqn:E.
    + constructor; [reflexivity|exact IH].
    + assert (Hc : negb (is_us c) = true) by (unfold is_us; now rewrite E).
      destruct (split_ch us r) as [|p ps].
      * repeat constructor. now rewrite no_us_cons, Hc.
      * inversion IH as [|? ? Hp Hps]; subst. constructor; [now rewrite no_us_cons, Hc, Hp|exact Hps].
Qed.

Lemma concat_split_us s : List.concat (split_ch us s) = remove_us s.
Proof.
  induction s as [|c r IH]; cbn; [reflexivity|]. unfold is_us. destruct (Ascii.eqb c us) eqn:E; cbn.
  - exact IH.
  - destruct (split_ch us r) as [|p ps] eqn:Es; [now apply split_ch_nonempty in Es|]. cbn in *. now rewrite IH.
Qed.

(* ---- upper / lower on bytes ---- *)
Lemma upper_not_us c : is_us c = false -> is_us (upper c) = false.
Proof.
  unfold upper, is_lower, is_us, us. intros H.
  destruct c as [[] [] [] [] [] [] [] []]; cbn in *; try reflexivity; try discriminate.
Qed.

Lemma lower_upper c : lower (upper c) = lower c.
Proof. destruct c as [[] [] [] [] [] [] [] []]; reflexivity. Qed.

Lemma upper_not_lower c : is_lower (upper c) = false.
Proof. destruct c as [[] [] [] [] [] [] [] []]; reflexivity. Qed.

Lemma upper_ident_char c : is_ident_char c = true -> is_ident_char (upper c) = true.
Proof. destruct c as [[] [] [] [] [] [] [] []]; cbn; intro H; try reflexivity; try discriminate. Qed.

Lemma cap_no_us p : no_us p = true -> no_us (cap p) = true.
Proof.
  destruct p as [|c r]; cbn; [easy|]. intros H. apply andb_true_iff in H as [Hc Hr].
  rewrite Hr, andb_true_r. apply negb_true_iff in Hc. now rewrite upper_not_us.
Qed.

Lemma forallb_concat {X} (f : X -> bool) (ls : list (list X)) :
  Forall (fun l => forallb f l = true) ls -> forallb f (List.concat ls) = true.
Proof. induction 1 as [|l r Hl _ IH]; cbn; [reflexivity|]. rewrite forallb_app. now rewrite Hl, IH. Qed.

Lemma caps_no_us l :
  Forall (fun p => no_us p = true) l -> Forall (fun p => no_us p = true) (map cap (filter nonempty l)).
Proof.
  induction 1 as [|p ps Hp _ IH]; cbn; [constructor|].
  destruct (nonempty p); [constructor; [now apply cap_no_us|exact IH]|exact IH].
Qed.

(* 1. the converted name contains no underscore (unless the name is the single underscore) *)
Theorem convert_no_underscore c name :
  str_eqb name US = false -> no_us (convert true c name) = true.
Proof.
  intros H1. unfold convert. rewrite H1. cbn [orb negb].
  set (parts := split_ch us _).
  pose proof (split_us_no_us (rstrip_chars US (lstrip_chars US name))) as HP. fold parts in HP.
  destruct c.
  - apply forallb_concat, caps_no_us, HP.
  - destruct parts as [|p0 ps]; [reflexivity|]. inversion HP as [|? ? H0 Hps]; subst. unfold no_us. rewrite forallb_app.
    fold (no_us p0). rewrite H0. cbn. apply forallb_concat, caps_no_us. assumption.
Qed.

(* 2. letters and digits are kept, in order: modulo case, the result is the name without its underscores *)
Lemma map_lower_cap p : map lower (cap p) = map lower p.
Proof. destruct p as [|c r]; cbn; [reflexivity|]. now rewrite lower_upper. Qed.

Lemma concat_caps_lower l :
  map lower (List.concat (map cap (filter nonempty l))) = map lower (List.concat l).
Proof.
  induction l as [|p ps IH]; cbn; [reflexivity|]. destruct p as [|c r]; cbn; [exact IH|].
  rewrite !map_app, IH. cbn. now rewrite lower_upper.
Qed.

Lemma lstrip_us_remove s : remove_us (lstrip_chars US s) = remove_us s.
Proof.
  induction s as [|c r IH]; cbn; [reflexivity|]. unfold is_us. rewrite orb_false_r.
  destruct (Ascii.eqb c us) eqn:E; cbn; [exact IH|]. unfold is_us. now rewrite E.
Qed.

Lemma remove_us_rev s : remove_us (rev s) = rev (remove_us s).
Proof.
  unfold remove_us. induction s as [|c r IH]; cbn; [reflexivity|]. rewrite filter_app, IH. cbn.
  destruct (negb (is_us c)); cbn; [reflexivity|now rewrite app_nil_r].
Qed.

Lemma rstrip_us_remove s : remove_us (rstrip_chars US s) = remove_us s.
Proof. unfold rstrip_chars. now rewrite remove_us_rev, lstrip_us_remove, remove_us_rev, rev_involutive. Qed.

Theorem convert_keeps_letters c name :
  str_eqb name US = false ->
  map lower (convert true c name) = map lower (remove_us name).
Proof.
  intros H1. unfold convert. rewrite H1. cbn [orb negb].
  rewrite <- (lstrip_us_remove name), <- (rstrip_us_remove (lstrip_chars US name)), <- concat_split_us.
  set (parts := split_ch us _).
  destruct c.
  - apply concat_caps_lower.
  - destruct parts as [|p0 ps]; [reflexivity|]. cbn. rewrite !map_app. f_equal. apply concat_caps_lower.
Qed.

(* 3. class names start with a non-lower-case character *)
Theorem convert_class_upper name c r :
  str_eqb name US = false -> convert true true name = c :: r -> is_lower c = false.
Proof.
  intros H1. unfold convert. rewrite H1. cbn [orb negb].
  generalize (split_ch us (rstrip_chars US (lstrip_chars US name))). intros l.
  induction l as [|p ps IH]; cbn; [discriminate|].
  destruct p as [|x xs]; cbn; [exact IH|]. intros E. inversion E; subst. apply upper_not_lower.
Qed.

(* 4. a character is only ever changed into its own upper case *)
Theorem convert_length name c :
  str_eqb name US = false -> List.length (convert true c name) = List.length (remove_us name).
Proof.
  intros H. rewrite <- (map_length lower), (convert_keeps_letters c name H). apply map_length.
Qed.

(* identifiers stay identifiers character-wise *)
Lemma forallb_filter {X} (f g : X -> bool) l : forallb f l = true -> forallb f (filter g l) = true.
Proof. induction l as [|x r IH]; cbn; [easy|]. intros H. apply andb_true_iff in H as [H1 H2]. destruct (g x); cbn; rewrite ?H1; auto. Qed.

Lemma lower_ident_char c : is_ident_char (lower c) = is_ident_char c.
Proof. destruct c as [[] [] [] [] [] [] [] []]; reflexivity. Qed.

Theorem convert_ident_chars nc c name : ascii_ident name = true -> ascii_ident (convert nc c name) = true.
Proof.
  intros HA. destruct nc; [|now rewrite convert_off].
  destruct (str_eqb name US) eqn:E; [unfold convert; now rewrite E|].
  pose proof (convert_keeps_letters c name E) as HL.
  assert (H2 : ascii_ident (map lower (convert true c name)) = true).
  { rewrite HL. unfold ascii_ident. rewrite forallb_forall. intros x Hx. apply in_map_iff in Hx as (y & <- & Hy).
    rewrite lower_ident_char. apply filter_In in Hy as [Hy _]. unfold ascii_ident in HA. rewrite forallb_forall in HA. auto. }
  unfold ascii_ident in *. rewrite forallb_forall in *. intros x Hx. rewrite <- lower_ident_char. apply H2. now apply in_map.
Qed.

(* ---- escaping ---- *)
Theorem escape_keyword s : is_keyword s = true -> escape s = bq :: s ++ [bq].
Proof. unfold escape. now intros ->. Qed.
Theorem escape_other s : is_keyword s = false -> escape s = s.
Proof. unfold escape. now intros ->. Qed.
