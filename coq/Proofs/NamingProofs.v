(* Proofs about Model/Naming.v (C09, identifier part of C02). *)
From Coq Require Import List Ascii String Bool Arith Lia.
From SV Require Import Lib.Str Gen.Tables Model.Naming Proofs.TypesProofs.
Import ListNotations.

Definition is_us (c : ascii) : bool := Ascii.eqb c us.
Definition no_us (s : str) : bool := forallb (fun c => negb (is_us c)) s.
Definition remove_us (s : str) : str := filter (fun c => negb (is_us c)) s.

Theorem convert_off c n : convert false c n = n.
Proof. unfold convert. now rewrite orb_true_r. Qed.

Theorem convert_single_underscore nc c : convert nc c US = US.
Proof. unfold convert. cbn. reflexivity. Qed.

Theorem convert_kept nc c name : keeps name = true -> convert nc c name = name.
Proof. unfold convert. now intros ->. Qed.

(* ---- split ---- *)
Lemma split_ch_nonempty c s : split_ch c s <> [].
Proof. induction s as [|x r IH]; cbn; [discriminate|]. destruct (Ascii.eqb x c); [discriminate|]. destruct (split_ch c r); discriminate. Qed.

Lemma no_us_cons c p : no_us (c :: p) = negb (is_us c) && no_us p.
Proof. reflexivity. Qed.

Lemma split_us_no_us s : Forall (fun p => no_us p = true) (split_ch us s).
Proof.
  induction s as [|c r IH]; cbn.
  - constructor; [reflexivity|constructor].
  - destruct (Ascii.eqb c us) eqn:E.
    + constructor; [reflexivity|exact IH].
    + assert (Hc : negb (is_us c) = true) by (unfold is_us; now rewrite E).
      destruct (split_ch us r) as [|p ps].
      * repeat constructor. now rewrite no_us_cons, Hc.
      * inversion IH as [|? ? Hp Hps]; subst. constructor; [now rewrite no_us_cons, Hc, Hp|exact Hps].
Qed.

Lemma concat_split_us s : List.concat (split_ch us s) = remove_us s.
Proof.
  induction s as [|c r IH]; cbn; [reflexivity|]. unfold is_us. destruct (Ascii.eqb c us) eqn:E; cbn.
  - exact IH.
  - destruct (split_ch us r) as [|p ps] eqn:Es; [now apply split_ch_nonempty in Es|]. cbn in *. now rewrite IH.
Qed.

(* ---- upper / lower on bytes ---- *)
Lemma upper_not_us c : is_us c = false -> is_us (upper c) = false.
Proof.
  unfold upper, is_lower, is_us, us. intros H.
  destruct c as [[] [] [] [] [] [] [] []]; cbn in *; try reflexivity; try discriminate.
Qed.

Lemma lower_upper c : lower (upper c) = lower c.
Proof. destruct c as [[] [] [] [] [] [] [] []]; reflexivity. Qed.

Lemma upper_not_lower c : is_lower (upper c) = false.
Proof. destruct c as [[] [] [] [] [] [] [] []]; reflexivity. Qed.

Lemma upper_ident_char c : is_ident_char c = true -> is_ident_char (upper c) = true.
Proof. destruct c as [[] [] [] [] [] [] [] []]; cbn; intro H; try reflexivity; try discriminate. Qed.

Lemma cap_no_us p : no_us p = true -> no_us (cap p) = true.
Proof.
  destruct p as [|c r]; cbn; [easy|]. intros H. apply andb_true_iff in H as [Hc Hr].
  rewrite Hr, andb_true_r. apply negb_true_iff in Hc. now rewrite upper_not_us.
Qed.

Lemma forallb_concat {X} (f : X -> bool) (ls : list (list X)) :
  Forall (fun l => forallb f l = true) ls -> forallb f (List.concat ls) = true.
Proof. induction 1 as [|l r Hl _ IH]; cbn; [reflexivity|]. rewrite forallb_app. now rewrite Hl, IH. Qed.

Lemma caps_no_us l :
  Forall (fun p => no_us p = true) l -> Forall (fun p => no_us p = true) (map cap (filter nonempty l)).
Proof.
  induction 1 as [|p ps Hp _ IH]; cbn; [constructor|].
  destruct (nonempty p); [constructor; [now apply cap_no_us|exact IH]|exact IH].
Qed.

(* 1. the converted name contains no underscore (unless the name is the single underscore) *)
Theorem convert_no_underscore c name :
  keeps name = false -> no_us (convert true c name) = true.
Proof.
  intros H1. unfold convert. rewrite H1. cbn [orb negb].
  set (parts := split_ch us _).
  pose proof (split_us_no_us (cleaned_of name)) as HP. fold parts in HP.
  destruct c.
  - apply forallb_concat, caps_no_us, HP.
  - destruct parts as [|p0 ps]; [reflexivity|]. inversion HP as [|? ? H0 Hps]; subst. unfold no_us. rewrite forallb_app.
    fold (no_us p0). rewrite H0. cbn. apply forallb_concat, caps_no_us. assumption.
Qed.

(* 2. letters and digits are kept, in order: modulo case, the result is the name without its underscores *)
Lemma map_lower_cap p : map lower (cap p) = map lower p.
Proof. destruct p as [|c r]; cbn; [reflexivity|]. now rewrite lower_upper. Qed.

Lemma concat_caps_lower l :
  map lower (List.concat (map cap (filter nonempty l))) = map lower (List.concat l).
Proof.
  induction l as [|p ps IH]; cbn; [reflexivity|]. destruct p as [|c r]; cbn; [exact IH|].
  rewrite !map_app, IH. cbn. now rewrite lower_upper.
Qed.

Lemma lstrip_us_remove s : remove_us (lstrip_chars US s) = remove_us s.
Proof.
  induction s as [|c r IH]; cbn; [reflexivity|]. unfold is_us. rewrite orb_false_r.
  destruct (Ascii.eqb c us) eqn:E; cbn; [exact IH|]. unfold is_us. now rewrite E.
Qed.

Lemma remove_us_rev s : remove_us (rev s) = rev (remove_us s).
Proof.
  unfold remove_us. induction s as [|c r IH]; cbn; [reflexivity|]. rewrite filter_app, IH. cbn.
  destruct (negb (is_us c)); cbn; [reflexivity|now rewrite app_nil_r].
Qed.

Lemma rstrip_us_remove s : remove_us (rstrip_chars US s) = remove_us s.
Proof. unfold rstrip_chars. now rewrite remove_us_rev, lstrip_us_remove, remove_us_rev, rev_involutive. Qed.

Theorem convert_keeps_letters c name :
  keeps name = false ->
  map lower (convert true c name) = map lower (remove_us name).
Proof.
  intros H1. unfold convert. rewrite H1. cbn [orb negb].
  rewrite <- (lstrip_us_remove name), <- (rstrip_us_remove (lstrip_chars US name)), <- concat_split_us.
  fold (cleaned_of name).
  set (parts := split_ch us _).
  destruct c.
  - apply concat_caps_lower.
  - destruct parts as [|p0 ps]; [reflexivity|]. cbn. rewrite !map_app. f_equal. apply concat_caps_lower.
Qed.

(* 3. class names start with a non-lower-case character *)
Theorem convert_class_upper name c r :
  keeps name = false -> convert true true name = c :: r -> is_lower c = false.
Proof.
  intros H1. unfold convert. rewrite H1. cbn [orb negb].
  generalize (split_ch us (cleaned_of name)). intros l.
  induction l as [|p ps IH]; cbn; [discriminate|].
  destruct p as [|x xs]; cbn; [exact IH|]. intros E. inversion E; subst. apply upper_not_lower.
Qed.

(* 4. a character is only ever changed into its own upper case *)
Theorem convert_length name c :
  keeps name = false -> List.length (convert true c name) = List.length (remove_us name).
Proof.
  intros H. rewrite <- (map_length lower), (convert_keeps_letters c name H). apply map_length.
Qed.

(* identifiers stay identifiers character-wise *)
Lemma forallb_filter {X} (f g : X -> bool) l : forallb f l = true -> forallb f (filter g l) = true.
Proof. induction l as [|x r IH]; cbn; [easy|]. intros H. apply andb_true_iff in H as [H1 H2]. destruct (g x); cbn; rewrite ?H1; auto. Qed.

Lemma lower_ident_char c : is_ident_char (lower c) = is_ident_char c.
Proof. destruct c as [[] [] [] [] [] [] [] []]; reflexivity. Qed.

Theorem convert_ident_chars nc c name : ascii_ident name = true -> ascii_ident (convert nc c name) = true.
Proof.
  intros HA. destruct nc; [|now rewrite convert_off].
  destruct (keeps name) eqn:E; [unfold convert; now rewrite E|].
  pose proof (convert_keeps_letters c name E) as HL.
  assert (H2 : ascii_ident (map lower (convert true c name)) = true).
  { rewrite HL. unfold ascii_ident. rewrite forallb_forall. intros x Hx. apply in_map_iff in Hx as (y & <- & Hy).
    rewrite lower_ident_char. apply filter_In in Hy as [Hy _]. unfold ascii_ident in HA. rewrite forallb_forall in HA. auto. }
  unfold ascii_ident in *. rewrite forallb_forall in *. intros x Hx. rewrite <- lower_ident_char. apply H2. now apply in_map.
Qed.

(* ---- escaping ---- *)
Theorem escape_keyword s : is_keyword s = true -> escape s = bq :: s ++ [bq].
Proof. unfold escape. now intros ->. Qed.
Theorem escape_other s : is_keyword s = false -> escape s = s.
Proof. unfold escape. now intros ->. Qed.

(* ---- the converted name is a legal identifier (non-empty, does not start with a digit) ---- *)
Lemma lstrip_app_last l c : is_us c = false -> lstrip_chars US (l ++ [c]) = lstrip_chars US l ++ [c].
Proof.
  intro Hc. induction l as [|x r IH]; cbn.
  - unfold is_us in Hc. now rewrite Hc.
  - destruct (Ascii.eqb x us || false); [exact IH|reflexivity].
Qed.

Lemma rstrip_cons c r : is_us c = false -> rstrip_chars US (c :: r) = c :: rstrip_chars US r.
Proof. intro Hc. unfold rstrip_chars. cbn [rev]. rewrite lstrip_app_last by exact Hc. rewrite rev_app_distr. reflexivity. Qed.

Lemma lstrip_head s c r : lstrip_chars US s = c :: r -> is_us c = false.
Proof.
  induction s as [|x t IH]; cbn; [discriminate|]. rewrite orb_false_r. destruct (Ascii.eqb x us) eqn:E; [exact IH|].
  intro H. inversion H; subst. exact E.
Qed.

Lemma lstrip_suffix_chars s : forall x, In x (lstrip_chars US s) -> In x s.
Proof.
  induction s as [|c r IH]; cbn; [tauto|]. destruct (Ascii.eqb c us || false); intros x Hx; [right; now apply IH|exact Hx].
Qed.

Lemma cleaned_head name c r : cleaned_of name = c :: r -> is_us c = false /\ In c name.
Proof.
  unfold cleaned_of. destruct (lstrip_chars US name) as [|x t] eqn:E.
  - cbn. discriminate.
  - pose proof (lstrip_head _ _ _ E) as Hx. rewrite rstrip_cons by exact Hx. intro H. inversion H; subst.
    split; [exact Hx|]. apply lstrip_suffix_chars. rewrite E. now left.
Qed.

Lemma split_head c r : is_us c = false -> exists p ps, split_ch us (c :: r) = (c :: p) :: ps.
Proof.
  intro Hc. cbn. unfold is_us in Hc. rewrite Hc. destruct (split_ch us r) as [|p ps]; [exists [], []|exists p, ps]; reflexivity.
Qed.

Lemma start_upper c : is_ident_char c = true -> is_us c = false -> is_digit c = false -> is_ident_start (upper c) = true /\ is_ident_start c = true.
Proof. destruct c as [[] [] [] [] [] [] [] []]; cbn; intros H1 H2 H3; try discriminate; split; reflexivity. Qed.

Theorem convert_is_ident nc c name : is_ident name = true -> is_ident (convert nc c name) = true.
Proof.
  intro HI.
  assert (HA : ascii_ident name = true).
  { destruct name as [|x r]; [discriminate|]. cbn in HI |- *. apply andb_true_iff in HI as [H1 H2]. rewrite H2, andb_true_r.
    unfold is_ident_char. now rewrite H1. }
  destruct nc; [|now rewrite convert_off].
  destruct (keeps name) eqn:EK; [now rewrite convert_kept|].
  pose proof (convert_ident_chars true c name HA) as HC.
  unfold keeps in EK. apply orb_false_iff in EK as [_ EK].
  destruct (cleaned_of name) as [|c0 rest] eqn:ECl; [discriminate|].
  destruct (cleaned_head _ _ _ ECl) as [Hus Hin].
  assert (Hid : is_ident_char c0 = true) by (unfold ascii_ident in HA; rewrite forallb_forall in HA; auto).
  destruct (start_upper c0 Hid Hus EK) as [HU HS].
  destruct (split_head c0 rest Hus) as (p & ps & ESp).
  assert (HF : exists tl, convert true c name = (if c then upper c0 else c0) :: tl).
  { unfold convert, keeps. rewrite ECl, EK. 
    replace (str_eqb name US) with false.
    2:{ destruct (str_eqb name US) eqn:E; [|reflexivity]. apply str_eqb_eq in E. subst. cbn in ECl. discriminate. }
    cbn [orb negb]. rewrite ESp. destruct c; cbn; eexists; reflexivity. }
  destruct HF as (tl & EF). rewrite EF in HC |- *. cbn in HC |- *. apply andb_true_iff in HC as [_ HT]. rewrite HT, andb_true_r.
  destruct c; assumption.
Qed.
