(* Counter(a) == Counter(b) for an equality that is an equivalence on a domain D: it is the same as "a and b can be
   paired up by equal elements", hence symmetric and transitive.  Generic in the element type (used for API types, for
   literals and for hash keys). *)
From Coq Require Import List Bool Arith Lia Permutation.
From SV Require Import Lib.Str Model.Types Proofs.TypesProofs.
Import ListNotations.

Section Counter.
  Context {T : Type} (eqb : T -> T -> bool) (D : T -> Prop).
  Hypothesis e_refl : forall x, D x -> eqb x x = true.
  Hypothesis e_sym : forall x y, D x -> D y -> eqb x y = eqb y x.
  Hypothesis e_trans : forall x y z, D x -> D y -> D z -> eqb x y = true -> eqb y z = true -> eqb x z = true.

  Lemma eqb_congr z x y : D x -> D y -> D z -> eqb x y = true -> eqb z x = eqb z y.
  Proof.
    intros Dx Dy Dz E. destruct (eqb z x) eqn:E1.
    - symmetry. eapply e_trans; eauto.
    - destruct (eqb z y) eqn:E2; [|reflexivity]. rewrite <- E1.
      apply (e_trans z y x); auto. rewrite e_sym; auto.
  Qed.

  Lemma eqb_congr_l z x y : D x -> D y -> D z -> eqb x y = true -> eqb x z = eqb y z.
  Proof. intros Dx Dy Dz E. rewrite (e_sym x z), (e_sym y z) by auto. now apply eqb_congr. Qed.

  Lemma count_congr x y l : D x -> D y -> Forall D l -> eqb x y = true -> count_pred (eqb x) l = count_pred (eqb y) l.
  Proof.
    intros Dx Dy HF E. induction HF as [|z r Dz _ IH]; cbn; [reflexivity|]. now rewrite IH, (eqb_congr_l z x y).
  Qed.

  Lemma count_pos_exists (p : T -> bool) l : 0 < count_pred p l -> exists y, In y l /\ p y = true.
  Proof.
    induction l as [|z r IH]; cbn; [lia|]. destruct (p z) eqn:E; [exists z; auto|].
    intro H. destruct (IH H) as (y & Hy & Py). exists y; auto.
  Qed.

  (* a and b can be paired up by equal elements *)
  Definition Matches (a b : list T) : Prop := exists b0, Permutation b b0 /\ Forall2 (fun x y => eqb x y = true) a b0.

  Definition counter2 (a b : list T) : Prop :=
    List.length a = List.length b /\ forall z, In z a -> count_pred (eqb z) a = count_pred (eqb z) b.

  Lemma counter_eqb_counter2 a b : counter_eqb eqb a b = true <-> counter2 a b.
  Proof.
    unfold counter_eqb, counter2, count_of. rewrite andb_true_iff, Nat.eqb_eq, forallb_forall.
    split; intros [H1 H2]; split; auto; intros z Hz; specialize (H2 z Hz); now apply Nat.eqb_eq.
  Qed.

  Lemma counter2_matches : forall a b, Forall D a -> Forall D b -> counter2 a b -> Matches a b.
  Proof.
    induction a as [|x a' IH]; intros b Da Db [Hl Hc].
    - destruct b; [|discriminate]. exists []. split; constructor.
    - inversion Da as [|? ? Dx Da']; subst.
      assert (Hpos : 0 < count_pred (eqb x) b).
      { rewrite <- (Hc x (or_introl eq_refl)). cbn. rewrite e_refl by assumption. lia. }
      destruct (count_pos_exists _ _ Hpos) as (y & Hy & Exy).
      destruct (in_split _ _ Hy) as (b1 & b2 & ->).
      assert (HP : Permutation (b1 ++ y :: b2) (y :: b1 ++ b2)) by (symmetry; apply Permutation_middle).
      assert (Dy : D y) by (rewrite Forall_forall in Db; auto).
      assert (Db' : Forall D (b1 ++ b2)).
      { apply Forall_forall. intros z Hz. rewrite Forall_forall in Db. apply Db. apply in_app_iff in Hz. apply in_app_iff.
        destruct Hz; [now left|right; now right]. }
      assert (HC' : counter2 a' (b1 ++ b2)).
      { split.
        - rewrite app_length in *. cbn in Hl. lia.
        - intros z Hz. assert (Dz : D z) by (rewrite Forall_forall in Da'; auto).
          specialize (Hc z (or_intror Hz)). rewrite (count_pred_perm _ _ _ HP) in Hc. cbn in Hc.
          rewrite (eqb_congr z x y) in Hc by assumption. lia. }
      destruct (IH _ Da' Db' HC') as (b0 & HP0 & HF0).
      exists (y :: b0). split; [|constructor; assumption].
      etransitivity; [exact HP|]. now constructor.
  Qed.

  Lemma forall2_count z a b0 : D z -> Forall D a -> Forall D b0 -> Forall2 (fun x y => eqb x y = true) a b0 ->
    count_pred (eqb z) a = count_pred (eqb z) b0.
  Proof.
    intros Dz Da Db HF. induction HF as [|x y a' b' E _ IH]; [reflexivity|].
    inversion Da; inversion Db; subst. cbn. rewrite (eqb_congr z x y) by assumption. rewrite IH by assumption. reflexivity.
  Qed.

  Lemma forall2_len {U V} (R : U -> V -> Prop) l m : Forall2 R l m -> List.length l = List.length m.
  Proof. induction 1; cbn; congruence. Qed.

  Lemma matches_counter2 a b : Forall D a -> Forall D b -> Matches a b -> counter2 a b /\ counter2 b a.
  Proof.
    intros Da Db (b0 & HP & HF).
    assert (Db0 : Forall D b0).
    { apply Forall_forall. intros z Hz. rewrite Forall_forall in Db. apply Db. eapply Permutation_in; [symmetry; exact HP|exact Hz]. }
    assert (Hlen : List.length a = List.length b) by (rewrite (forall2_len _ _ _ HF); symmetry; now apply Permutation_length).
    split; split; auto.
    - intros z Hz. assert (Dz : D z) by (rewrite Forall_forall in Da; auto).
      rewrite (count_pred_perm _ _ _ HP). now apply forall2_count.
    - intros z Hz. assert (Dz : D z) by (rewrite Forall_forall in Db; auto).
      rewrite (count_pred_perm _ _ _ HP). symmetry. now apply forall2_count.
  Qed.

  Theorem counter_eqb_sym a b : Forall D a -> Forall D b -> counter_eqb eqb a b = counter_eqb eqb b a.
  Proof.
    intros Da Db. destruct (counter_eqb eqb a b) eqn:E1.
    - symmetry. apply counter_eqb_counter2. apply counter_eqb_counter2 in E1.
      now apply (matches_counter2 a b Da Db (counter2_matches a b Da Db E1)).
    - destruct (counter_eqb eqb b a) eqn:E2; [|reflexivity]. rewrite <- E1.
      apply counter_eqb_counter2. apply counter_eqb_counter2 in E2.
      now apply (matches_counter2 b a Db Da (counter2_matches b a Db Da E2)).
  Qed.

  (* pairing composes *)
  Lemma forall2_perm_transport (R : T -> T -> Prop) : forall l l', Permutation l l' ->
    forall m, Forall2 R l m -> exists m', Permutation m m' /\ Forall2 R l' m'.
  Proof.
    induction 1 as [|x l l' _ IH|x y l|l l' l'' _ IH1 _ IH2]; intros m HF.
    - inversion HF; subst. exists []. split; constructor.
    - inversion HF as [|? z ? mr Rxz HFr]; subst. destruct (IH _ HFr) as (m' & HP & HF').
      exists (z :: m'). split; [now constructor|now constructor].
    - inversion HF as [|? z1 ? mr R1 HFr]; subst. inversion HFr as [|? z2 ? mr2 R2 HFr2]; subst.
      exists (z2 :: z1 :: mr2). split; [apply perm_swap|repeat constructor; assumption].
    - destruct (IH1 _ HF) as (m1 & HP1 & HF1). destruct (IH2 _ HF1) as (m2 & HP2 & HF2).
      exists m2. split; [etransitivity; eassumption|assumption].
  Qed.

  Lemma matches_trans a b c : Forall D a -> Forall D b -> Forall D c -> Matches a b -> Matches b c -> Matches a c.
  Proof.
    intros Da Db Dc (b0 & HPb & HFab) (c0 & HPc & HFbc).
    destruct (forall2_perm_transport _ _ _ HPb _ HFbc) as (c1 & HPc1 & HFb0c1).
    exists c1. split; [etransitivity; eassumption|].
    assert (Db0 : Forall D b0).
    { apply Forall_forall. intros z Hz. rewrite Forall_forall in Db. apply Db. eapply Permutation_in; [symmetry; exact HPb|exact Hz]. }
    assert (Dc1 : Forall D c1).
    { apply Forall_forall. intros z Hz. rewrite Forall_forall in Dc. apply Dc.
      eapply Permutation_in; [symmetry; etransitivity; [exact HPc|exact HPc1]|exact Hz]. }
    clear -HFab HFb0c1 Da Db0 Dc1 e_trans. revert c1 HFb0c1 Dc1. induction HFab as [|x y a' b' E _ IH]; intros c1 HF Dc1.
    - inversion HF; constructor.
    - inversion HF as [|? z ? c' Eyz HF']; subst. inversion Da; inversion Db0; inversion Dc1; subst.
      constructor; [apply (e_trans x y z); assumption|apply IH; assumption].
  Qed.

  Theorem counter_eqb_trans a b c : Forall D a -> Forall D b -> Forall D c ->
    counter_eqb eqb a b = true -> counter_eqb eqb b c = true -> counter_eqb eqb a c = true.
  Proof.
    intros Da Db Dc H1 H2. apply counter_eqb_counter2. apply counter_eqb_counter2 in H1, H2.
    apply (matches_counter2 a c Da Dc).
    eapply matches_trans; [exact Da|exact Db|exact Dc|apply counter2_matches|apply counter2_matches]; assumption.
  Qed.

  Lemma counter_eqb_matches a b : Forall D a -> Forall D b -> counter_eqb eqb a b = true -> Matches a b.
  Proof. intros Da Db H. apply counter2_matches; auto. now apply counter_eqb_counter2. Qed.
End Counter.
