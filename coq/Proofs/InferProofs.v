(* C07: the results built from inferred return types cover every inferred type at its position:
   a named type in the first result, the k-th member of a tuple type in the k-th result (as the result type itself or as a
   member of its union).  By induction over the grouping loop of _create_inferred_results (rows only grow; a tuple member is
   put into the row of its index or a new row is appended at exactly that index). *)
From Coq Require Import List Ascii String Bool Arith Lia.
From SV Require Import Lib.Str Gen.Tables Model.Types Model.Api Model.View Model.Front Proofs.TypesProofs.
Import ListNotations.

Lemma mem_ty_app_l t a b : mem_ty t a = true -> mem_ty t (a ++ b) = true.
Proof. unfold mem_ty. rewrite existsb_app. intros ->. reflexivity. Qed.
Lemma mem_ty_snoc t a : mem_ty t (a ++ [t]) = true.
Proof. unfold mem_ty. rewrite existsb_app. cbn. rewrite py_eq_refl. rewrite orb_true_r. reflexivity. Qed.

Lemma set_nth_length {T} n (f : T -> T) l : List.length (list_set_nth n f l) = List.length l.
Proof. revert n. induction l as [|x r IH]; intros [|n]; cbn; auto. Qed.
Lemma set_nth_same {T} n (f : T -> T) l d : n < List.length l -> nth n (list_set_nth n f l) d = f (nth n l d).
Proof. revert n. induction l as [|x r IH]; intros [|n] H; cbn in *; try lia; auto. apply IH. lia. Qed.
Lemma set_nth_other {T} n m (f : T -> T) l d : n <> m -> nth m (list_set_nth n f l) d = nth m l d.
Proof. revert n m. induction l as [|x r IH]; intros [|n] [|m] H; cbn; auto; try congruence. Qed.

(* rows only grow *)
Definition grows (arr arr' : list (list ty)) : Prop :=
  List.length arr <= List.length arr' /\ forall j t, mem_ty t (nth j arr []) = true -> mem_ty t (nth j arr' []) = true.
Lemma grows_refl a : grows a a.
Proof. split; auto. Qed.
Lemma grows_trans a b c : grows a b -> grows b c -> grows a c.
Proof. intros [L1 M1] [L2 M2]. split; [lia|auto]. Qed.

Lemma grows_set_nth i t arr : i < List.length arr -> grows arr (list_set_nth i (fun ro => ro ++ [t]) arr).
Proof.
  intro H. split; [rewrite set_nth_length; lia|]. intros j x Hx. destruct (Nat.eq_dec i j) as [<-|N].
  - rewrite set_nth_same by exact H. apply mem_ty_app_l. exact Hx.
  - rewrite set_nth_other by exact N. exact Hx.
Qed.
Lemma grows_snoc arr row : grows arr (arr ++ [row]).
Proof.
  split; [rewrite app_length; cbn; lia|]. intros j x Hx. destruct (Nat.lt_ge_cases j (List.length arr)) as [L|G].
  - rewrite app_nth1 by exact L. exact Hx.
  - rewrite (nth_overflow arr) in Hx by exact G. discriminate.
Qed.

Lemma place_tuple_covers items : forall i arr longest arr' l',
  place_tuple items i arr longest = (arr', l') -> i <= List.length arr ->
  grows arr arr' /\ forall k x, nth_error items k = Some x -> mem_ty x (nth (i + k) arr' []) = true.
Proof.
  induction items as [|t r IH]; intros i arr longest arr' l' H Hi; cbn [place_tuple] in H.
  - inversion H; subst. split; [apply grows_refl|]. intros [|k] x E; discriminate E.
  - destruct (i <? List.length arr) eqn:LT.
    + apply Nat.ltb_lt in LT. destruct (mem_ty t (nth i arr [])) eqn:MT.
      * destruct (IH _ _ _ _ _ H ltac:(lia)) as [G C]. split; [exact G|].
        intros [|k] x E; cbn in E.
        -- inversion E; subst. rewrite Nat.add_0_r. apply G. exact MT.
        -- replace (i + S k) with (S i + k) by lia. apply C. exact E.
      * destruct (IH _ _ _ _ _ H ltac:(rewrite set_nth_length; lia)) as [G C].
        pose proof (grows_set_nth i t arr LT) as G0. split; [eapply grows_trans; eassumption|].
        intros [|k] x E; cbn in E.
        -- inversion E; subst. rewrite Nat.add_0_r. apply G. rewrite set_nth_same by exact LT. apply mem_ty_snoc.
        -- replace (i + S k) with (S i + k) by lia. apply C. exact E.
    + apply Nat.ltb_ge in LT. assert (i = List.length arr) by lia. subst i.
      destruct (IH _ _ _ _ _ H ltac:(rewrite app_length; cbn; lia)) as [G C].
      split; [eapply grows_trans; [apply grows_snoc|exact G]|].
      intros [|k] x E; cbn in E.
      * inversion E; subst. rewrite Nat.add_0_r. apply G. rewrite app_nth2 by lia. rewrite Nat.sub_diag. cbn [nth]. unfold mem_ty. cbn [existsb].
        rewrite py_eq_refl. reflexivity.
      * replace (List.length arr + S k) with (S (List.length arr) + k) by lia. apply C. exact E.
Qed.

(* what one inferred type asks of the rows *)
Definition row_covers (arr : list (list ty)) (t : ty) : Prop :=
  match t with
  | TNamed _ _ => mem_ty t (nth 0 arr []) = true
  | TTuple items => forall k x, nth_error items k = Some x -> mem_ty x (nth k arr []) = true
  | _ => True
  end.

Lemma row_covers_grows arr arr' t : grows arr arr' -> row_covers arr t -> row_covers arr' t.
Proof. intros [_ M] H. destruct t; cbn in *; auto. Qed.

Lemma build_array_covers types : forall arr longest arr' l',
  build_array types arr longest = Ok (arr', l') -> grows arr arr' /\ Forall (row_covers arr') types.
Proof.
  induction types as [|t r IH]; intros arr longest arr' l' H; cbn [build_array] in H.
  - inversion H; subst. split; [apply grows_refl|constructor].
  - destruct t; try discriminate.
    + (* a named type goes to the first row *)
      destruct arr as [|row rest].
      * destruct (IH _ _ _ _ H) as [G C]. split; [split; [cbn; lia|intros j x Hx; destruct j; discriminate Hx]|].
        constructor; [|exact C]. cbn [row_covers]. apply G. cbn [nth]. unfold mem_ty. cbn [existsb]. rewrite py_eq_refl. reflexivity.
      * destruct (IH _ _ _ _ H) as [G C].
        assert (G0 : grows (row :: rest) ((row ++ [TNamed name qname]) :: rest)).
        { split; [cbn; lia|]. intros [|j] x Hx; cbn in *; [apply mem_ty_app_l; exact Hx|exact Hx]. }
        split; [eapply grows_trans; eassumption|]. constructor; [|exact C]. cbn [row_covers]. apply G. cbn [nth]. apply mem_ty_snoc.
    + (* a tuple: member k to row k *)
      destruct (place_tuple ts 0 arr longest) as [arr1 l1] eqn:PT.
      destruct (place_tuple_covers _ _ _ _ _ _ PT ltac:(lia)) as [G0 C0].
      destruct (IH _ _ _ _ H) as [G C]. split; [eapply grows_trans; eassumption|].
      constructor; [|exact C]. cbn. intros k x E. apply G. exact (C0 k x E).
Qed.

(* a result type covers t: it is t, or a union that has t among its members (equality of the model: py_eq) *)
Definition covers (rt : option ty) (t : ty) : Prop :=
  exists x, rt = Some x /\ (py_eq t x = true \/ exists row, x = TUnion row /\ mem_ty t row = true).

Lemma row_type_covers row t : mem_ty t row = true -> covers (Some (match row with [x] => x | _ => TUnion row end)) t.
Proof.
  intro H. eexists. split; [reflexivity|]. destruct row as [|x [|y r]].
  - discriminate H.
  - left. cbn in H. rewrite orb_false_r in H. exact H.
  - right. eexists. split; [reflexivity|exact H].
Qed.

Lemma inferred_rows_nth fid docs_ rows : forall k j row,
  nth_error rows j = Some row ->
  exists r, nth_error (inferred_rows fid docs_ rows k) j = Some r /\
            r_type r = Some (match row with [x] => x | _ => TUnion row end).
Proof.
  induction rows as [|r0 rest IH]; intros k j row E; [destruct j; discriminate E|].
  cbn [inferred_rows].
  match goal with |- context [pick_name ?d k] => destruct (pick_name d k) as [name k'] end.
  destruct j as [|j]; cbn in E |- *.
  - inversion E; subst. eexists. split; [reflexivity|reflexivity].
  - apply IH. exact E.
Qed.

Lemma nth_map_pad (arr : list (list ty)) longest j d :
  j < List.length arr ->
  nth_error (map (fun row => if (List.length row <? longest) && negb (mem_ty none_named row) then row ++ [none_named] else row) arr) j
  = Some (let row := nth j arr d in if (List.length row <? longest) && negb (mem_ty none_named row) then row ++ [none_named] else row).
Proof. intro H. rewrite nth_error_map. rewrite (nth_error_nth' arr d H). reflexivity. Qed.

Theorem inferred_results_cover fid types docs_ rs :
  create_inferred_results fid types docs_ = Ok rs ->
  Forall (fun t => match t with
                   | TNamed _ _ => exists r, nth_error rs 0 = Some r /\ covers (r_type r) t
                   | TTuple items => forall k x, nth_error items k = Some x -> exists r, nth_error rs k = Some r /\ covers (r_type r) x
                   | _ => True
                   end) types.
Proof.
  unfold create_inferred_results. destruct (build_array types [] 1) as [[arr longest]|] eqn:BA; cbn [bind]; [|discriminate].
  destruct (build_array_covers _ _ _ _ _ BA) as [_ C].
  set (pad := fun row : list ty => if (List.length row <? longest) && negb (mem_ty none_named row) then row ++ [none_named] else row).
  (* every position of the padded array still covers, and the result at that position has the row's type *)
  assert (POS : forall rs0, (match map pad arr, docs_ with
                             | [[t]], [d] => let '(name, _) := pick_name (Some d) 0 in Ok [mk_result fid name t]
                             | _, _ => Ok (inferred_rows fid docs_ (map pad arr) 0)
                             end) = Ok rs0 ->
                forall j x, mem_ty x (nth j arr []) = true -> exists r, nth_error rs0 j = Some r /\ covers (r_type r) x).
  { intros rs0 H j x Hx.
    assert (Hj : j < List.length arr).
    { destruct (Nat.lt_ge_cases j (List.length arr)) as [L|G]; [exact L|]. rewrite nth_overflow in Hx by exact G. discriminate. }
    assert (Hp : mem_ty x (pad (nth j arr [])) = true).
    { unfold pad. destruct (_ && _); [apply mem_ty_app_l|]; exact Hx. }
    assert (GEN : exists r, nth_error (inferred_rows fid docs_ (map pad arr) 0) j = Some r /\ covers (r_type r) x).
    { destruct (inferred_rows_nth fid docs_ (map pad arr) 0 j (pad (nth j arr []))) as (r & E & T).
      - rewrite nth_error_map, (nth_error_nth' arr [] Hj). reflexivity.
      - exists r. split; [exact E|]. rewrite T. apply row_type_covers. exact Hp. }
    destruct (map pad arr) as [|[|t [|t2 row]] [|r2 rest]] eqn:EM; try (inversion H; subst; exact GEN).
    destruct docs_ as [|d0 [|d1 dr]]; try (inversion H; subst; exact GEN).
    (* one row with one type and one docstring entry: the special case *)
    destruct (pick_name (Some d0) 0) as [name k']. inversion H; subst. clear H.
    destruct arr as [|a0 [|a1 ar]]; cbn in EM; try discriminate. inversion EM as [EP]. destruct j as [|j]; [|cbn in Hj; lia].
    cbn in Hp. rewrite EP in Hp. eexists. split; [reflexivity|]. cbn.
    eexists. split; [reflexivity|]. left. cbn in Hp. rewrite orb_false_r in Hp. exact Hp. }
  intro H. specialize (POS rs H). clear H BA.
  eapply Forall_impl; [|exact C]. intros t Ht. destruct t; try exact I; cbn in Ht; [apply POS; exact Ht|intros k x E; apply POS; exact (Ht k x E)].
Qed.

(* ---------- from the return statements to the inferred types ---------- *)
From Coq Require Import Permutation ZArith.
From SV Require Import Proofs.SortProofs Proofs.EqProofs.

Lemma nodup_by_repr (l : list ty) x : In x l -> exists y, In y (nodup_by py_eq l) /\ py_eq y x = true.
Proof.
  induction l as [|h r IH]; [intros []|]. intros [E|I]; cbn [nodup_by].
  - subst. exists x. split; [left; reflexivity|apply py_eq_refl].
  - destruct (IH I) as (y & Hy & Ey). destruct (py_eq h y) eqn:HY.
    + exists h. split; [left; reflexivity|]. eapply py_eq_trans; eassumption.
    + exists y. split; [right; apply filter_In; split; [exact Hy|rewrite HY; reflexivity]|exact Ey].
Qed.

Lemma mapM_In {X Y} (f : X -> res Y) l ys x y : mapM f l = Ok ys -> In x l -> f x = Ok y -> In y ys.
Proof.
  revert ys. induction l as [|h r IH]; [intros ys H []|]. intros ys H [E|I] F; cbn [mapM bind] in H.
  - subst. rewrite F in H. cbn [bind] in H. destruct (mapM f r); [|discriminate]. cbn in H. inversion H. left. reflexivity.
  - destruct (f h); [|discriminate]. cbn [bind] in H. destruct (mapM f r) as [ys'|] eqn:M; [|discriminate]. cbn in H. inversion H.
    right. eapply IH; [reflexivity|exact I|exact F].
Qed.

(* every type a return expression contributes is represented (up to the model's equality of types) among the inferred types *)
Theorem returns_are_represented body ts e tys t :
  infer_from_returns body = Ok (Some (TTuple ts)) ->
  In (Some e) (find_returns_list body) -> return_types e = Ok tys -> In t tys ->
  exists t', In t' ts /\ py_eq t' t = true.
Proof.
  unfold infer_from_returns. intros H HI HR HT.
  destruct (find_returns_list body) as [|r0 rets] eqn:FR; [destruct HI|].
  destruct (mapM _ (r0 :: rets)) as [tss|] eqn:M; cbn [bind] in H; [|discriminate]. inversion H; subst; clear H.
  assert (IC : In t (List.concat tss)).
  { apply in_concat. exists tys. split; [|exact HT]. eapply mapM_In; [exact M|exact HI|exact HR]. }
  destruct (nodup_by_repr _ _ IC) as (y & Hy & Ey). exists y. split; [|exact Ey].
  eapply Permutation_in; [apply Permutation_sym, isort_perm|exact Hy].
Qed.

(* a named type that some return statement produces is covered by the first result *)
Theorem returned_named_type_covered body ts fid docs_ rs e tys n q :
  infer_from_returns body = Ok (Some (TTuple ts)) -> create_inferred_results fid ts docs_ = Ok rs ->
  In (Some e) (find_returns_list body) -> return_types e = Ok tys -> In (TNamed n q) tys ->
  exists r, nth_error rs 0 = Some r /\ covers (r_type r) (TNamed n q).
Proof.
  intros HI HC HE HR HT. destruct (returns_are_represented _ _ _ _ _ HI HE HR HT) as (t' & In' & E').
  pose proof (inferred_results_cover _ _ _ _ HC) as F. rewrite Forall_forall in F. specialize (F t' In').
  destruct t'; try (cbn [py_eq] in E'; discriminate E').
  destruct F as (r & N & (x & RX & C)). exists r. split; [exact N|]. exists x. split; [exact RX|].
  rewrite py_eq_sym in E'. destruct C as [C|(row & -> & M)].
  - left. eapply py_eq_trans; eassumption.
  - right. exists row. split; [reflexivity|]. unfold mem_ty in *. apply existsb_exists in M. destruct M as (z & Hz & Ez).
    apply existsb_exists. exists z. split; [exact Hz|]. eapply py_eq_trans; eassumption.
Qed.

(* position-wise coverage of tuple returns does NOT hold in general: two returned tuples that are equal up to order are one
   type for the tool (the recorded finding tuple_returns_equal_up_to_order): the first result is Int although the second
   return statement produces a string at the first position *)
Definition refute_body : list bstmt :=
  [BRet (Some (ETuple [EInt 1%Z; EStr (K"a")])); BRet (Some (ETuple [EStr (K"a"); EInt 1%Z]))].
Definition refute_ts : list ty :=
  Eval vm_compute in match infer_from_returns refute_body with Ok (Some (TTuple ts)) => ts | _ => [] end.
Definition refute_rs : list result :=
  Eval vm_compute in match create_inferred_results (K"f") refute_ts [] with Ok rs => rs | _ => [] end.
Theorem tuple_position_coverage_refuted :
  infer_from_returns refute_body = Ok (Some (TTuple refute_ts)) /\ create_inferred_results (K"f") refute_ts [] = Ok refute_rs /\
  option_map r_type (nth_error refute_rs 0) = Some (Some (TNamed (K"int") (K"builtins.int"))) /\
  return_types (ETuple [EStr (K"a"); EInt 1%Z]) = Ok [TTuple [TNamed (K"str") (K"builtins.str"); TNamed (K"int") (K"builtins.int")]].
Proof. vm_compute. repeat split. Qed.
