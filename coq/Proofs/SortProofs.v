(* Sorting and de-duplication: sort_str (dedupe l) depends only on the set of elements of l. *)
From Coq Require Import List Ascii String Bool Arith Lia Permutation Sorting.Sorted.
From SV Require Import Lib.Str Proofs.TypesProofs.
Import ListNotations.
Local Arguments Nat.ltb : simpl never.
Local Arguments nat_of_ascii : simpl never.

(* ---------- the order on strings ---------- *)
Lemma str_leb_refl a : str_leb a a = true.
Proof. induction a as [|x a IH]; cbn; [reflexivity|]. rewrite Nat.ltb_irrefl. exact IH. Qed.

Lemma nat_of_ascii_inj x y : nat_of_ascii x = nat_of_ascii y -> x = y.
Proof. intro H. rewrite <- (ascii_nat_embedding x), <- (ascii_nat_embedding y). now rewrite H. Qed.

Lemma str_leb_total a b : str_leb a b = true \/ str_leb b a = true.
Proof.
  revert b; induction a as [|x a IH]; intros [|y b]; cbn; auto.
  destruct (nat_of_ascii x <? nat_of_ascii y) eqn:E1; [auto|].
  destruct (nat_of_ascii y <? nat_of_ascii x) eqn:E2; [auto|]. apply IH.
Qed.

Lemma str_leb_antisym a b : str_leb a b = true -> str_leb b a = true -> a = b.
Proof.
  revert b; induction a as [|x a IH]; intros [|y b]; cbn; try easy.
  destruct (nat_of_ascii x <? nat_of_ascii y) eqn:E1, (nat_of_ascii y <? nat_of_ascii x) eqn:E2; try easy.
  - apply Nat.ltb_lt in E1, E2. lia.
  - intros H1 H2. apply Nat.ltb_ge in E1, E2. assert (nat_of_ascii x = nat_of_ascii y) by lia.
    f_equal; [now apply nat_of_ascii_inj|now apply IH].
Qed.

Lemma str_leb_trans a b c : str_leb a b = true -> str_leb b c = true -> str_leb a c = true.
Proof.
  revert b c; induction a as [|x a IH]; intros [|y b] [|z c]; cbn; try easy.
  destruct (nat_of_ascii x <? nat_of_ascii y) eqn:E1, (nat_of_ascii y <? nat_of_ascii x) eqn:E1';
  destruct (nat_of_ascii y <? nat_of_ascii z) eqn:E2, (nat_of_ascii z <? nat_of_ascii y) eqn:E2';
  destruct (nat_of_ascii x <? nat_of_ascii z) eqn:E3, (nat_of_ascii z <? nat_of_ascii x) eqn:E3'; try easy;
  repeat match goal with
         | H : (_ <? _) = true |- _ => apply Nat.ltb_lt in H
         | H : (_ <? _) = false |- _ => apply Nat.ltb_ge in H
         end; try lia.
  apply IH.
Qed.

(* ---------- insertion sort ---------- *)
Section Sorting.
  Context {A : Type} (leb : A -> A -> bool).
  Hypothesis leb_total : forall a b, leb a b = true \/ leb b a = true.
  Hypothesis leb_trans : forall a b c, leb a b = true -> leb b c = true -> leb a c = true.
  Hypothesis leb_antisym : forall a b, leb a b = true -> leb b a = true -> a = b.

  Definition le (a b : A) : Prop := leb a b = true.

  Lemma insert_front_perm x l : Permutation (insert_front leb x l) (x :: l).
  Proof.
    induction l as [|y r IH]; cbn; [reflexivity|]. destruct (leb x y); [reflexivity|].
    rewrite IH. apply perm_swap.
  Qed.

  Lemma isort_perm l : Permutation (isort leb l) l.
  Proof. induction l as [|x r IH]; cbn; [reflexivity|]. rewrite insert_front_perm. now constructor. Qed.

  Lemma insert_front_sorted x l : Sorted le l -> Sorted le (insert_front leb x l).
  Proof.
    induction 1 as [|y r Hs IH Hhd]; cbn; [repeat constructor|].
    destruct (leb x y) eqn:E.
    - constructor; [constructor; assumption|constructor; exact E].
    - constructor; [exact IH|].
      assert (Hyx : le y x) by (destruct (leb_total x y); [congruence|assumption]).
      destruct r as [|z r']; cbn; [constructor; exact Hyx|].
      destruct (leb x z); constructor; [exact Hyx|]. inversion Hhd; assumption.
  Qed.

  Lemma isort_sorted l : Sorted le (isort leb l).
  Proof. induction l as [|x r IH]; cbn; [constructor|]. now apply insert_front_sorted. Qed.

  Lemma sorted_head_min x l : Sorted le (x :: l) -> forall y, In y l -> le x y.
  Proof.
    intro H. apply Sorted_StronglySorted in H; [|intros a b c; apply leb_trans].
    inversion H as [|? ? _ HF]; subst. rewrite Forall_forall in HF. exact HF.
  Qed.

  Lemma sorted_perm_eq l l' : Sorted le l -> Sorted le l' -> Permutation l l' -> l = l'.
  Proof.
    revert l'; induction l as [|x r IH]; intros l' H1 H2 HP.
    - apply Permutation_nil in HP. now subst.
    - destruct l' as [|y r']; [apply Permutation_sym, Permutation_nil in HP; discriminate|].
      assert (x = y).
      { assert (Hx : In x (y :: r')) by (eapply Permutation_in; [exact HP|now left]).
        assert (Hy : In y (x :: r)) by (eapply Permutation_in; [symmetry; exact HP|now left]).
        destruct Hx as [->|Hx]; [reflexivity|]. destruct Hy as [->|Hy]; [reflexivity|].
        apply leb_antisym; [exact (sorted_head_min _ _ H1 _ Hy)|exact (sorted_head_min _ _ H2 _ Hx)]. }
      subst y. f_equal. apply IH; [now inversion H1|now inversion H2|eapply Permutation_cons_inv; exact HP].
  Qed.

  Theorem isort_perm_invariant l l' : Permutation l l' -> isort leb l = isort leb l'.
  Proof.
    intro HP. apply sorted_perm_eq; try apply isort_sorted.
    rewrite (isort_perm l), (isort_perm l'). exact HP.
  Qed.
End Sorting.

Theorem sort_str_perm l l' : Permutation l l' -> sort_str l = sort_str l'.
Proof. apply isort_perm_invariant; [exact str_leb_total|exact str_leb_trans|exact str_leb_antisym]. Qed.

(* ---------- dedupe ---------- *)
Lemma mem_str_In x l : mem_str x l = true <-> In x l.
Proof. induction l as [|y r IH]; cbn; [easy|]. rewrite orb_true_iff, IH, str_eqb_eq. split; intros [H|H]; auto. Qed.

Lemma dedupe_In x l : In x (dedupe l) <-> In x l.
Proof.
  induction l as [|y r IH]; cbn; [easy|]. rewrite filter_In, IH, negb_true_iff. split.
  - intros [->|[H _]]; auto.
  - intros [->|H]; [auto|]. destruct (str_eqb y x) eqn:E; [left; now apply str_eqb_eq in E|right; auto].
Qed.

Lemma dedupe_NoDup l : NoDup (dedupe l).
Proof.
  induction l as [|y r IH]; cbn; [constructor|]. constructor.
  - rewrite filter_In, negb_true_iff, str_eqb_refl. intros [_ H]; discriminate.
  - now apply NoDup_filter.
Qed.

Theorem sort_dedupe_set l l' : (forall x, In x l <-> In x l') -> sort_str (dedupe l) = sort_str (dedupe l').
Proof.
  intro H. apply sort_str_perm. apply NoDup_Permutation; try apply dedupe_NoDup.
  intro x. now rewrite !dedupe_In.
Qed.

Corollary sort_dedupe_perm l l' : Permutation l l' -> sort_str (dedupe l) = sort_str (dedupe l').
Proof. intro HP. apply sort_dedupe_set. intro x. split; apply Permutation_in; [exact HP|symmetry; exact HP]. Qed.

Lemma sort_dedupe_dup x l : sort_str (dedupe (x :: x :: l)) = sort_str (dedupe (x :: l)).
Proof. apply sort_dedupe_set. intro y. cbn. tauto. Qed.
