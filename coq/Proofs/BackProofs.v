(* Proofs about Model/Back.v: monad inversion, the marker (TODO) discipline, name emission, parameters, types. *)
From Coq Require Import List Ascii String Bool Arith ZArith Lia Permutation.
From SV Require Import Lib.Str Gen.Tables Model.Types Model.Naming Model.Api Model.Back Proofs.TypesProofs Proofs.NamingProofs.
Import ListNotations.

(* ---------- monad inversion ---------- *)
Lemma mbind_inv {T U} (m : M T) (f : T -> M U) s y s2 :
  mbind m f s = Ok (y, s2) -> exists x s1, m s = Ok (x, s1) /\ f x s1 = Ok (y, s2).
Proof. unfold mbind. destruct (m s) as [[x s1]|e]; [eauto|discriminate]. Qed.

Lemma ret_inv {T} (x y : T) s s' : ret x s = Ok (y, s') -> y = x /\ s' = s.
Proof. unfold ret. intro H; inversion H; auto. Qed.

Lemma get_inv s x s' : get s = Ok (x, s') -> x = s /\ s' = s.
Proof. unfold get. intro H; inversion H; auto. Qed.

Lemma modify_inv f s x s' : modify f s = Ok (x, s') -> s' = f s.
Proof. unfold modify. intro H; inversion H; auto. Qed.

Ltac minv_all :=
  repeat match goal with
  | H : mbind _ _ _ = Ok _ |- _ => apply mbind_inv in H; destruct H as (? & ? & ? & ?)
  | H : ret _ _ = Ok _ |- _ => apply ret_inv in H; destruct H; subst
  | H : get _ = Ok _ |- _ => apply get_inv in H; destruct H; subst
  | H : modify _ _ = Ok _ |- _ => apply modify_inv in H; subst
  | H : fail _ _ = Ok _ |- _ => discriminate H
  end.

(* ---------- the pending-marker set ---------- *)
Section WithApi.
  Variable classes : list (str * cls).
  Variable reexport_map : list (str * list rmod).
  Variable nc : bool.

  Lemma create_todo_msg_clears indent s x s' :
    create_todo_msg indent s = Ok (x, s') -> g_todos s' = [].
  Proof.
    unfold create_todo_msg. destruct (g_todos s) eqn:E.
    - intro H; inversion H; subst; assumption.
    - destruct (mapM _ _); [|discriminate]. intro H; inversion H. reflexivity.
  Qed.

  (* with an empty pending set nothing is printed *)
  Lemma create_todo_msg_empty indent s : g_todos s = [] -> create_todo_msg indent s = Ok ([], s).
  Proof. unfold create_todo_msg. now intros ->. Qed.

  (* every key raised anywhere in the model has a message in the (regenerated) table: _create_todo_msg cannot fail *)
  Definition raisable_keys : list str :=
    [K"no tuple support"; K"no set support"; K"List"; K"Set"; K"OPT_POS_ONLY"; K"REQ_NAME_ONLY"; K"multiple_inheritance";
     K"variadic"; K"class_method"; K"param without type"; K"attr without type"; K"result without type";
     K"internal class as type"; K"unknown"; K"unknown value"].

  Definition is_ok {T} (r : res T) : bool := match r with Ok _ => true | Err _ => false end.

  Lemma raisable_keys_have_messages :
    forallb (fun k => is_ok (todo_lookup k t_todo_messages)) raisable_keys = true.
  Proof. vm_compute. reflexivity. Qed.

  (* the keys the model raises are exactly the keys the source raises (read off every _current_todo_msgs.add site) *)
  Definition source_raised_keys : list str :=
    t_raised_todo_literals ++ (match t_raised_todo_by_name_sites with O => [] | S _ => t_many_args_names end).
  Lemma model_raises_source_keys :
    forallb (fun k => mem_str k raisable_keys) source_raised_keys &&
    forallb (fun k => mem_str k source_raised_keys) raisable_keys = true.
  Proof. vm_compute. reflexivity. Qed.

  Lemma create_todo_msg_total indent s :
    Forall (fun k => In k raisable_keys) (g_todos s) -> exists x s', create_todo_msg indent s = Ok (x, s').
  Proof.
    intro HF. unfold create_todo_msg. destruct (g_todos s) as [|k ks] eqn:E; [eauto|].
    assert (HM : exists msgs, mapM (fun k => todo_lookup k t_todo_messages) (k :: ks) = Ok msgs).
    { clear E. induction HF as [|k0 r Hk _ IH]; [exists []; reflexivity|].
      destruct IH as (ms & Hms). pose proof raisable_keys_have_messages as HT. rewrite forallb_forall in HT.
      specialize (HT _ Hk). destruct (todo_lookup k0 t_todo_messages) as [m|] eqn:El; [|discriminate].
      exists (m :: ms). cbn [mapM]. rewrite El. cbn [bind]. rewrite Hms. reflexivity. }
    destruct HM as (ms & ->). eauto.
  Qed.

  (* ---------- C20: a rendered function / property leaves the pending set empty ---------- *)
  Ltac flushed :=
    match goal with
    | H : create_todo_msg _ ?s0 = Ok (_, ?s) |- g_todos ?s = [] => exact (create_todo_msg_clears _ _ _ _ H)
    end.

  Theorem function_string_flushes f indent is_method in_rx s x s' :
    function_string classes reexport_map nc f indent is_method in_rx s = Ok (x, s') ->
    x <> [] -> g_todos s' = [].
  Proof.
    unfold function_string. intros H Hx. minv_all.
    destruct (if negb is_method && negb in_rx then shorter_reexport _ _ _ else None) as [[bucket alias]|].
    - minv_all. congruence.
    - minv_all. flushed.
  Qed.

  Theorem property_string_flushes f indent s x s' :
    property_string classes reexport_map nc f indent s = Ok (x, s') -> g_todos s' = [].
  Proof. unfold property_string. intro H. minv_all. flushed. Qed.

  (* ---------- C09 / C02: name emission ---------- *)
  Theorem emit_name_annotation_iff c n : fst (emit_name nc c n) = None <-> convert nc c n = n.
  Proof.
    unfold emit_name. cbn. destruct (str_eqb (convert nc c n) n) eqn:E; split; intro H; try discriminate; try reflexivity.
    - now apply str_eqb_eq.
    - apply str_eqb_eq in H. congruence.
  Qed.

  Theorem emit_name_annotation_is_python_name c n x : fst (emit_name nc c n) = Some x -> x = n.
  Proof. unfold emit_name. cbn. destruct (str_eqb _ _); intro H; inversion H; reflexivity. Qed.

  Theorem emit_name_escaped c n : snd (emit_name nc c n) = escape (convert nc c n).
  Proof. reflexivity. Qed.

  (* the Python name is recoverable from what is emitted *)
  Definition unescape (s : str) : str :=
    match s with
    | c :: r => if Ascii.eqb c bq then removelast r else s
    | [] => []
    end.
  Definition python_name (e : option str * str) : str :=
    match fst e with Some n => n | None => unescape (snd e) end.

  Lemma removelast_app1 {X} (l : list X) x : removelast (l ++ [x]) = l.
  Proof. apply removelast_last. Qed.

  Lemma unescape_escape s : (match s with c :: _ => Ascii.eqb c bq | [] => false end) = false -> unescape (escape s) = s.
  Proof.
    unfold escape. destruct (is_keyword s).
    - intros _. unfold unescape. rewrite Ascii.eqb_refl. apply removelast_app1.
    - destruct s as [|c r]; [reflexivity|]. cbn. now intros ->.
  Qed.

  Theorem python_name_recoverable c n :
    (match n with ch :: _ => Ascii.eqb ch bq | [] => false end) = false -> python_name (emit_name nc c n) = n.
  Proof.
    intro Hn. unfold python_name. destruct (fst (emit_name nc c n)) eqn:E.
    - now apply emit_name_annotation_is_python_name in E.
    - apply emit_name_annotation_iff in E. rewrite emit_name_escaped, E. now apply unescape_escape.
  Qed.

  (* ---------- C06: parameters ---------- *)
  Theorem receiver_skip ps indent :
    parameter_string classes reexport_map nc ps indent true = parameter_string classes reexport_map nc (tl ps) indent false.
  Proof. reflexivity. Qed.

  Theorem param_fields_name p s f s' :
    param_fields classes reexport_map nc p s = Ok (f, s') ->
    let '(ann, nm, ts, v) := f in
    nm = escape (convert nc false (p_name p)) /\
    (ann = None <-> convert nc false (p_name p) = p_name p) /\
    (forall x, ann = Some x -> x = p_name p).
  Proof.
    unfold param_fields. intro H. minv_all. cbn.
    split; [reflexivity|]. split; [apply emit_name_annotation_iff|apply emit_name_annotation_is_python_name].
  Qed.

  (* a default is printed only for an optional, typed parameter; an untyped parameter never shows a default *)
  Theorem param_fields_default p s ann nm ts v s' :
    param_fields classes reexport_map nc p s = Ok ((ann, nm, ts, v), s') ->
    (v <> [] -> p_optional p = true /\ p_type p <> None) /\
    (p_optional p = true -> p_type p <> None -> exists d, v = K" = " ++ d).
  Proof.
    unfold param_fields. intro H. minv_all.
    match goal with H : (_, _, _, _) = (_, _, _, _) |- _ => inversion H; subst; clear H end.
    destruct (p_type p) as [t|].
    - destruct (p_optional p) eqn:Eo; minv_all; cbn.
      + split; [intros _; split; [reflexivity|discriminate]|]. intros _ _. eauto.
      + split; [intro C; now contradiction C|discriminate].
    - minv_all. cbn. split; [intro C; now contradiction C|]. intros _ C. now contradiction C.
  Qed.

  (* literal defaults are reproduced with their value *)
  Theorem render_default_literal p s d s' :
    render_default p s = Ok (d, s') ->
    match p_default p with
    | DBool b => d = if b then K"true" else K"false"
    | DNone => d = K"null"
    | DInt z => d = Z_dec z
    | DFloat r => d = r
    | DUnknown => d = K"unknown"
    | DStr x => d = requote_default x \/ (p_assigned p = POSITIONAL_VARARG /\ x = K"()" /\ d = K"[]")
    end.
  Proof.
    unfold render_default. destruct (p_default p) as [|x|b|z|r|]; intro H; try (minv_all; auto; fail).
    - destruct (p_assigned p); try (minv_all; auto; fail).
      destruct (str_eqb x (K"()")) eqn:E; minv_all; auto. right. apply str_eqb_eq in E. auto.
  Qed.


  (* ---------- C05: the rendered type text is a state-free, structural function of the type ---------- *)
  Lemma mmap_inv {T U} (f : T -> M U) (g : T -> U) (l : list T) :
    Forall (fun x => forall s y s', f x s = Ok (y, s') -> y = g x) l ->
    forall s ys s', mmap f l s = Ok (ys, s') -> ys = map g l.
  Proof.
    induction 1 as [|x r Hx _ IH]; intros s ys s' H; cbn in H.
    - minv_all. reflexivity.
    - minv_all. cbn. f_equal; eauto.
  Qed.

  Lemma seq_finish_str name types s x s' : seq_finish name types s = Ok (x, s') -> x = seq_str name types.
  Proof.
    unfold seq_finish, seq_str. destruct types; intro H; minv_all; reflexivity.
  Qed.

  Definition renders_tstr (t : ty) : Prop :=
    forall s x s', type_string classes reexport_map nc t s = Ok (x, s') -> x = tstr nc t.

  Lemma mmap_tstr ts : Forall renders_tstr ts ->
    forall s ys s', mmap (type_string classes reexport_map nc) ts s = Ok (ys, s') -> ys = map (tstr nc) ts.
  Proof. intros HF. eapply mmap_inv. eapply Forall_impl; [|exact HF]. unfold renders_tstr. cbn. eauto. Qed.

  Lemma type_string_is_tstr_strong : forall t,
    renders_tstr t /\ (forall ts, t = TTuple ts -> Forall renders_tstr ts).
  Proof.
    induction t as [| n q | n q ts IH | vs | b mn mx i1 i2 | ts IH | ts IH | k v IHk IHv | ps r IHp IHr | ts IH
                   | ls | t IH | ts IH | n | n u IH] using ty_ind';
      (split; [|try (intros ? E; discriminate E)]); try (intros s x s' H; cbn [type_string tstr] in * ).
    - unfold add_todo in H. minv_all. reflexivity.
    - destruct (lookup_pair n t_builtin_type_names); [minv_all; reflexivity|].
      minv_all. destruct n; [minv_all|]. minv_all. reflexivity.
    - minv_all. match goal with H : seq_finish _ _ _ = Ok _ |- _ => apply seq_finish_str in H; subst end.
      f_equal. eapply mmap_tstr; [|eassumption]. eapply Forall_impl; [|exact IH]. cbn. tauto.
    - discriminate.
    - discriminate.
    - assert (IH' : Forall renders_tstr ts) by (eapply Forall_impl; [|exact IH]; cbn; tauto).
      match goal with |- context [if ?c then _ else _] => destruct c end.
      + minv_all. reflexivity.
      + minv_all. f_equal. destruct (2 <=? _).
        * minv_all. f_equal. f_equal.
          match goal with H : mmap _ ts _ = Ok _ |- _ =>
            eapply (mmap_inv _ (fun x => if is_literal x then [] else [tstr nc x])) in H; [exact H|] end.
          eapply Forall_impl; [|exact IH']. cbn. intros a Ha s1 y s2 Hy. destruct (is_literal a); minv_all; [reflexivity|].
          f_equal. eauto.
        * eapply mmap_tstr; eassumption.
    - minv_all. match goal with H : seq_finish _ _ _ = Ok _ |- _ => apply seq_finish_str in H; subst end.
      f_equal. eapply mmap_tstr; [|eassumption]. eapply Forall_impl; [|exact IH]. cbn. tauto.
    - destruct IHk as [IHk _], IHv as [IHv _]. minv_all.
      match goal with H1 : type_string _ _ _ k _ = Ok _, H2 : type_string _ _ _ v _ = Ok _ |- _ =>
        rewrite (IHk _ _ _ H1), (IHv _ _ _ H2) end. reflexivity.
    - assert (IHp' : Forall renders_tstr ps) by (eapply Forall_impl; [|exact IHp]; cbn; tauto).
      destruct IHr as [IHr IHrt]. minv_all.
      match goal with H : mmap _ ps _ = Ok (?l, _) |- _ => assert (HP : l = map (tstr nc) ps) by (eapply mmap_tstr; eassumption); subst l end.
      destruct r; minv_all;
        try (match goal with H : type_string _ _ _ _ _ = Ok _ |- _ => rewrite (IHr _ _ _ H) end; reflexivity).
      * destruct (str_eqb name (K"None")); minv_all; [reflexivity|].
        match goal with H : type_string _ _ _ _ _ = Ok _ |- _ => rewrite (IHr _ _ _ H) end. reflexivity.
      * match goal with H : mmap _ ts _ = Ok (?l, _) |- _ =>
          assert (HR : l = map (tstr nc) ts) by (eapply mmap_tstr; [apply IHrt; reflexivity|eassumption]); subst l end.
        reflexivity.
    - unfold add_todo in H. minv_all. match goal with H : seq_finish _ _ _ = Ok _ |- _ => apply seq_finish_str in H; subst end.
      f_equal. eapply mmap_tstr; [|eassumption]. eapply Forall_impl; [|exact IH]. cbn. tauto.
    - minv_all. reflexivity.
    - destruct IH as [IH _]. eauto.
    - unfold add_todo in H. minv_all.
      match goal with H : mmap _ ts _ = Ok (?l, _) |- _ =>
        assert (HR : l = map (tstr nc) ts) by (eapply mmap_tstr; [|eassumption]; eapply Forall_impl; [|exact IH]; cbn; tauto); subst l end.
      reflexivity.
    - intros ts0 E. inversion E; subst. eapply Forall_impl; [|exact IH]. cbn. tauto.
    - minv_all. reflexivity.
    - minv_all. reflexivity.
  Qed.

  Theorem type_string_is_tstr : forall t s x s',
    type_string classes reexport_map nc t s = Ok (x, s') -> x = tstr nc t.
  Proof. intro t. exact (proj1 (type_string_is_tstr_strong t)). Qed.

End WithApi.
