(* C17: precedence along a chain of private ancestors.  The names a level renders are new (not already defined by the subclass
   or by a nearer ancestor), they are passed on, and whatever has been passed on is skipped farther up. *)
From Coq Require Import List Ascii String Bool Arith Lia Permutation.
From SV Require Import Lib.Str Gen.Tables Model.Types Model.Naming Model.Api Model.Back
  Proofs.TypesProofs Proofs.BackProofs Proofs.SortProofs Proofs.MarkerProofs Proofs.GenProofs.
Import ListNotations.

Lemma fold_set_add_In (names : list str) (l : list str) k :
  In k (fold_left (fun acc x => set_add x acc) l names) <-> In k names \/ In k l.
Proof.
  revert names. induction l as [|x r IH]; intro names; cbn [fold_left]; [cbn; tauto|].
  rewrite IH, set_add_In. cbn. intuition.
Qed.

Lemma set_union_In a b k : In k (set_union a b) <-> In k a \/ In k b.
Proof. unfold set_union. apply fold_set_add_In. Qed.

Lemma fold_set_add_map {X} (f : X -> str) (l : list X) names :
  fold_left (fun acc m => set_add (f m) acc) l names = fold_left (fun acc x => set_add x acc) (map f l) names.
Proof. revert names. induction l as [|x r IH]; intro names; cbn; [reflexivity|apply IH]. Qed.

Section WithApi.
  Variable classes : list (str * cls).
  Variable reexport_map : list (str * list rmod).
  Variable nc : bool.

  (* a level renders only names that nothing nearer has defined *)
  Theorem rendered_names_are_new ms inner ic already s r s' :
    class_method_string classes reexport_map nc ms inner ic already s = Ok (r, s') ->
    forall n, In n (snd r) -> ~ In n already /\ exists m, In m ms /\ f_name m = n /\ method_skipped ic already m = false.
  Proof.
    unfold class_method_string. intros H n Hn. minv_all.
    match goal with p : (list str * list str * list str)%type |- _ => destruct p as [[props meths] names] end. minv_all. cbn [snd] in Hn.
    match goal with H : class_methods _ _ _ _ _ _ _ _ _ _ _ = Ok _ |- _ => apply class_methods_names in H; cbn [snd] in H; subst names end.
    rewrite fold_set_add_map in Hn. apply fold_set_add_In in Hn. destruct Hn as [[]|Hn].
    apply in_map_iff in Hn. destruct Hn as (m & E & Hm). apply filter_In in Hm. destruct Hm as [Hm NS].
    apply negb_true_iff in NS. split.
    - intro HA. unfold method_skipped in NS. apply orb_false_iff in NS. destruct NS as [_ NS]. subst n.
      apply mem_str_In in HA. congruence.
    - exists m. auto.
  Qed.

  (* ... and every name it renders is reported, so that it is passed on *)
  Theorem rendered_names_are_reported ms inner ic already s r s' m :
    class_method_string classes reexport_map nc ms inner ic already s = Ok (r, s') ->
    In m ms -> method_skipped ic already m = false -> In (f_name m) (snd r).
  Proof.
    unfold class_method_string. intros H Hm NS. minv_all.
    match goal with p : (list str * list str * list str)%type |- _ => destruct p as [[props meths] names] end. minv_all. cbn [snd].
    match goal with H : class_methods _ _ _ _ _ _ _ _ _ _ _ = Ok _ |- _ => apply class_methods_names in H; cbn [snd] in H; subst names end.
    rewrite fold_set_add_map. apply fold_set_add_In. right. apply in_map_iff. exists m. split; [reflexivity|].
    apply filter_In. split; [exact Hm|]. rewrite NS. reflexivity.
  Qed.

  (* what the subclass or a nearer ancestor shows is skipped farther up: the set handed to the next ancestor is
     `set_union already existing` (see internal_class_string) *)
  Theorem nearer_definition_wins ic already existing m :
    In (f_name m) already \/ In (f_name m) existing -> method_skipped ic (set_union already existing) m = true.
  Proof.
    intro H. unfold method_skipped. apply orb_true_iff. right. apply mem_str_In. apply set_union_In. exact H.
  Qed.
End WithApi.
